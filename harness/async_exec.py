"""
Like eliot_exec.py, but every context is a REAL asyncio Task in one event loop (so context inheritance is asyncio's own:
a task created inside an action inherits it) and the interleaving is forced at await points: each task awaits its inbox
between two of its operations and the controller releases one operation at a time.  No run() blocks (they need a synchronous
body) and no threads.   usage: python async_exec.py programs.json traces.json
"""
import sys, json, asyncio, traceback, warnings
import eliot
from eliot import start_action, start_task, log_message, current_action, Action
from eliot._output import Logger
import eliot_exec as X
from eliot_exec import Env, _Abort, HarnessError, VAL, forest_of


class ARunner:
    def __init__(self, env, c):
        self.env, self.c = env, c
        self.inbox = asyncio.Queue()
        self.done = asyncio.Queue()
        self.task = None

    async def main(self):
        try:
            ex = await self.run_block()
            raise HarnessError("Exit without an open block: %r" % (ex,))
        except _Abort:
            pass
        except BaseException as e:
            if self.env.recording and not self.env.abort:
                self.env.error = "".join(traceback.format_exception(type(e), e, e.__traceback__))
        finally:
            self.done.put_nowait("exit")

    def begin_op(self, op):
        e = dict(op)
        e["e"] = "call"
        e["pre"] = self.env.act_index(current_action())
        if self.env.recording:
            self.env.ev.append(e)

    def finish_op(self, v):
        if v == "raised":
            self.env.abort = True
        if self.env.recording:
            self.env.ev.append({"e": "ret", "c": self.c, "v": v, "cur": self.env.act_index(current_action())})
        self.done.put_nowait("op")

    async def next_op(self):
        op = await self.inbox.get()                 # <- the await point at which tasks interleave
        if op is None:
            self.env.recording = False
            raise _Abort()
        return op

    async def run_block(self):
        while True:
            op = await self.next_op()
            if "a" in op and (op["a"] > len(self.env.acts) or self.env.acts[op["a"] - 1] is None):
                self.env.abort = True
                self.env.freeze()
                self.done.put_nowait("op")
                raise _Abort()
            if op["op"] == "Exit":
                return op
            if op["op"] == "Enter":
                await self.do_enter(op)
            else:
                self.do_simple(op)

    async def do_enter(self, op):
        env = self.env
        a = env.acts[op["a"] - 1]
        kind = op["kind"]
        st = {"entered": False, "exiting": False, "exc": None}

        async def body():
            st["entered"] = True
            self.finish_op("ok")
            ex = await self.run_block()
            self.begin_op(ex)
            st["exiting"] = True
            if ex["o"] != "ok":
                st["exc"] = env.make_exc(ex["o"])
                raise st["exc"]

        self.begin_op(op)
        try:
            if kind == "with":
                with a:
                    await body()
            elif kind == "ctx":
                with a.context():
                    await body()
            else:
                raise HarnessError("block kind %r is not available with coroutines" % kind)
        except (_Abort, HarnessError):
            raise
        except BaseException as e:
            if not st["entered"]:
                self.finish_op("raised")
                raise _Abort()
            if not st["exiting"]:
                raise
            self.finish_op("app" if e is st["exc"] else "raised")
        else:
            self.finish_op("ok")

    def do_simple(self, op):
        env = self.env
        name = op["op"]
        self.begin_op(op)
        v = "ok"
        try:
            if name == "StartAction":
                env.acts.append(start_action(action_type=op["ty"], sa=VAL["sa"]) if op["ty"] != "E" else start_action(sa=VAL["sa"]))
            elif name == "StartTask":
                env.acts.append(start_task(action_type=op["ty"], sa=VAL["sa"]) if op["ty"] != "E" else start_task(sa=VAL["sa"]))
            elif name == "Finish":
                env.acts[op["a"] - 1].finish(None if op["o"] == "ok" else env.make_exc(op["o"]))
            elif name == "Log":
                log_message(message_type=op["ty"], mf=VAL["mf"])
            elif name == "ActionLog":
                env.acts[op["a"] - 1].log(message_type=op["ty"], mf=VAL["mf"])
            elif name == "Spawn":
                if op["kind"] != "task":
                    raise HarnessError("only asyncio tasks here")
                r = ARunner(env, op["c2"])
                env.runners[op["c2"]] = r
                r.task = asyncio.ensure_future(r.main())          # the new task copies the creator's context HERE
            else:
                raise HarnessError("operation %r is not available in the asyncio executor" % name)
        except (_Abort, HarnessError):
            raise
        except BaseException:
            v = "raised"
        self.finish_op(v)


async def run_program(env, prog):
    main = ARunner(env, 1)
    env.runners[1] = main
    main.task = asyncio.ensure_future(main.main())
    for op in prog["ops"]:
        r = env.runners.get(op["c"])
        if r is None:
            env.error = "op for unborn context %r" % (op,)
            break
        r.inbox.put_nowait(op)
        what = await asyncio.wait_for(r.done.get(), 30)
        if env.abort:
            break
        if what == "exit" or env.error:
            env.error = env.error or "context %d ended early" % op["c"]
            break
    env.freeze()
    for r in list(env.runners.values()):
        r.inbox.put_nowait(None)
    await asyncio.gather(*[r.task for r in env.runners.values() if r.task is not None], return_exceptions=True)


def execute(prog):
    env = Env(prog)
    Logger._destinations = env.D
    init = prog.get("init", [])
    if init:
        env.D.add(*[env.dest[d] for d in init])
    asyncio.run(run_program(env, prog))
    parsed, filewhy, perr = forest_of(env)
    return {"init": init, "ev": env.ev, "has_parsed": parsed is not None, "parsed": parsed or [], "file": filewhy,
            "parse_error": perr, "error": env.error or ""}


def main():
    progs = json.load(open(sys.argv[1]))
    warnings.simplefilter("ignore")
    json.dump({"eliot_file": eliot.__file__, "traces": [execute(p) for p in progs]}, open(sys.argv[2], "w"))


if __name__ == "__main__":
    main()
