"""Subprocess side of harness/c10_values.py: the only part that imports eliot (from the tree under test).

usage: c10_exec.py job.json out.json

For every default function of the job a fresh eliot._output.Destinations is installed as Logger._destinations, holding
  * an eliot.FileDestination over a real temporary file opened in BINARY mode,
  * a destination added by eliot.to_file() over a real temporary file opened in TEXT mode (encoding utf-8),
  * a plain list (what was offered, and the failure reports).
Each witness is logged with eliot.log_message(); the bytes appended to each file by that one call are cut out by file
size before/after and handed, with what the list received, to the oracle c10_values.judge_call (which imports neither
eliot nor orjson)."""
import sys, os, json, warnings, tempfile, shutil

import c10_values as V          # pure: witnesses and oracle

import eliot
import eliot._output as O
import eliot.json as EJ


def caller_default(o):
    """The documented way of extending the encoding: handle your own type, then defer to eliot's function."""
    if isinstance(o, V.Custom):
        return {"x": o.x}
    if isinstance(o, V.Encoded):
        return o.enc                     # may be None or falsy: that IS the encoding
    return EJ.json_default(o)


class CallerEncoder(EJ.EliotJSONEncoder):
    """The deprecated way: an encoder class."""
    def default(self, o):
        if isinstance(o, V.Custom):
            return {"x": o.x}
        if isinstance(o, V.Encoded):
            return o.enc
        return EJ.EliotJSONEncoder.default(self, o)


def dest_kwargs(dflt):
    if dflt == "eliot":
        return {}
    if dflt == "caller":
        return {"json_default": caller_default}
    if dflt == "encoder":
        return {"encoder": CallerEncoder}
    raise ValueError(dflt)


def size(f):
    return os.fstat(f.fileno()).st_size


def short(v, n=300):
    try:
        s = repr(v)
    except Exception as e:
        s = "<repr failed: %r>" % (e,)
    return s if len(s) <= n else s[:n] + "..."


def main():
    job = json.load(open(sys.argv[1]))
    out = {"file": eliot.__file__, "executed": 0, "counts": {}, "violations": [], "known": [], "drift": {},
           "memlog": {"agree": 0, "disagree": 0, "examples": []}, "class_choice": {}, "setup_failures": [], "sample": None,
           "trace": [], "machinery": None}
    try:
        import orjson
        out["orjson"] = orjson.__version__ if EJ._dumps_bytes is orjson.dumps else "installed but not used"
    except ImportError:
        out["orjson"] = "absent"
    warnings.simplefilter("ignore")
    tmp = tempfile.mkdtemp(prefix="c10v_")
    try:
        by_dflt = {}
        for c in job["cases"]:
            by_dflt.setdefault(c["dflt"], []).append(V.prepare(c))
        for d in job.get("setup_only", []):
            by_dflt.setdefault(d, [])
        for dflt in sorted(by_dflt):
            run_default(job, dflt, by_dflt[dflt], tmp, out)
    except V.MachineryFailure as e:
        out["machinery"] = str(e)
    finally:
        shutil.rmtree(tmp, ignore_errors=True)
    json.dump(out, open(sys.argv[2], "w"))


def run_default(job, dflt, cases, tmp, out):
    def witnesses(case):
        if job.get("only_w") is not None:
            return [job["only_w"]]
        return range(job["nwit"]["must" if case["must"] else "opt"].get(dflt, 0))
    pb, pt = os.path.join(tmp, dflt + ".bin.log"), os.path.join(tmp, dflt + ".txt.log")
    dests = O.Destinations()
    O.Logger._destinations = dests
    received = []
    fb = open(pb, "wb")
    ft = open(pt, "w", encoding="utf-8")
    try:
        kw = dest_kwargs(dflt)
        dests.add(O.FileDestination(file=fb, **kw))
        eliot.to_file(ft, **kw)
        dests.add(received.append)
        if kw:
            ml = eliot.MemoryLogger(**kw)
        else:
            ml = eliot.MemoryLogger()
    except Exception as e:
        out["setup_failures"].append({"dflt": dflt, "what": "%s default, binary file %r / text file %r: %r" % (dflt, fb, ft, e)})
        out["executed"] += sum(len(witnesses(c)) for c in cases)
        fb.close()
        ft.close()
        return
    calls = []
    seq = 0
    tolerate = set(job.get("tolerate", ()))
    for case in cases:
        for w in witnesses(case):
            rng = V.witness_rng(job["seed"], case["term"], dflt, w)
            wit = V.build(case["tree"], rng, w)
            field = V.field_name(rng, w)
            seq += 1
            n0, sb, st = len(received), size(fb), size(ft)
            raised = None
            try:
                eliot.log_message(message_type=V.MSG_TYPE, seq=seq, **{field: wit.obj})
            except BaseException as e:
                raised = "%s: %s" % (type(e).__name__, short(e, 200))
            ml_ok = None
            if w == 0 and job.get("memlog") and V.height(case["tree"]) <= 1:      # lightly: MemoryLogger.write costs an inspect.stack()
                try:
                    ml.write({"task_uuid": "u", "task_level": [1], "timestamp": 0.0, "message_type": V.MSG_TYPE, "seq": seq, field: wit.obj})
                    ml.validate()
                    ml_ok = True
                except TypeError:
                    ml_ok = False
                except Exception as e:
                    ml_ok = "raised %r" % (e,)
                ml.reset()
            calls.append((case, w, wit, field, seq, n0, len(received), sb, size(fb), st, size(ft), raised, ml_ok))
    fb.close()
    ft.close()
    data_b = open(pb, "rb").read()
    data_t = open(pt, "rb").read()
    for case, w, wit, field, seq, n0, n1, sb, eb, st, et, raised, ml_ok in calls:
        chunk_b, chunk_t = data_b[sb:eb], data_t[st:et]
        verdict, what = V.judge_call(case, wit, field, seq, received[n0:n1], chunk_b, chunk_t, raised, tolerate)
        out["executed"] += 1
        out["counts"][verdict] = out["counts"].get(verdict, 0) + 1
        refused = verdict in ("rejected", "known:time_aware")
        def info():
            return {"term": case["term"], "dflt": dflt, "exp": case["exp"], "must": case["must"], "rej": case["rej"], "w": w,
                    "field": field, "value": short(wit.obj), "what": what, "verdict": verdict,
                    "observed": {"binary": short(chunk_b, 600), "text": short(chunk_t, 600),
                                 "offered": [m.get("message_type") for m in received[n0:n1]]}}
        if verdict == "violation" and len(out["violations"]) < 40:
            out["violations"].append(info())
        if verdict.startswith("known:") and sum(1 for k in out["known"] if k["verdict"] == verdict) < 2:
            out["known"].append(info())
        if verdict != "violation":
            if refused != case["rej"]:
                out["drift"][case["term"]] = out["drift"].get(case["term"], 0) + 1
            if case["tree"][2] is None and not case["must"]:
                cc = out["class_choice"].setdefault(case["tree"][0], [0, 0])
                cc[1 if refused else 0] += 1
            if ml_ok is not None:
                if ml_ok is (not refused):
                    out["memlog"]["agree"] += 1
                else:
                    out["memlog"]["disagree"] += 1
                    if len(out["memlog"]["examples"]) < 3:
                        out["memlog"]["examples"].append({"term": case["term"], "dflt": dflt, "value": short(wit.obj, 120),
                                                          "file": "refused" if refused else "line", "memory_logger_validate": ml_ok})
        if job.get("verbose"):
            out["trace"].append(info())
        if out["sample"] is None and verdict == "line" and V.height(case["tree"]) == 2 and case["must"]:
            out["sample"] = {"term": case["term"], "default": dflt, "expected": case["exp"], "witness": w, "value": short(wit.obj, 200),
                             "line_binary_and_text": short(chunk_b, 400)}


if __name__ == "__main__":
    main()
