"""C10, history clause: ONE dictionary object is offered to a FileDestination, changed by its owner (top level and nested), and offered
again -- as a forwarding destination or a custom logger that recycles its record would do.  Every line must be the JSON of the
dictionary AS IT WAS WHEN OFFERED.  Prints, per mode, the decoded lines next to the expected snapshots."""
import sys, json, io, copy, random

from eliot import FileDestination


def histories(seed, n):
    rng = random.Random(seed)
    for h in range(n):
        d = {"task_uuid": "u%d" % h, "task_level": [1], "timestamp": 1.5, "message_type": "t", "v": [1, {"k": "ü\U0001f600"}], "s": "x"}
        steps = []
        for i in range(rng.randint(2, 6)):
            steps.append(rng.choice(["top", "nested", "add", "remove", "level", "same"]))
        yield d, steps


def mutate(d, step, i):
    if step == "top":
        d["s"] = "x%d" % i
    elif step == "nested":
        d["v"][1]["k"] = "nested %d" % i
        d["v"].append(i)
    elif step == "add":
        d["extra%d" % i] = {"i": i}
    elif step == "remove":
        d.pop("s", None)
    elif step == "level":
        d["task_level"] = d["task_level"][:-1] + [d["task_level"][-1] + 1]
    # "same": offered again unchanged


def main():
    seed, n = int(sys.argv[1]), int(sys.argv[2])
    out = []
    for text in (False, True):
        for d0, steps in histories(seed, n):
            f = io.StringIO() if text else io.BytesIO()
            dest = FileDestination(file=f)
            d = copy.deepcopy(d0)
            expected = []
            err = ""
            try:
                expected.append(copy.deepcopy(d))
                dest(d)
                for i, st in enumerate(steps):
                    mutate(d, st, i)
                    expected.append(copy.deepcopy(d))
                    dest(d)
            except Exception as e:        # noqa
                err = "%s: %s" % (type(e).__name__, e)
            data = f.getvalue()
            if text:
                data = data.encode("utf-8")
            lines = data.split(b"\n")
            got = []
            for ln in lines[:-1]:
                try:
                    got.append(json.loads(ln.decode("utf-8")))
                except Exception as e:    # noqa
                    got.append({"undecodable": repr(ln[:80])})
            out.append({"text": text, "steps": steps, "expected": expected, "got": got, "err": err, "tail": lines[-1].decode("utf-8", "replace")})
    json.dump(out, sys.stdout)


main()
