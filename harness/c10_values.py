"""C10, value-fidelity half: spec/JsonValues.tla (the value algebra and the normative content of the line) bound to the
real eliot.FileDestination / to_file.

 1. TLC enumerates every term of the algebra (all container shapes over all value classes up to the nesting bound)
    x file mode x default function, checks the invariants of the rules over the whole algebra and prints one record
    (term, mode, default, expected outcome, line mandatory?, refused today?) per state.
 2. every record is instantiated with several concrete witnesses (witness 0: the boundary value of each class; the
    others drawn with SEED) and logged with eliot.log_message through the real path: a fresh eliot._output.Destinations
    installed as Logger._destinations holding a FileDestination over a real binary file, a to_file() destination over a
    real text-mode (utf-8) file and a plain list.  Code importing eliot lives in harness/c10_exec.py (subprocesses).
 3. the oracle (this file; it never touches orjson or eliot) looks at the bytes each logging call appended to each file
    and at what the list received: strict UTF-8, stdlib-json validity (no NaN/Infinity tokens, no duplicate keys), one
    object per line, newline-terminated, the two files byte-identical, the decoded message equal to the offered one
    field by field, the logged value matching the specification's outcome, the logging call not raising; a message may
    be refused (no bytes for it, every refusing destination reported by one eliot:destination_failure which itself
    has its line) only where the specification does not make the line mandatory.

The module is a library: checks_c10.py calls run_values(rep, tier) and replay(prop, obj, path).
"""
import os, sys, json, math, random, struct, datetime, pathlib, uuid, enum, dataclasses, itertools, threading
from concurrent.futures import ThreadPoolExecutor
from common import *

EXEC = os.path.join(HARNESS, "c10_exec.py")
NPROC = max(2, min(14, WORKERS))
CFG = {"quick": ("MC_JsonValues_Quick.cfg", {"Depth": 2, "Wide": False}),
       "thorough": ("MC_JsonValues_Thorough.cfg", {"Depth": 3, "Wide": True})}
BROKEN_CFG = ("MC_JsonValues_Broken.cfg", {"Depth": 1, "Wide": False, "Broken": True}, "C10_DomainIffMustWrite")
# witnesses per (term, default): where the line is mandatory (promised domain) / where a refusal is accepted too
NWIT = {"quick": {"must": {"eliot": 5, "caller": 5, "encoder": 2}, "opt": {"eliot": 2, "caller": 2, "encoder": 1}},
        "thorough": {"must": {"eliot": 24, "caller": 24, "encoder": 6}, "opt": {"eliot": 4, "caller": 4, "encoder": 2}}}
# known findings are matched by mechanism: entries of known_findings.json with engine "json" and one of these json_class
KNOWN_CLASSES = {
    "time_aware": "a datetime.time with tzinfo logged to a JSON file is refused by orjson before eliot.json.json_default's "
                  "isoformat() rule is consulted: no line, a destination failure instead",
    "time_frac5": "a datetime.time whose microsecond is 10000..99999 is written by orjson with a 5-digit fraction (leading zero "
                  "dropped: time(1,2,3,13000) -> \"01:02:03.13000\"), which reads back as another time; eliot.json.json_default's "
                  "isoformat() rule is never consulted",
}
MSG_TYPE = "c10:value"
FAILURE_TYPE = "eliot:destination_failure"


# ----------------------------------------------------------------------------------------------------------------------
# the compact term / outcome syntax printed by JsonValues!Show, ShowO:   node ::= name | name "(" [item {"," item}] ")"
#                                                                        item ::= [key ":"] node
def parse_tree(s):
    """-> (head, keys, kids); leaves have kids None."""
    pos = [0]
    n = len(s)

    def ident():
        i = pos[0]
        j = i
        while j < n and (s[j].isalnum() or s[j] == "_"):
            j += 1
        if j == i:
            raise MachineryFailure("cannot parse term %r at %d" % (s, i))
        pos[0] = j
        return s[i:j]

    def node():
        head = ident()
        if pos[0] < n and s[pos[0]] == "(":
            pos[0] += 1
            keys, kids = [], []
            while s[pos[0]] != ")":
                save = pos[0]
                name = ident()
                if pos[0] < n and s[pos[0]] == ":":
                    pos[0] += 1
                    keys.append(name)
                else:
                    pos[0] = save
                kids.append(node())
                if s[pos[0]] == ",":
                    pos[0] += 1
            pos[0] += 1
            return (head, tuple(keys), tuple(kids))
        return (head, (), None)

    t = node()
    if pos[0] != n:
        raise MachineryFailure("trailing text in term %r" % s)
    return t


def leaves_of(t):
    if t[2] is None:
        return [t[0]]
    return [c for k in t[2] for c in leaves_of(k)]


def height(t):
    if t[2] is None:
        return 0
    return 1 + max([height(k) for k in t[2]] or [0])


# ----------------------------------------------------------------------------------------------------------------------
# concrete witnesses of the value classes
class Custom(object):
    """The caller's own type; the caller's json_default turns it into {"x": self.x}."""
    def __init__(self, x):
        self.x = x

    def __repr__(self):
        return "Custom(%r)" % (self.x,)


class Encoded(object):
    """Another type of the caller's: the caller's json_default encodes it as the JSON-native value self.enc, which may be
    None (a 'redacted' marker whose documented encoding IS null) or falsy (0, "", [], False...)."""
    def __init__(self, enc):
        self.enc = enc

    def __repr__(self):
        return "Encoded(as %r)" % (self.enc,)


class Unsupported(object):
    def __repr__(self):
        return "<Unsupported>"


@dataclasses.dataclass
class DC:
    f: object


class Color(enum.Enum):
    RED = 1
    NAME = "name"


def nest(n, kind, core):
    v = core
    for i in range(n):
        v = [v] if (kind == "list" or (kind == "mixed" and i % 2)) else {"k": v}
    return v


def _rand_float(rng):
    while True:
        x = struct.unpack("<d", struct.pack("<Q", rng.getrandbits(64)))[0]
        if math.isfinite(x):
            return x


_ASCII = "".join(chr(i) for i in range(0x20, 0x7f))
_CTRL = "".join(chr(i) for i in range(0x20)) + "\x7f\x80\x85\x9f"
_SEPS = "\u2028\u2029\x85\x0b\x0c\x1c\x1d\x1e"


def _rand_text(rng, special, n=10):
    return "".join(rng.choice(special) if rng.random() < 0.5 else rng.choice(_ASCII) for _ in range(rng.randint(1, n)))


def _rand_cp(rng):
    lo, hi = rng.choice([(0x80, 0x7ff), (0x800, 0xd7ff), (0xe000, 0xffff), (0x10000, 0x10ffff), (0x10000, 0x1ffff)])
    return chr(rng.randint(lo, hi))


def _rand_unicode(rng):
    return "".join(_rand_cp(rng) if rng.random() < 0.7 else rng.choice(_ASCII) for _ in range(rng.randint(1, 8)))


def _rand_date(rng):
    return datetime.date.fromordinal(rng.randint(1, datetime.date.max.toordinal()))


def _rand_time(rng):
    return datetime.time(rng.randint(0, 23), rng.randint(0, 59), rng.randint(0, 59),
                         rng.choice([0, 0, 1, 999999, rng.randint(0, 999999), rng.randint(0, 999) * 1000]))


def _tz(minutes):
    return datetime.timezone(datetime.timedelta(minutes=minutes))


def _rand_datetime(rng):
    d = datetime.datetime.combine(_rand_date(rng), _rand_time(rng))
    if rng.random() < 0.5 and 2 < d.year < 9998:
        d = d.replace(tzinfo=_tz(rng.choice([0, 60, -300, 330, 765, -720, 840])))
    return d


UTC = datetime.timezone.utc
# class -> (fixed boundary witnesses, random generator or None)
LEAVES = {
    "null": ([None], None), "true": ([True], None), "false": ([False], None),
    "int_small": ([42, 0, -1, 1, -2 ** 31, 2 ** 31 - 1, 2 ** 32, 2 ** 53, 2 ** 53 + 1, -2 ** 53 - 1, 10 ** 15],
                  lambda r: r.randint(-2 ** 40, 2 ** 40)),
    "int_i64max": ([2 ** 63 - 1, 2 ** 63 - 2, 2 ** 62, 2 ** 63 - 1025], lambda r: r.randint(2 ** 53, 2 ** 63 - 1)),
    "int_i64min": ([-2 ** 63, -2 ** 63 + 1, -2 ** 62], lambda r: r.randint(-2 ** 63, -2 ** 53)),
    "int_u64lo": ([2 ** 63, 2 ** 63 + 1], lambda r: r.randint(2 ** 63, 2 ** 64 - 1)),
    "int_u64max": ([2 ** 64 - 1, 2 ** 64 - 2], None),
    "int_2p64": ([2 ** 64, 2 ** 64 + 1], None),
    "int_below": ([-2 ** 63 - 1, -2 ** 64], None),
    "int_big": ([2 ** 100, -2 ** 100, 10 ** 30, 2 ** 1000], lambda r: r.choice([1, -1]) * (r.getrandbits(r.randint(66, 300)) | (1 << 65))),
    "flt_finite": ([1.5, 0.1, 0.0, -2.5e-05, 1e16, 1e22, 123456.789, 1.0 / 3, 9007199254740992.0, 1e-07, 9.223372036854776e+18,
                    4.35, 0.30000000000000004, 1e23, 5e-05, 100.0], _rand_float),
    "flt_negzero": ([-0.0], None),
    "flt_max": ([1e308, 1.7976931348623157e308, -1.7976931348623157e308, 8.98846567431158e307], None),
    "flt_min": ([5e-324, -5e-324, 2.2250738585072014e-308, 2.225073858507201e-308, 1e-310], None),
    "flt_nan": ([float("nan"), -float("nan")], None), "flt_pinf": ([float("inf")], None), "flt_ninf": ([-float("inf")], None),
    "txt_ascii": (["abc", "", 'q"uo\\te/', " lead and trail ", '{"a": [1, null]}', "null", "\\u0041\\n", "</script>", "%s %d {}"],
                  lambda r: "".join(r.choice(_ASCII) for _ in range(r.randint(0, 14)))),
    "txt_ctrl": (["a\nb", "\x00", "\r\n", "a\tb", _CTRL, "\x1b[0m", "line1\nline2\n", "\x08\x0c", "\n"], lambda r: _rand_text(r, _CTRL)),
    "txt_astral": (["\U0001F600", "\U00010000\U0010FFFF", "\xe9\u4e2d\uffff", "\ufeffBOM", "\ufffe\ufffd", "a\u0300", "\ud7ff\ue000",
                    "\U0001F468\u200d\U0001F469\u200d\U0001F467", "\xa0\xad\u200b"], _rand_unicode),
    "txt_linesep": (["\u2028", "\u2029", "a\u2028b\u2029c", "\x85", "\x0b\x0c\x1c\x1d\x1e"], lambda r: _rand_text(r, _SEPS)),
    "txt_surrogate": (["\ud800", "a\udfffb", "\udc00\ud800"], None),
    "bytes_utf8": ([b"abc", "\xe9".encode("utf-8"), b""], None),
    "bytes_bad": ([b"\xff\xfe", b"\x80"], None),
    "path": ([pathlib.Path("/tmp/x.log"), pathlib.Path("rel/a b/\xfc\u4e2d.txt"), pathlib.Path("/"), pathlib.Path("."),
              pathlib.Path('/a/"q"/\n\\'), pathlib.Path("/\U0001F600/..")],
             lambda r: pathlib.Path(r.choice(["", "/"]) + "/".join(_rand_unicode(r) if r.random() < .5 else _rand_text(r, _CTRL, 5)
                                                                   for _ in range(r.randint(1, 3))).replace("\x00", "0"))),
    "date": ([datetime.date(2024, 2, 29), datetime.date.min, datetime.date.max, datetime.date(999, 12, 31)], _rand_date),
    "time": ([datetime.time(12, 0), datetime.time(1, 2, 3, 13000), datetime.time(23, 59, 59, 999999), datetime.time(0, 0, 0, 1), datetime.time(0, 0),
              datetime.time(1, 2, 3, 4000)], _rand_time),
    "datetime": ([datetime.datetime(2024, 1, 1, 12, 0), datetime.datetime(2024, 1, 1, 12, 0, 0, 123456, tzinfo=UTC),
                  datetime.datetime(1999, 12, 31, 23, 59, 59, 1, tzinfo=_tz(330)), datetime.datetime(2024, 6, 1, 0, 0, tzinfo=_tz(-480)),
                  datetime.datetime.min, datetime.datetime.max], _rand_datetime),
    "time_aware": ([datetime.time(1, 2, 3, tzinfo=UTC), datetime.time(23, 59, 59, 999999, tzinfo=_tz(120))], None),
    "complex": ([1 + 2j, complex(-0.0, 0.0), complex(1e308, -5e-324), 0j, complex(0.1, -1e-07)],
                lambda r: complex(_rand_float(r), _rand_float(r))),
    "uuid": ([uuid.UUID("12345678-1234-5678-1234-567812345678")], lambda r: uuid.UUID(int=r.getrandbits(128))),
    "enum": ([Color.RED, Color.NAME], None),
    "custom_null": ([Encoded(None)], None),
    "custom_falsy": ([Encoded(0), Encoded(""), Encoded([]), Encoded(False), Encoded(0.0), Encoded({}), Encoded(-0.0)], None),
    "unsupported": ([Unsupported(), object(), len, int], None),
    "deep": ([nest(100, "list", 7), nest(100, "dict", "x\n"), nest(100, "mixed", -0.0), nest(128, "mixed", None)],
             lambda r: nest(r.randint(20, 200), r.choice(["list", "dict", "mixed"]), r.choice([1, "\U0001F600", 2 ** 63 - 1, 1e308]))),
    "too_deep": ([nest(254, "list", 1), nest(254, "dict", 1), nest(300, "mixed", 1), nest(1200, "list", 1)], None),
}
KEYS = {
    "k_ascii": ["a", "key", "with space", "a.b", "1"], "k_ctrl": ["k\n", "\x00", "tab\t", "\r"],
    "k_astral": ["\U0001F600", "cl\xe9", "\u2028", "\u4e2d\u6587"], "k_empty": [""],
    "k_int": [1, 0, -5], "k_none": [None], "k_tuple": [(1, 2), ()], "k_surrogate": ["\ud800"], "x": ["x"],
}
FIELD_NAMES = ["v", "value", "cl\xe9\U0001F600", "with space", "k\n\t", "\u0394", "\x00", ""]


def gen_leaf(cls, rng, w):
    fixed, rnd = LEAVES[cls]
    if w < 2:
        return fixed[w % len(fixed)]
    if rnd is None or rng.random() < 0.5:
        return rng.choice(fixed)
    return rnd(rng)


class Wit(object):
    """A witness: the Python object and, in parallel to the term, the witnesses of its parts."""
    __slots__ = ("obj", "kids")

    def __init__(self, obj, kids=()):
        self.obj, self.kids = obj, kids


def build(t, rng, w):
    head, keys, kids = t
    if kids is None:
        return Wit(gen_leaf(head, rng, w))
    ks = [build(k, rng, w) for k in kids]
    if head == "list":
        return Wit([k.obj for k in ks], ks)
    if head == "dict":
        d = {}
        for kc, k in zip(keys, ks):
            cand = KEYS[kc]
            key = cand[w % len(cand)] if w < 2 else rng.choice(cand)
            if key in d:                                   # 1 == True == 1.0 ...: keep the keys distinct
                key = [c for c in cand if c not in d][0]
            d[key] = k.obj
        return Wit(d, ks)
    if head in ("set", "frozenset"):
        elems, out = [], []
        for kt, k in zip(kids, ks):
            tries = 0
            while any(_py_equal(k.obj, e) for e in elems) or (kt[0] == "int_small" and k.obj in (0, 1)):
                tries += 1
                k = build(kt, random.Random(rng.random()), 1 + tries)
                if tries > 50:
                    raise MachineryFailure("cannot draw distinct set elements for %r" % (t,))
            elems.append(k.obj)
            out.append(k)
        return Wit(set(elems) if head == "set" else frozenset(elems), out)
    if head == "dataclass":
        return Wit(DC(ks[0].obj), ks)
    if head == "custom":
        return Wit(Custom(ks[0].obj), ks)
    raise MachineryFailure("a model record the harness cannot instantiate: %r" % (t,))


def _py_equal(a, b):
    try:
        return a == b and hash(a) == hash(b)
    except Exception:
        return False


def witness_rng(seed, term, dflt, w):
    return random.Random("%s|%s|%s|%s" % (seed, term, dflt, w))


def field_name(rng, w):
    return FIELD_NAMES[w] if w < 2 else rng.choice(FIELD_NAMES)


# ----------------------------------------------------------------------------------------------------------------------
# the oracle
class Invalid(Exception):
    pass


def _no_constant(name):
    raise Invalid("the token %s is not JSON" % name)


def _no_dup(pairs):
    d = {}
    for k, v in pairs:
        if k in d:
            raise Invalid("duplicate key %r in one object" % (k,))
        d[k] = v
    return d


def decode_line(raw):
    """One line (without its terminator) -> the decoded object; raises Invalid."""
    try:
        text = raw.decode("utf-8", "strict")
    except UnicodeDecodeError as e:
        raise Invalid("the line is not valid UTF-8 (%s)" % e)
    try:
        v = json.loads(text, parse_constant=_no_constant, object_pairs_hook=_no_dup)
    except Invalid:
        raise
    except (ValueError, RecursionError) as e:
        raise Invalid("the line is not valid JSON (%s)" % e)
    if not isinstance(v, dict):
        raise Invalid("the line is not a JSON object")
    return v


def same(obj, dec, path):
    """JSON-native fidelity: None or the text of the first difference."""
    if obj is None or isinstance(obj, bool):
        return None if dec is obj else "%s: logged %r, the line holds %r" % (path, obj, dec)
    if isinstance(obj, int):
        if type(dec) is int and dec == obj:
            return None
        return "%s: logged the integer %r, the line holds %r" % (path, obj, dec)
    if isinstance(obj, float):
        ok = isinstance(dec, (int, float)) and not isinstance(dec, bool) and dec == obj
        if ok and obj == 0:                 # the sign of zero is part of the value
            ok = math.copysign(1.0, float(dec)) == math.copysign(1.0, obj) and (isinstance(dec, float) or math.copysign(1.0, obj) > 0)
        return None if ok else "%s: logged the float %r, the line holds %r" % (path, obj, dec)
    if isinstance(obj, str):
        if type(dec) is str and dec == obj:
            return None
        return "%s: logged the text %r, the line holds %r" % (path, obj, dec)
    if isinstance(obj, list):
        if type(dec) is not list or len(dec) != len(obj):
            return "%s: logged a list of %d items, the line holds %s" % (path, len(obj), _short(dec))
        for i, (a, b) in enumerate(zip(obj, dec)):
            r = same(a, b, "%s[%d]" % (path, i))
            if r:
                return r
        return None
    if isinstance(obj, dict):
        if type(dec) is not dict or set(dec) != set(obj):
            return "%s: logged a dict with keys %r, the line holds %s" % (path, sorted(obj, key=repr), _short(dec))
        for k in obj:
            r = same(obj[k], dec[k], "%s[%r]" % (path, k))
            if r:
                return r
        return None
    raise MachineryFailure("oracle: %r is not a JSON-native value" % (obj,))


def _short(v, n=160):
    s = repr(v)
    return s if len(s) <= n else s[:n] + "..."


def frac5_defect(obj, dec):
    """Known finding (json_class time_frac5): a naive datetime.time whose microsecond is 10000..99999 is written with a
    5-digit fraction, i.e. its ISO form with the leading zero of the fraction dropped."""
    return (type(obj) is datetime.time and obj.tzinfo is None and 10000 <= obj.microsecond <= 99999
            and dec == obj.strftime("%H:%M:%S") + "." + str(obj.microsecond))


def match(o, wit, dec, path, notes=None):
    """Does the decoded value `dec` realize outcome `o` for witness `wit`?  None or the first difference."""
    tag, keys, kids = o
    obj = wit.obj
    if tag == "unspec":
        return None
    if tag in ("same", "exact_or_rejected"):
        return same(obj, dec, path)
    if tag == "encoded":
        r = same(obj.enc, dec, path)
        return r and "%s: the caller's json_default encodes this object as %r; %s" % (path, obj.enc, r)
    if tag == "str":
        return None if type(dec) is str and dec == str(obj) else "%s: logged the path %r, the line holds %s instead of its text %r" % (
            path, obj, _short(dec), str(obj))
    if tag == "iso":
        try:
            back = type(obj).fromisoformat(dec)
        except Exception:
            back = None
        if back is None or back != obj or type(back) is not type(obj):
            if notes is not None and frac5_defect(obj, dec):
                notes.append("time_frac5")
                return None
            return "%s: logged %r, the line holds %s which is not its ISO 8601 form (%r)" % (path, obj, _short(dec), obj.isoformat())
        return None
    if tag == "complex":
        if type(dec) is not dict or set(dec) != {"real", "imag"}:
            return "%s: logged %r, the line holds %s instead of {'real':..,'imag':..}" % (path, obj, _short(dec))
        return same(obj.real, dec["real"], path + ".real") or same(obj.imag, dec["imag"], path + ".imag")
    if tag == "list":
        if type(dec) is not list or len(dec) != len(wit.kids):
            return "%s: logged a list of %d items, the line holds %s" % (path, len(wit.kids), _short(dec))
        for i, (ko, kw, kd) in enumerate(zip(kids, wit.kids, dec)):
            r = match(ko, kw, kd, "%s[%d]" % (path, i), notes)
            if r:
                return r
        return None
    if tag == "dict":
        if isinstance(obj, Custom):
            names = ["x"]
        else:
            names = list(obj.keys())
        if type(dec) is not dict or set(dec) != set(names):
            return "%s: logged %s with keys %r, the line holds %s" % (path, "the caller's type (encoded by the caller's json_default as a dict)"
                                                                      if isinstance(obj, Custom) else "a dict", names, _short(dec))
        for name, ko, kw in zip(names, kids, wit.kids):
            r = match(ko, kw, dec[name], "%s[%r]" % (path, name), notes)
            if r:
                return r
        return None
    if tag == "bag":
        if type(dec) is not list or len(dec) != len(wit.kids):
            return "%s: logged a set of %d elements, the line holds %s" % (path, len(wit.kids), _short(dec))
        first = None
        for perm in itertools.permutations(range(len(dec))):
            r = None
            local = [] if notes is not None else None
            for (ko, kw), j in zip(zip(kids, wit.kids), perm):
                r = match(ko, kw, dec[j], "%s{%d}" % (path, j), local)
                if r:
                    break
            if r is None:
                if local:
                    notes.extend(local)
                return None
            first = first or r
        return first
    raise MachineryFailure("unknown outcome tag %r" % (tag,))


def may_reject(o):
    return o[0] in ("unspec", "exact_or_rejected") or any(may_reject(k) for k in (o[2] or ()))


def split_lines(chunk):
    """bytes appended to a file during one logging call -> list of raw lines; raises Invalid on a partial line."""
    if not chunk:
        return []
    if not chunk.endswith(b"\n"):
        raise Invalid("the bytes written do not end with a line break (partial line): %r" % chunk[-60:])
    return chunk[:-1].split(b"\n")


def judge_call(case, wit, field, seq, offered, chunk_b, chunk_t, raised, tolerate=()):
    """One logging call.  `offered`: what the list destination received during the call (the message, then failure
    reports).  `tolerate`: json_class of the OPEN known findings.
    -> (verdict, text) with verdict in line | rejected | known:<json_class> | violation."""
    exp, must = case["exp_tree"], case["must"]
    if raised:
        return "violation", "the logging call raised %s" % raised
    mine = [m for m in offered if m.get("message_type") == MSG_TYPE]
    if len(mine) != 1 or mine[0].get("seq") != seq:
        return "violation", "the other destination was not offered the message exactly once (it got %s)" % _short(offered)
    reports = [m for m in offered if m is not mine[0]]
    if any(m.get("message_type") != FAILURE_TYPE for m in reports):
        return "violation", "unexpected extra messages were offered: %s" % _short([m.get("message_type") for m in reports])
    decoded = {}
    for name, chunk in (("binary", chunk_b), ("text", chunk_t)):
        try:
            lines = split_lines(chunk)
            for ln in lines:
                if not ln.strip():
                    raise Invalid("an empty line was written")
            decoded[name] = [decode_line(ln) for ln in lines]
        except Invalid as e:
            return "violation", "%s-mode file: %s; bytes written for this message: %s" % (name, e, _short(chunk, 300))
    if chunk_b != chunk_t:
        i = next((j for j, (a, b) in enumerate(zip(chunk_b, chunk_t)) if a != b), min(len(chunk_b), len(chunk_t)))
        lo = max(0, i - 40)
        return "violation", "binary-mode and text-mode files received different content (first difference at byte %d): binary ...%r... vs text ...%r..." % (
            i, chunk_b[lo:i + 40], chunk_t[lo:i + 40])
    lines = decoded["binary"]
    own = [d for d in lines if d.get("message_type") == MSG_TYPE]
    rep_lines = [d for d in lines if d.get("message_type") != MSG_TYPE]
    if not own and must and reports and not ("time_aware" in tolerate and "time_aware" in leaves_of(case["tree"])):
        return "violation", "no line was written for a message inside the promised domain; reported: %s %s" % (
            reports[0].get("exception"), _short(reports[0].get("reason")))
    # every failure report is itself an offered message and has its faithful line
    if len(rep_lines) != len(reports):
        return "violation", "%d failure report(s) were offered but the file holds %d line(s) for them" % (len(reports), len(rep_lines))
    for m, d in zip(reports, rep_lines):
        r = same(m, d, "report")
        if r:
            return "violation", "the line of the failure report differs from the report: " + r
    if len(own) > 1:
        return "violation", "%d lines were written for one message" % len(own)
    if not own:
        # refused: no bytes for the message, each refusing file destination reported once
        if not 1 <= len(reports) <= 2:      # (that EACH refusing destination is reported once is C08's clause)
            return "violation", "no line was written for the message by either file and %d destination failures were reported" % len(reports)
        if must:
            if "time_aware" in tolerate and "time_aware" in leaves_of(case["tree"]):
                return "known:time_aware", "a time object with tzinfo is refused (%s)" % reports[0].get("reason")
            return "violation", "no line was written for a message inside the promised domain; reported: %s %s" % (
                reports[0].get("exception"), _short(reports[0].get("reason")))
        return "rejected", ""
    if reports:
        return "violation", "a line was written AND %d destination failure(s) were reported" % len(reports)
    if lines[0] is not own[0]:
        return "violation", "lines out of order"
    dec = own[0]
    msg = mine[0]
    if set(dec) != set(msg):
        return "violation", "the line's fields %r differ from the message's %r" % (sorted(dec), sorted(msg))
    for k in msg:
        if k != field:
            r = same(msg[k], dec[k], k)
            if r:
                return "violation", "the line does not give back the message: " + r
    notes = [] if "time_frac5" in tolerate else None
    r = match(exp, wit, dec[field], "value", notes)
    if r:
        return "violation", "the line does not give back the value in its specified encoding: " + r
    if notes:
        return "known:time_frac5", "a time with 10000 <= microsecond <= 99999 is written with a 5-digit fraction: %s" % _short(dec[field])
    return "line", ""


# ----------------------------------------------------------------------------------------------------------------------
# driver
def parse_cases(out):
    """TLC output -> one group per (term, default) with both modes' records merged."""
    groups = {}
    n = 0
    for line in out.split("\n"):
        i = line.find('"CASE|')
        if i < 0:
            continue
        try:
            parts = json.loads(line[i:].strip()).split("|")
            _, term, mode, dflt, exp, must, rej = parts
        except ValueError:
            raise MachineryFailure("cannot parse TLC line: %r" % line[:300])
        n += 1
        g = groups.setdefault((term, dflt), {})
        if mode in g:
            raise MachineryFailure("duplicate record for %s %s %s" % (term, mode, dflt))
        g[mode] = (exp, must == "T", rej == "T")
    cases = []
    for (term, dflt), g in groups.items():
        if set(g) != {"binary", "text"}:
            raise MachineryFailure("record missing for one file mode: %s %s" % (term, dflt))
        if g["binary"] != g["text"]:
            raise MachineryFailure("the specification gives different outcomes for the two modes of %s" % term)
        exp, must, rej = g["binary"]
        cases.append({"term": term, "dflt": dflt, "exp": exp, "must": must, "rej": rej})
    cases.sort(key=lambda c: (c["term"], c["dflt"]))
    return n, cases


def prepare(case):
    case["tree"] = parse_tree(case["term"])
    case["exp_tree"] = parse_tree(case["exp"])
    if case["must"] != (not may_reject(case["exp_tree"])):
        raise MachineryFailure("record inconsistent: must=%s for outcome %s" % (case["must"], case["exp"]))
    return case


def run_jobs(jobs, timeout=3000):
    d = mktemp("c10v_")

    def one(ij):
        i, job = ij
        pin, pout = os.path.join(d, "job%d.json" % i), os.path.join(d, "out%d.json" % i)
        json.dump(job, open(pin, "w"))
        p = repo_python([EXEC, pin, pout], timeout=timeout, extra_path=[HARNESS])
        if p.returncode != 0:
            raise MachineryFailure("c10_exec failed: " + p.stderr.decode("utf-8", "replace")[-3000:])
        o = json.load(open(pout))
        if not os.path.abspath(o["file"]).startswith(os.path.abspath(REPO) + os.sep):
            raise MachineryFailure("eliot imported from %s, not from %s" % (o["file"], REPO))
        if o.get("machinery"):
            raise MachineryFailure("c10_exec: " + o["machinery"])
        return o
    with ThreadPoolExecutor(max_workers=NPROC) as ex:
        return list(ex.map(one, enumerate(jobs)))


def open_findings():
    """json_class -> entry, for the OPEN known findings of this engine."""
    return {f["json_class"]: f for f in known_findings()
            if f.get("engine") == "json" and f.get("json_class") in KNOWN_CLASSES and f.get("status") == "open"}


def run_values(rep, tier):
    cfg, consts = CFG[tier]
    res = {}

    def tlc(name, c):
        res[name] = run_tlc("JsonValues", c, timeout=1500, only=(BROKEN_CFG[2] if name == "broken" else None))
    th = [threading.Thread(target=tlc, args=("main", cfg)), threading.Thread(target=tlc, args=("broken", BROKEN_CFG[0]))]
    [t.start() for t in th]
    [t.join() for t in th]
    r, rb = res["main"], res["broken"]
    require_ok(r, cfg)
    require_ok(rb, BROKEN_CFG[0])
    rep.add_tlc(cfg, r, consts)
    rep.add_tlc(BROKEN_CFG[0], rb, BROKEN_CFG[1], expect_violation=BROKEN_CFG[2])
    rep.cov["states"] -= rb.distinct          # the broken sibling explores nothing new
    rep.cov["transitions"] -= rb.transitions
    if rb.violated != BROKEN_CFG[2]:
        raise MachineryFailure("the planted error in JsonValues.tla (%s) was not caught by %s (TLC says %r)" % (BROKEN_CFG[0], BROKEN_CFG[2], rb.violated))
    if r.violated:
        rep.violation("TLC: %s violated on JsonValues.tla (%s): the rules of the value algebra contradict each other" % (r.violated, cfg),
                      {"engine": "json", "module": "c10_values", "kind": "spec", "tlc_tail": r.out[-4000:]})
        return
    nrec, cases = parse_cases(r.out)
    r.out = ""
    if not cases or nrec != r.distinct:
        raise MachineryFailure("%s: %d case records for %d distinct states" % (cfg, nrec, r.distinct))
    nwit = NWIT[tier]                     # (the records are parsed into trees, and cross-checked, by the subprocesses)
    order = list(range(len(cases)))
    random.Random(SEED).shuffle(order)
    njobs = NPROC * (2 if tier == "quick" else 6)
    known = open_findings()
    jobs = [{"seed": SEED, "nwit": nwit, "memlog": True, "tolerate": sorted(known),
             "cases": [{k: cases[i][k] for k in ("term", "dflt", "exp", "must", "rej")} for i in order[j::njobs]]}
            for j in range(njobs) if order[j::njobs]]
    outs = run_jobs(jobs)
    tot = {}
    seen_known = set()
    executed = 0
    reported = set()
    drift = {}
    memlog = {"agree": 0, "disagree": 0, "examples": []}
    by_class = {}
    for o in outs:
        for s in o["setup_failures"]:
            rep.violation("a file destination could not be set up: %s" % s["what"],
                          {"engine": "json", "module": "c10_values", "kind": "setup", "dflt": s["dflt"], "seed": SEED})
        executed += o["executed"]
        rep.cov["traces_validated_against_impl"] += o["executed"]
        for k, n in o["counts"].items():
            tot[k] = tot.get(k, 0) + n
        for cls, (a, b) in o["class_choice"].items():
            cur = by_class.setdefault(cls, [0, 0])
            cur[0] += a
            cur[1] += b
        memlog["agree"] += o["memlog"]["agree"]
        memlog["disagree"] += o["memlog"]["disagree"]
        memlog["examples"] += o["memlog"]["examples"][:2]
        for dk, dn in o["drift"].items():
            drift[dk] = drift.get(dk, 0) + dn
        for v in o["known"]:
            cls = v["verdict"].split(":")[1]
            seen_known.add(cls)
            rep.known_finding(known[cls]["id"], KNOWN_CLASSES[cls])
        for v in o["violations"]:
            key = (v["term"], v["dflt"])
            if key in reported:
                continue                      # one violation per abstract case
            reported.add(key)
            rep.violation("%s  [value %s; term %s; default=%s; field %r; witness %d]" % (
                v["what"], v["value"], v["term"], v["dflt"], v["field"], v["w"]),
                {"engine": "json", "module": "c10_values", "kind": "case", "seed": SEED, "w": v["w"],
                 "case": {k: v[k] for k in ("term", "dflt", "exp", "must", "rej")}, "value": v["value"], "observed": v.get("observed")})
    if executed != sum(nwit["must" if c["must"] else "opt"][c["dflt"]] for c in cases):
        raise MachineryFailure("%d executions for %d cases" % (executed, len(cases)))
    for cls in sorted(set(known) - seen_known):
        print("note: known finding %s (%s) did not show on this run" % (known[cls]["id"], cls))
    for c in cases:
        rep.count_case([c["term"], c["dflt"]], c["term"] not in ("null", "true", "false"))
    if drift:
        top = sorted(drift.items(), key=lambda kv: -kv[1])[:6]
        print("MODEL-DRIFT JsonValues RejectsNow: the code makes the other permitted choice for %d execution(s), e.g. %s" % (
            sum(drift.values()), "; ".join("%s x%d" % kv for kv in top)))
        rep.cov["model_drift"].append({"module": "JsonValues", "what": "RejectsNow (descriptive) differs from the code on values outside "
                                       "the promised domain; not a violation", "by_term": dict(top), "executions": sum(drift.values())})
    if memlog["disagree"]:
        rep.cov["model_drift"].append({"module": "JsonValues", "what": "MemoryLogger(json_default=...).validate() and the file destination "
                                       "disagree on whether a message encodes (outside C10's statement; informational)",
                                       "executions": memlog["disagree"], "examples": memlog["examples"][:5]})
    rep.cov["rule"] = (rep.cov.get("rule") or "") + (
        " | values: every term of JsonValues.tla (container shapes list/dict/set/frozenset/dataclass/custom over %d value "
        "classes, nesting <= %d) x {binary,text} x {eliot, caller, encoder} enumerated by TLC; each (term, default) logged with %s "
        "witnesses (witness 0 = boundary values, others seeded) to a binary and a text file at once; a case is distinct by "
        "(term, default), non-trivial unless it is a bare null/true/false") % (len(LEAVES), consts["Depth"], nwit)
    rep.cov["values"] = {"records": nrec, "terms": len(set(c["term"] for c in cases)), "executions": executed, "outcomes": tot,
                         "choice_outside_domain_by_class(line,refused)": by_class,
                         "memory_logger_consistency": {k: memlog[k] for k in ("agree", "disagree")}}
    rep.cov.setdefault("python_oracle_clauses", []).append(
        "C10 values: the expected outcome of every case comes from TLC (JsonValues!Expected); whether a decoded line REALIZES that "
        "outcome (equality of ints/floats/text, ISO parsing, set-as-bag, UTF-8/JSON validity by the stdlib json module) is decided "
        "by the Python oracle in harness/c10_values.py on model-generated cases: model-generated testing, not proof")
    rep.assumptions.append("C10 values: orjson %s is the encoder in use on this interpreter (CPython); the stdlib json module is the "
                           "trusted reference decoder" % outs[0].get("orjson"))
    smp = [o["sample"] for o in outs if o.get("sample")][:2]
    for s in smp:
        rep.sample({"value_case": s})


def replay(prop, obj, path):
    kind = obj.get("kind")
    if kind == "spec":
        print("replay holds a specification-level counterexample (TLC output), nothing to execute:\n" + obj.get("tlc_tail", "")[-3000:])
        return 1
    if kind == "setup":
        o = run_jobs([{"seed": obj["seed"], "nwit": {}, "cases": [], "setup_only": [obj["dflt"]]}])[0]
        for s in o["setup_failures"]:
            print("setting up the destinations still fails: %s" % s["what"])
        bad = len(o["setup_failures"])
    elif kind == "case":
        case = obj["case"]
        o = run_jobs([{"seed": obj["seed"], "nwit": {}, "only_w": obj["w"], "cases": [case], "verbose": True,
                       "tolerate": sorted(open_findings())}])[0]
        bad = 0
        print("case: term %s, default %s; specification: outcome %s, line %s" % (
            case["term"], case["dflt"], case["exp"], "mandatory" if case["must"] else "optional (a reported refusal is accepted)"))
        for s in o["setup_failures"]:
            print("setting up the destinations fails: %s" % s["what"])
            bad += 1
        for v in o["trace"]:
            print("witness %d: value %s field %r -> %s %s" % (v["w"], v["value"], v["field"], v["verdict"], v["what"]))
            print("   binary file got %s" % v["observed"]["binary"])
            print("   text   file got %s" % v["observed"]["text"])
            if v["verdict"] == "violation":
                bad += 1
    else:
        print("unknown replay kind %r" % kind)
        return 2
    if bad:
        print("VIOLATION property=%s replay=%s" % (prop, path))
        return 1
    print("the recorded violation does not reproduce on the current tree")
    return 0
