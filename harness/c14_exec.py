"""
C14, subprocess side: instantiates the records emitted by TLC from spec/Validate.tla against the REAL library.

usage: python c14_exec.py job.json out.json
  job: {"seed": int, "nwit": int, "cases": [case records], "caps": [capture runs], "random": n, "random_seed": s}
  out: {"file": eliot.__file__, "cases": [[case index, variant, via, validate, check, detail]], "skipped": n,
        "caps": [{"i", "init", "res": [...]}], "recs": [...records for Trace validation...]}

Only public API is used: MessageType/ActionType/Field/fields, MemoryLogger.write/validate/flushTracebacks/
serializers/messages, write_traceback, register_exception_extractor, eliot.testing.check_for_errors/swap_logger/
validate_logging/capture_logging/UnflushedTracebacks, add_destinations/remove_destination, log_message.
The serializer objects handed to MemoryLogger.write are obtained from MemoryLogger.serializers after a conforming
use of the type (not from private attributes).
"""
import sys, os, io, json, random, warnings, unittest, datetime, pathlib

warnings.simplefilter("ignore")

import eliot
from eliot import (MemoryLogger, MessageType, ActionType, Field, fields, ValidationError, write_traceback,
                   register_exception_extractor, log_message, add_destinations, remove_destination)
from eliot.testing import (check_for_errors, swap_logger, validate_logging, capture_logging, UnflushedTracebacks)


# ---------------------------------------------------------------------------------------------------------------
# witnesses
class Rich(object):
    """A value only the 'ser' field's serializer understands; not JSON-encodable by itself."""

    def __init__(self, text):
        self.text = text


class Opaque(object):
    pass


def _circular():
    l = [1]
    l.append(l)
    return l


def nonjson_witnesses():
    return [object(), b"\xff\x00", [Opaque()], {"k": {"z": object()}}, (lambda: 0), ValueError("boom"), _circular(),
            Opaque, Rich("r")]


def json_extra_witnesses():
    return [1, "v", [1, {"a": None}], None, True, 2.5, pathlib.Path("/tmp/x"), datetime.date(2020, 1, 2), {1, 2},
            complex(1, 2), {}]


VAL_OF = "V!lit"


def rich_serializer(o):
    if not isinstance(o, Rich):
        raise ValidationError(o, "not a Rich")
    return o.text


def nonneg(v):
    if v < 0:
        raise ValidationError(v, "must not be negative")


def make_field(kind, name, variant):
    if kind == "any":
        return Field(name, lambda v: v, "anything")
    if kind == "int":
        if variant % 3 == 0:
            return Field.forTypes(name, [int], "an int")
        if variant % 3 == 1:
            return Field.for_types(name, [int], "an int")
        return fields(**{name: int})[0]
    if kind == "str":
        if variant % 2 == 0:
            return Field.forTypes(name, [str], "a text")
        return fields(**{name: str})[0]
    if kind == "intnone":
        return Field.forTypes(name, [int, None], "int or null")
    if kind == "value":
        if variant % 2 == 0:
            return Field.forValue(name, "V!" + name, "a constant")
        return Field.for_value(name, "V!" + name, "a constant")
    if kind == "xv":
        return Field.forTypes(name, [int], "non-negative", extraValidator=nonneg)
    if kind == "ser":
        return Field(name, rich_serializer, "a rich thing")
    raise ValueError(kind)


MTYPE, ATYPE = "c14:msg", "c14:act"
IMPLICIT = {
    "message": [("message_type", MTYPE)],
    "start": [("action_type", ATYPE), ("action_status", "started")],
    "success": [("action_type", ATYPE), ("action_status", "succeeded")],
    "failure": [("action_type", ATYPE), ("action_status", "failed"), ("reason", None), ("exception", None)],
    "traceback": [("reason", None), ("traceback", None), ("exception", None), ("message_type", "eliot:traceback")],
    "untyped": [],
}
WELLKNOWN = ["message_type", "action_type", "action_status", "reason", "exception", "traceback", "errno"]
PLAIN = ["extra", "x_y", "ключ", "", "_hidden", "f9", "task", "task_id", "uuid", "level", "time",
         "timestamp_", "task_uuid2", "Task_uuid", "eliot_task"]
RESERVED = ["task_uuid", "task_level", "timestamp"]
RESERVED_VALUE = {"task_uuid": "0f8fad5b-d9cb-469f-a165-70867728950e", "task_level": [1], "timestamp": 1234.5}
NONTEXT = [5, None, 1.5, (1, 2), True]
BYTES_UTF8 = [b"k", b"", b"f1", b"task_uuid"]
BYTES_BAD = [b"\xff", b"\xc3("]


class Types(object):
    """Real type objects for (kind, user field kinds, variant), and their serializers taken from a MemoryLogger."""

    def __init__(self):
        self.cache = {}

    def get(self, k, flds, variant):
        key = (k, tuple(flds), variant % 6)
        if key in self.cache:
            return self.cache[key]
        names = ["f%d" % (i + 1) for i in range(len(flds))]
        fl = [make_field(fk, n, variant) for fk, n in zip(flds, names)]
        info = {"names": names, "flds": list(flds)}
        if k == "message":
            mt = MessageType(MTYPE, fl, "a message")
            info["type"] = mt
        elif k in ("start", "success", "failure"):
            at = ActionType(ATYPE, fl if k == "start" else [], fl if k == "success" else [], "an action")
            info["type"] = at
        info["serializer"] = self.serializer_of(k, info, flds)
        self.cache[key] = info
        return info

    def serializer_of(self, k, info, flds):
        if k == "untyped":
            return None
        lg = MemoryLogger()
        good = dict((n, conforming_value(fk, n)) for fk, n in zip(flds, info["names"]))
        if k == "message":
            info["type"](**good).write(lg)
            return lg.serializers[-1]
        if k == "start":
            with info["type"](lg, **good):
                pass
            return lg.serializers[0]
        if k == "success":
            with info["type"](lg) as a:
                a.add_success_fields(**good)
            return lg.serializers[1]
        if k == "failure":
            try:
                with info["type"](lg):
                    raise ZeroDivisionError("x")
            except ZeroDivisionError:
                pass
            return lg.serializers[1]
        if k == "traceback":
            try:
                raise ZeroDivisionError("x")
            except ZeroDivisionError:
                write_traceback(lg)
            return lg.serializers[-1]
        raise ValueError(k)


def conforming_value(fk, name):
    return {"any": 1, "int": 1, "str": "s", "intnone": 1, "value": "V!" + name, "xv": 1, "ser": Rich("t")}[fk]


def pick(rng, seq):
    return seq[rng.randrange(len(seq))]


def witness(fk, vc, name, const, rng):
    """A concrete value of class vc for a field of kind fk (const = the constant of an implicit forValue field)."""
    the = const if const is not None else "V!" + name
    if vc == "int":
        return pick(rng, [0, 7, 2 ** 40] if fk == "xv" else [0, 7, -3, 2 ** 62])
    if vc == "bool":
        return pick(rng, [True, False])
    if vc == "str":
        return pick(rng, [s for s in ["", "abc", "ünï é", "started", "V!"] if s != the])
    if vc == "none":
        return None
    if vc == "float":
        return pick(rng, [1.5, -0.0, 1e300])
    if vc == "list":
        return pick(rng, [[], [1, "a", None], {"k": [1, {"z": None}]}, {}])
    if vc == "theval":
        return the if fk == "value" else VAL_OF
    if vc == "xvbad":
        return pick(rng, [-1, -99])
    if vc == "rich":
        return Rich(pick(rng, ["t", ""]))
    if vc == "nonjson":
        if fk == "anyser":
            return pick(rng, [ValueError("boom"), KeyError(1), object()])
        if fk == "clsser":     # must have no __module__/__name__ pair
            return pick(rng, [object(), b"\xff\x00", [Opaque()], ValueError("boom")])
        return pick(rng, [x for x in nonjson_witnesses() if not (fk == "ser" and isinstance(x, Rich))])
    if vc == "cls":
        return pick(rng, [ValueError, KeyError, Opaque, ZeroDivisionError])
    raise ValueError(vc)


def declared_names(k, info):
    return set(info["names"]) | set(n for n, _ in IMPLICIT[k])


def extra_entry(k, info, e, rng, used):
    kc = e["key"]
    if kc == "plain":
        cands = [n for n in PLAIN if n not in used]
    elif kc == "wellknown":
        cands = [n for n in WELLKNOWN if n not in declared_names(k, info) and n not in used]
    elif kc == "reserved":
        cands = [n for n in RESERVED if n not in used]
    elif kc == "nontext":
        cands = [n for n in NONTEXT if n not in used]
    elif kc == "bytes_utf8":
        cands = [n for n in BYTES_UTF8 if n not in used]
    else:
        cands = [n for n in BYTES_BAD if n not in used]
    key = pick(rng, cands)
    if e["val"] == "json":
        val = RESERVED_VALUE[key] if (kc == "reserved" and rng.random() < 0.5) else pick(rng, json_extra_witnesses())
    else:
        val = pick(rng, nonjson_witnesses())
    return key, val


def build_message(case, info, rng):
    """The concrete dictionary of a case: list of (key, value) in a random order."""
    k = case["k"]
    items = []
    names = info["names"] + [n for n, _ in IMPLICIT[k]]
    consts = [None] * len(info["names"]) + [c for _, c in IMPLICIT[k]]
    for fk, vc, name, const in zip(case["F"], case["vals"], names, consts):
        if vc == "absent":
            continue
        items.append((name, witness(fk, vc, name, const, rng)))
    used = set(n for n, _ in items) | set(names)
    for e in case["extras"]:
        key, val = extra_entry(k, info, e, rng, used)
        used.add(key)
        items.append((key, val))
    rng.shuffle(items)
    return items


def classify(exc):
    if exc is None:
        return "OK"
    if isinstance(exc, UnflushedTracebacks):
        return "UnflushedTracebacks"
    if isinstance(exc, ValidationError):
        return "ValidationError"
    if isinstance(exc, TypeError):
        return "TypeError"
    return "Other:" + type(exc).__name__


def observe(fn):
    try:
        fn()
    except BaseException as e:    # noqa: the class is the observation
        return classify(e), ("%s: %s" % (type(e).__name__, str(e)[:160]))
    return "OK", ""


def companion(lg, tb):
    """Another, conforming, message in the same logger: a traceback logged by write_traceback, flushed or not."""
    if tb in ("unflushed", "flushed"):
        try:
            raise ZeroDivisionError("companion")
        except ZeroDivisionError:
            write_traceback(lg)
        if tb == "flushed":
            lg.flushTracebacks(ZeroDivisionError)


def fill_raw(case, info, items, before):
    lg = MemoryLogger()
    if before:
        companion(lg, case["tb"])
    note = ""
    try:
        lg.write(dict(items), info["serializer"])
    except BaseException as e:
        note = "write raised " + type(e).__name__
    if not before:
        companion(lg, case["tb"])
    if case["tb"] == "selfflushed":
        lg.flushTracebacks(object)
    return lg, note


# registered extractors: one exception class per distinct extras dictionary is enough, but the registry is global,
# so classes are created per use
def failing_exception(extras_items):
    class Boom(Exception):
        pass
    if extras_items is not None:
        d = dict(extras_items)
        register_exception_extractor(Boom, lambda e: dict(d))
    return Boom


def api_applicable(case):
    """Can this abstract message be produced by calling the public API of the declared type?  (Implicit fields are
    filled in by the library, keys are keyword arguments, reserved fields are always added by the library.)"""
    k = case["k"]
    nuser = len(case["flds"])
    for j, (fk, vc) in enumerate(zip(case["F"], case["vals"])):
        if j >= nuser:
            if fk == "anyser":
                if vc not in ("str", "nonjson"):
                    return False
            elif vc != {"value": "theval", "str": "str", "clsser": "cls"}[fk]:
                return False
    for e in case["extras"]:
        if e["key"] not in ("plain", "wellknown") and not (e["key"] == "reserved" and e["val"] == "json"):
            return False
    return True


def fill_api(case, info, rng, style="api"):
    """The same abstract message, produced by USING the declared type through the public API."""
    k = case["k"]
    lg = MemoryLogger()
    nuser = len(case["flds"])
    kw = {}
    for fk, vc, name in zip(case["F"][:nuser], case["vals"][:nuser], info["names"]):
        if vc != "absent":
            kw[name] = witness(fk, vc, name, None, rng)
    extra = {}
    used = set(info["names"]) | set(n for n, _ in IMPLICIT[k])
    if k == "failure":
        used |= {"exception", "reason", "action_status", "action_type"}   # overwritten by Action.finish
    if k == "untyped":
        used |= {"message_type"}
    for e in case["extras"]:
        if e["key"] == "reserved":
            continue   # task_uuid, task_level and timestamp are added by the library itself
        key, val = extra_entry(k, info, e, rng, used)
        used.add(key)
        extra[key] = val
    if case["tb"] in ("unflushed", "flushed") and rng.random() < 0.5:
        companion(lg, case["tb"])
        done_companion = True
    else:
        done_companion = False
    if k == "message":
        kw.update(extra)
        MSG = info["type"]
        inside = bool(rng.randrange(2))     # also inside the context of an (untyped) action of the same logger
        if style == "log":
            prev = swap_logger(lg)
            try:
                if inside:
                    with eliot.start_action(action_type="c14:outer"):
                        MSG.log(**kw)
                else:
                    MSG.log(**kw)
            finally:
                swap_logger(prev)
        elif style == "write":
            prev = swap_logger(lg)
            try:
                MSG(**kw).write()
            finally:
                swap_logger(prev)
        elif style in ("write_logger", "api"):
            if inside:
                with eliot.start_action(lg, "c14:outer"):
                    MSG(**kw).write(lg)
            else:
                MSG(**kw).write(lg)
        elif style == "write_action":
            a = eliot.start_action(lg, "c14:outer")
            MSG(**kw).write(action=a)
            a.finish()
        elif style == "bind_write_action":
            names = sorted(kw, key=repr)
            rng.shuffle(names)
            cut = rng.randrange(len(names) + 1)
            a = eliot.start_action(lg, "c14:outer")
            m = MSG(**dict((n, kw[n]) for n in names[:cut]))
            m = m.bind(**dict((n, kw[n]) for n in names[cut:]))
            m.write(action=a)
            a.finish()
        else:
            raise ValueError(style)
    elif k == "untyped":
        prev = swap_logger(lg)
        try:
            log_message("c14:untyped", **extra)
        finally:
            swap_logger(prev)
    elif k == "start":
        kw.update(extra)
        how = rng.randrange(3)
        if how == 0:
            with info["type"](lg, **kw):
                pass
        elif how == 1:
            info["type"].as_task(lg, **kw).finish()
        else:
            prev = swap_logger(lg)
            try:
                with info["type"](**kw):
                    pass
            finally:
                swap_logger(prev)
    elif k == "success":
        kw.update(extra)
        how = rng.randrange(2)
        if how == 0:
            with info["type"](lg) as a:
                a.add_success_fields(**kw)
        else:
            a = info["type"](lg)
            a.addSuccessFields(**kw)
            a.finish()
    elif k == "failure":
        exc = failing_exception(extra if extra else None)
        if not extra and rng.random() < 0.3:
            exc = OSError   # default extractor: errno
        try:
            with info["type"](lg):
                raise exc(2, "nope") if exc is OSError else exc("nope")
        except Exception:
            pass
    elif k == "traceback":
        exc = failing_exception(extra if extra else None)
        try:
            raise exc("nope")
        except exc:
            write_traceback(lg)
        if case["tb"] == "selfflushed":
            lg.flushTracebacks(exc)
    if not done_companion:
        companion(lg, case["tb"])
    return lg


def run_cases(job, out):
    types = Types()
    nwit = job["nwit"]
    results = []
    skipped = 0
    for ci, case in enumerate(job["cases"]):
        idx = case.get("idx", ci)
        for w in range(nwit):
            rng = random.Random("%s/%s/%s" % (job["seed"], idx, w))
            info = types.get(case["k"], case["flds"], w + idx)
            try:
                items = build_message(case, info, rng)
            except ValueError:
                skipped += 1
                continue
            if case["tb"] == "selfflushed" and "reason" not in dict((k, 1) for k, _ in items if isinstance(k, str)):
                skipped += 1      # flushTracebacks needs the reason field
                continue
            before = bool(rng.randrange(2))
            lg1, note = fill_raw(case, info, items, before)
            v, d1 = observe(lg1.validate)
            lg2, _ = fill_raw(case, info, items, before)
            c, d2 = observe(lambda: check_for_errors(lg2))
            results.append([idx, w, "raw", v, c, note or d1 or d2])
            if api_applicable(case):
                styles = sorted(case.get("styles") or ["api"])
                if not (job.get("all_styles", True) and w == 0):    # every style for the first witness, one (rotating) for the others
                    styles = [styles[(idx + w) % len(styles)]]
                st = rng.getstate()
                for style in styles:
                    via = "api" if style == "api" else "api:" + style
                    try:
                        rng.setstate(st)
                        lg1 = fill_api(case, info, rng, style)
                        rng.setstate(st)
                        lg2 = fill_api(case, info, rng, style)
                    except BaseException as e:
                        results.append([idx, w, via, "USE-RAISED:" + type(e).__name__, "", str(e)[:200]])
                        continue
                    v, d1 = observe(lg1.validate)
                    c, d2 = observe(lambda: check_for_errors(lg2))
                    results.append([idx, w, via, v, c, d1 or d2])
    out["cases"] = results
    out["skipped"] = skipped


# ---------------------------------------------------------------------------------------------------------------
# recorded executions for Trace validation: random messages beyond the enumerated domain
VCS = ["int", "bool", "str", "none", "float", "list", "theval", "xvbad", "rich", "nonjson", "cls"]
USERKINDS = ["any", "int", "str", "intnone", "value", "xv", "ser"]
IMPL_KINDS = {"message": ["value"], "start": ["value", "value"], "success": ["value", "value"],
              "failure": ["value", "value", "str", "str"], "traceback": ["anyser", "anyser", "clsser", "value"],
              "untyped": []}
BASE = {"any": ["int", "bool", "str", "none", "float", "list"], "int": ["int", "bool"], "str": ["str"],
        "intnone": ["int", "none"], "value": ["theval"], "xv": ["int"], "ser": ["rich"], "anyser": ["str", "nonjson"],
        "clsser": ["cls"]}
KEYCLASSES = ["plain", "wellknown", "reserved", "nontext", "bytes_utf8", "bytes_bad"]


def run_random(job, out):
    rng = random.Random(job.get("random_seed", 0))
    types = Types()
    recs = []
    for n in range(job.get("random", 0)):
        k = pick(rng, ["message", "start", "success", "failure", "traceback", "untyped"])
        flds = [pick(rng, USERKINDS) for _ in range(rng.randrange(5))] if k in ("message", "start", "success") else []
        F = flds + IMPL_KINDS[k]
        p_dev = pick(rng, [0.0, 0.1, 0.3])
        vals = []
        for fk in F:
            r = rng.random()
            if r < p_dev / 2:
                vals.append("absent")
            elif r < p_dev:
                vals.append(pick(rng, VCS))
            else:
                vals.append(pick(rng, BASE[fk]))
        extras = []
        seen = set()
        for _ in range(pick(rng, [0, 0, 1, 1, 2, 3])):
            e = {"key": pick(rng, KEYCLASSES if rng.random() < 0.5 else ["plain", "wellknown", "reserved"]),
                 "val": "json" if rng.random() < 0.8 else "nonjson"}
            if (e["key"], e["val"]) not in seen:
                seen.add((e["key"], e["val"]))
                extras.append(e)
        tb = "none" if k == "traceback" else pick(rng, ["none", "none", "unflushed", "flushed"])
        case = {"k": k, "flds": flds, "F": F, "vals": vals, "extras": extras, "tb": tb}
        info = types.get(k, flds, n)
        try:
            items = build_message(case, info, rng)
        except ValueError:
            continue
        before = bool(rng.randrange(2))
        lg1, _ = fill_raw(case, info, items, before)
        v, _ = observe(lg1.validate)
        lg2, _ = fill_raw(case, info, items, before)
        c, _ = observe(lambda: check_for_errors(lg2))
        case["validate"] = v.split(":")[0]
        case["check"] = c.split(":")[0]
        case["repr"] = repr(items)[:300]
        recs.append(case)
    out["recs"] = recs


# ---------------------------------------------------------------------------------------------------------------
# validate_logging / capture_logging on real unittest test methods, run by unittest's own runner
class Rec(unittest.TextTestResult):
    def __init__(self, *a, **kw):
        super().__init__(*a, **kw)
        self.events = {}
        self.hooks = None

    def _ev(self, test, e):
        self.events.setdefault(test._testMethodName, []).append(e)

    def startTest(self, test):
        super().startTest(test)
        self.hooks.before(test._testMethodName)

    def stopTest(self, test):
        self.hooks.after(test._testMethodName)
        super().stopTest(test)

    def addSuccess(self, test):
        super().addSuccess(test)
        self._ev(test, "success")

    def addFailure(self, test, err):
        super().addFailure(test, err)
        self._ev(test, "failure")

    def addSkip(self, test, reason):
        super().addSkip(test, reason)
        self._ev(test, "skip")

    def addError(self, test, err):
        super().addError(test, err)
        t = err[0]
        if issubclass(t, UnflushedTracebacks):
            self._ev(test, "error:UnflushedTracebacks")
        elif issubclass(t, ValidationError):
            self._ev(test, "error:ValidationError")
        elif issubclass(t, BodyError):
            self._ev(test, "error:body")
        else:
            self._ev(test, "error:Other:" + t.__name__)


class BodyError(Exception):
    pass


class CapHooks(object):
    """Finds out which logger is the default one by logging a probe without naming a logger."""

    def __init__(self, init):
        self.sink = []
        self.pre = MemoryLogger() if init == "other" else None
        self.loggers = {}     # test number -> the MemoryLogger given to the test
        self.foreign = {}     # test number -> the logger the body swapped in itself
        self.obs = {}
        self.n = 0

    def where(self):
        self.n += 1
        marker = "probe-%d" % self.n
        log_message("c14:probe", marker=marker)
        found = []
        if any(m.get("marker") == marker for m in self.sink):
            found.append(0 if self.pre is None else "global")
        if self.pre is not None and any(m.get("marker") == marker for m in self.pre.messages):
            found.append(0)
        for n, lg in self.loggers.items():
            if any(m.get("marker") == marker for m in lg.messages):
                found.append(n)
        for n, lg in self.foreign.items():
            if any(m.get("marker") == marker for m in lg.messages):
                found.append(100 + n)
        return found[0] if len(found) == 1 else "?%r" % (found,)

    def before(self, name):
        self.obs.setdefault(name, {})["before"] = self.where()

    def after(self, name):
        self.obs.setdefault(name, {})["after"] = self.where()


def make_test(n, desc, hooks, variant):
    AT = ActionType("c14:cap", fields(x=int), [], "typed action")
    MT = MessageType("c14:capmsg", fields(x=int), "typed message")
    calls = []

    def assertion(test, logger, *a, **kw):
        calls.append((a, kw))

    dec = capture_logging if desc["dec"] == "capture" else validate_logging
    if variant % 3 == 0:
        d = dec(None)
    elif variant % 3 == 1:
        d = dec(assertion)
    else:
        d = dec(assertion, 1, k=2)

    @d
    def test(self, logger):
        hooks.loggers[n] = logger
        explicit = desc["dec"] != "capture"
        hooks.obs.setdefault("test_%d" % n, {})["during"] = hooks.where()
        logs = desc["logs"]
        if logs in ("valid",):
            if explicit:
                with AT(logger, x=1):
                    pass
            else:
                with AT(x=1):
                    MT.log(x=2)
        if logs in ("invalid", "tb_invalid"):
            if explicit:
                with AT(logger, x="not an int"):
                    pass
            else:
                MT.log(x="not an int")
        if logs in ("tb", "tb_flushed", "tb_invalid"):
            try:
                raise ZeroDivisionError("in body")
            except ZeroDivisionError:
                if explicit:
                    write_traceback(logger)
                else:
                    write_traceback()
            if logs == "tb_flushed":
                logger.flushTracebacks(ZeroDivisionError)
        out = desc["out"]
        if desc.get("swap"):
            # the body (or a helper it calls) installs another logger itself and only swaps back when it passes
            hooks.foreign[n] = MemoryLogger()
            mine = swap_logger(hooks.foreign[n])
            log_message("c14:foreign", n=n)
            if out == "pass":
                swap_logger(mine)
        if out == "fail":
            self.fail("body fails") if variant % 2 == 0 else self.assertEqual(1, 2)
        if out == "error":
            raise BodyError("body errors")
        if out == "skip":
            if variant % 2 == 0:
                raise unittest.SkipTest("body skips")
            self.skipTest("body skips")

    test.__name__ = "test_%d" % n
    return test, calls


def run_caps(job, out):
    res = []
    original = swap_logger(MemoryLogger())      # the process-wide default logger, through the public API
    swap_logger(original)
    for item in job.get("caps", []):
        swap_logger(original)                   # runs are independent: a run that leaks its logger does not taint the next
        run, init, variant = item["run"], item["init"], item["variant"]
        hooks = CapHooks(init)
        ns = {}
        callrecs = {}
        for n, desc in enumerate(run, 1):
            t, calls = make_test(n, desc, hooks, variant + n)
            ns["test_%d" % n] = t
            callrecs[n] = calls
        cls = type("C14Case", (unittest.TestCase,), ns)
        dest = hooks.sink.append
        add_destinations(dest)
        prev = swap_logger(hooks.pre) if hooks.pre is not None else None
        holder = {}

        def factory(*a, **kw):
            r = Rec(*a, **kw)
            r.hooks = hooks
            holder["r"] = r
            return r
        try:
            suite = unittest.defaultTestLoader.loadTestsFromTestCase(cls)
            unittest.TextTestRunner(stream=io.StringIO(), resultclass=factory, verbosity=0).run(suite)
            result = holder["r"]
            final = hooks.where()
        finally:
            if hooks.pre is not None:
                swap_logger(prev)
            remove_destination(dest)
        per = []
        for n in range(1, len(run) + 1):
            name = "test_%d" % n
            o = hooks.obs.get(name, {})
            per.append({"events": sorted(set(result.events.get(name, []))), "during": o.get("during", "not-run"),
                        "before": o.get("before"), "after": o.get("after"), "assert_calls": len(callrecs[n])})
        res.append({"i": item["i"], "init": init, "variant": variant, "res": per, "final": final})
    out["caps"] = res


# ---------------------------------------------------------------------------------------------------------------
# Part 4: one MemoryLogger through a whole lifecycle (write / validate / check_for_errors / reset / flushTracebacks)
class LifeTypes(object):
    def __init__(self):
        self.mt_int = MessageType("c14:life:int", [Field.forTypes("x", [int], "an int")], "typed message")
        self.mt_two = MessageType("c14:life:two", fields(x=int, s=str) + [Field.forValue("k", "K", "constant")], "typed message")
        self.mt_any = MessageType("c14:life:any", [Field("y", lambda v: v, "anything")], "typed message")
        self.mt_xv = MessageType("c14:life:xv", [Field.forTypes("x", [int], "non-negative", extraValidator=nonneg)], "typed")
        self.at = ActionType("c14:life:act", fields(x=int), fields(r=str), "typed action")


def life_write(lt, lg, kind, rng):
    """Write message(s) of the given kind to lg.  Conforming messages only use fields whose serialization is idempotent."""
    v = rng.randrange(4)
    if kind == "ok":
        if v == 0:
            lt.mt_int(x=rng.choice([0, 7, True])).write(lg)
        elif v == 1:
            lt.mt_two(x=1, s="t", k="K").write(lg)
        elif v == 2:
            with lt.at(lg, x=2) as a:
                a.add_success_fields(r="done")
        else:
            eliot.Message.new(a=[1, {"b": None}], p=pathlib.Path("/tmp/x")).write(lg)
    elif kind == "wrong":
        if v == 0:
            lt.mt_int(x="not an int").write(lg)
        elif v == 1:
            lt.mt_two(x=1, s=5, k="K").write(lg)
        elif v == 2:
            with lt.at(lg, x=None):
                pass
        else:
            lt.mt_two(x=1, s="t", k="other").write(lg)
    elif kind == "missing":
        if v % 2 == 0:
            lt.mt_int().write(lg)
        else:
            with lt.at(lg, x=1):
                pass      # success field r is missing
    elif kind == "extra":
        if v % 2 == 0:
            lt.mt_int(x=1, extra=2).write(lg)
        else:
            with lt.at(lg, x=1, reason="why"):
                pass
    elif kind == "xv":
        lt.mt_xv(x=rng.choice([-1, -99])).write(lg)
    elif kind == "nonjson":
        if v == 0:
            lt.mt_any(y=object()).write(lg)
        elif v == 1:
            eliot.Message.new(a=[Opaque()]).write(lg)
        elif v == 2:
            lt.mt_any(y=b"\xff").write(lg)
        else:
            with eliot.start_action(lg, "c14:life:untyped", z={"k": object()}):
                pass
    elif kind == "tb":
        try:
            raise ZeroDivisionError("lifecycle")
        except ZeroDivisionError:
            write_traceback(lg)
    else:
        raise ValueError(kind)


def run_life(job, out):
    lt = LifeTypes()
    res = []
    for item in job.get("lives", []):
        for w in range(job.get("life_nwit", 1)):
            rng = random.Random("%s/life/%s/%s" % (job["seed"], item["i"], w))
            lg = MemoryLogger()
            obs = []
            for step in item["hist"]:
                op = step["op"]
                if op.startswith("W_"):
                    try:
                        kind = op[2:]
                        if kind == "wrong" and job.get("mix_ve"):
                            kind = rng.choice(["wrong", "missing", "extra", "xv"])
                        life_write(lt, lg, kind, rng)
                        obs.append("-")
                    except BaseException as e:
                        obs.append("WRITE-RAISED:" + type(e).__name__)
                elif op == "V":
                    obs.append(observe(lg.validate)[0])
                elif op == "C":
                    obs.append(observe(lambda: check_for_errors(lg))[0])
                elif op == "R":
                    lg.reset()
                    obs.append("-")
                elif op == "F":
                    try:
                        obs.append("flushed%d" % len(lg.flushTracebacks(ZeroDivisionError)))
                    except BaseException as e:
                        obs.append("FLUSH-RAISED:" + type(e).__name__)
            res.append([item["i"], w, obs])
    out["lives"] = res


def main():
    job = json.load(open(sys.argv[1]))
    out = {"file": eliot.__file__}
    run_cases(job, out)
    run_random(job, out)
    run_caps(job, out)
    run_life(job, out)
    json.dump(out, open(sys.argv[2], "w"), default=repr)


if __name__ == "__main__":
    main()
