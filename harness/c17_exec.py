"""
C17, subprocess side (imports the repository under test): asks the REAL eliot.testing helpers and the REAL
eliot.parse.Parser about captured message lists and records their answers in the vocabulary of spec/Helpers.tla.

usage: python c17_exec.py lists    in.json out.json     in: {"lists": [{"S": [[u, lv, k, ty, st, x, c], ...], "types": [...],
                                                                        "aa": [[ty, succ, sf, ef], ...], "am": [[ty, exp], ...]}]}
       python c17_exec.py programs in.json out.json     in: {"programs": [[op, ...], ...]}   (executed on the real library)

Answer for one list ("obs"):
  S      the list itself, abstractly: [{"u", "lv", "k", "ty", "st", "f"}]
  types  per type: {"ty", "err" (of_type raised ValueError), "acts": [tree], "ptrees": [tree of the real parser for the same
         action], "desc": [[descendants]], "tt": [type_tree], "msgs": [positions], "notes": [python-side remarks]}
         tree = {"s", "e", "ok", "ch": [tree | {"m": position}]}; positions are 1-based indices into the list
  aa/am  per assert query: {"q": [...], "r": {"out": "ok"|"fail"|"err"|"exc:<Class>", "ret": position or 0}}
"""
import sys, json, unittest, random

import eliot
from eliot import (start_action, start_task, log_message, write_traceback, Action, ActionType, MessageType,
                   MemoryLogger)
from eliot.testing import (LoggedAction, LoggedMessage, assertHasAction, assertHasMessage, assertContainsFields,
                           swap_logger)
from eliot.parse import Parser

FIELD_KEYS = ("x", "c", "z", "n")
NONE = -99          # Helpers.tla's NoneV: Python's None as a field value


class _TC(unittest.TestCase):
    def runTest(self):
        pass


def abstract(messages):
    """Real message dicts -> the abstract list of Helpers.tla (+ the identity map used for projections)."""
    order, S, ident = {}, [], {}
    for i, m in enumerate(messages):
        u = order.setdefault(m["task_uuid"], len(order) + 1)
        st = m.get("action_status", "")
        k = "msg"
        if "action_type" in m or st:
            k = "start" if st == "started" else "end"
        ty = m.get("action_type") if k != "msg" else m.get("message_type", "")
        S.append({"u": u, "lv": list(m["task_level"]), "k": k, "ty": ty if isinstance(ty, str) else "", "st": st,
                  "f": {key: (NONE if m[key] is None else m[key]) for key in FIELD_KEYS if key in m}})
        ident[(m["task_uuid"], tuple(m["task_level"]))] = i + 1
    return S, ident


def concrete(S):
    """Abstract list [[u, lv, k, ty, st, x, c], ...] -> real message dicts."""
    out = []
    for i, (u, lv, k, ty, st, x, c) in enumerate(S):
        d = {"task_uuid": "uuid-%d" % u, "task_level": list(lv), "timestamp": 1000.0 + i, "x": x, "c": c, "n": None}
        if k == "msg":
            d["message_type"] = ty
        else:
            d["action_type"] = ty
            d["action_status"] = st
            if st == "failed":
                d["exception"] = "builtins.RuntimeError"
                d["reason"] = "no"
        out.append(d)
    return out


class Observer:
    def __init__(self, messages, logger=None):
        if logger is None:
            logger = MemoryLogger()
            for m in messages:
                logger.write(m)
            messages = logger.messages
        self.logger = logger
        self.messages = messages
        self.S, self.ident = abstract(messages)
        self._parsed = None

    def idx(self, d):
        return self.ident.get((d["task_uuid"], tuple(d["task_level"])), -1)

    def tree(self, node):
        if isinstance(node, LoggedAction):
            return {"s": self.idx(node.start_message), "e": self.idx(node.end_message), "ok": bool(node.succeeded),
                    "ch": [self.tree(c) for c in node.children]}
        if isinstance(node, LoggedMessage):
            return {"m": self.idx(node.message)}
        return {"m": -2}

    def parsed(self):
        if self._parsed is None:
            self._parsed = {}
            for t in Parser.parse_stream(iter(self.messages)):
                r = t.root()
                self._parsed.setdefault(r.task_uuid if hasattr(r, "task_uuid") else None, []).append(r)
        return self._parsed

    def widx(self, wm):
        return self.ident.get((wm.task_uuid, tuple(wm.task_level.as_list())), -1)

    def ptree(self, node):
        if hasattr(node, "children"):
            e = node.end_message
            return {"s": self.widx(node.start_message) if node.start_message is not None else 0,
                    "e": self.widx(e) if e is not None else 0,
                    "ok": bool(e is not None and node.status == "succeeded"),
                    "ch": [self.ptree(c) for c in node.children]}
        return {"m": self.widx(node)}

    def parser_subtree(self, uuid, level):
        """The real parser's node for the action whose start message has task_level `level`."""
        roots = self.parsed().get(uuid, [])
        if len(roots) != 1:
            return {"s": -3, "e": -3, "ok": False, "ch": []}
        node = roots[0]
        prefix = list(level[:-1])
        for depth in range(1, len(prefix) + 1):
            nxt = None
            for c in getattr(node, "children", ()):
                if hasattr(c, "children") and c.task_level.as_list() == prefix[:depth]:
                    nxt = c
            if nxt is None:
                return {"s": -4, "e": -4, "ok": False, "ch": []}
            node = nxt
        if not hasattr(node, "children"):
            return {"s": -5, "e": -5, "ok": False, "ch": []}
        return self.ptree(node)

    def type_tree(self, tt):
        if not isinstance(tt, dict) or len(tt) != 1:
            return {"t": "?not-a-single-key-dict", "c": []}
        (k, v), = tt.items()
        return {"t": k, "c": [self.type_tree(c) if isinstance(c, dict) else {"t": c if isinstance(c, str) else "?"} for c in v]}

    def walk(self, la):
        for c in la.children:
            yield c
            if isinstance(c, LoggedAction):
                for d in self.walk(c):
                    yield d

    def of_type(self, ty, as_object=False):
        res = {"ty": ty, "err": False, "acts": [], "ptrees": [], "desc": [], "tt": [], "msgs": [], "notes": []}
        arg = ActionType(ty, [], [], "") if as_object else ty
        try:
            acts = LoggedAction.of_type(self.messages, arg)
        except Exception as e:                       # ValueError is the documented one; anything counts as "raised"
            res["err"] = True
            res["exc"] = type(e).__name__
            acts = []
        for la in acts:
            res["acts"].append(self.tree(la))
            res["ptrees"].append(self.parser_subtree(la.start_message["task_uuid"], la.start_message["task_level"]))
            try:
                ds = list(la.descendants())
                res["desc"].append([(-self.idx(d.start_message)) if isinstance(d, LoggedAction) else self.idx(d.message) for d in ds])
                # the objects yielded are the nodes of the tree (not copies of something else)
                if ds != list(self.walk(la)):
                    res["notes"].append("descendants_are_not_the_tree_nodes")
            except Exception as e:
                res["desc"].append([-9])
                res["notes"].append("descendants_raised_" + type(e).__name__)
            try:
                res["tt"].append(self.type_tree(la.type_tree()))
            except Exception as e:
                res["tt"].append({"t": "?raised_" + type(e).__name__, "c": []})
            if la.start_message != la.startMessage or la.end_message != la.endMessage:
                res["notes"].append("pep8_alias_differs")
        marg = MessageType(ty, [], "") if as_object else ty
        try:
            res["msgs"] = [self.idx(lm.message) for lm in LoggedMessage.of_type(self.messages, marg)]
        except Exception as e:
            res["msgs"] = [-9]
            res["notes"].append("message_of_type_raised_" + type(e).__name__)
        return res

    def assert_action(self, ty, succ, sf, ef):
        tc = _TC()
        try:
            a = assertHasAction(tc, self.logger, ty, succ, sf, ef)
        except tc.failureException:
            return {"out": "fail", "ret": 0}
        except ValueError:
            return {"out": "err", "ret": 0}
        except Exception as e:
            return {"out": "exc:" + type(e).__name__, "ret": 0}
        if not isinstance(a, LoggedAction):
            return {"out": "ok", "ret": -1}
        return {"out": "ok", "ret": self.idx(a.start_message)}

    def assert_message(self, ty, exp):
        tc = _TC()
        try:
            m = assertHasMessage(tc, self.logger, ty, exp)
        except tc.failureException:
            return {"out": "fail", "ret": 0}
        except Exception as e:
            return {"out": "exc:" + type(e).__name__, "ret": 0}
        if not isinstance(m, LoggedMessage):
            return {"out": "ok", "ret": -1}
        return {"out": "ok", "ret": self.idx(m.message)}

    def observe(self, types, aa, am, n=0):
        obs = {"S": self.S, "types": [], "aa": [], "am": []}
        for j, ty in enumerate(types):
            r = self.of_type(ty)
            # the type may be given as an ActionType / MessageType object as well
            if (n + j) % 3 == 0:
                r2 = self.of_type(ty, as_object=True)
                if {k: v for k, v in r2.items() if k != "exc"} != {k: v for k, v in r.items() if k != "exc"}:
                    r["notes"].append("type_object_gives_another_answer")
            obs["types"].append(r)
        for (ty, succ, sf, ef) in aa:
            obs["aa"].append({"q": [ty, succ, sf, ef], "r": self.assert_action(ty, succ, _d(sf), _d(ef))})
        for (ty, exp) in am:
            obs["am"].append({"q": [ty, exp], "r": self.assert_message(ty, _d(exp))})
        return obs


def _d(x):
    """An expected-fields dictionary ([] stands for the empty one); None = 'do not check'."""
    if x is None:
        return None
    return {k: (None if v == NONE else v) for k, v in dict(x).items()} if x else {}


# ---------------------------------------------------------------------------------------
# code -> spec: abstract logging programs executed on the real library, captured by one MemoryLogger
class Boom(Exception):
    pass


def run_program(ops):
    ml = MemoryLogger()
    prev = swap_logger(ml)
    H, IDS = {}, {}
    n = [0]

    def nx():
        n[0] += 1
        return n[0]

    def fields(op):
        f = {"x": nx()}
        if op.get("c", True):
            f["c"] = 7
            f["n"] = None
        return f

    def step(op):
        o = op["op"]
        if o == "task":
            H[op["h"]] = start_task(action_type=op["ty"], **fields(op))
        elif o == "child":
            with H[op["p"]].context():
                H[op["h"]] = start_action(action_type=op["ty"], **fields(op))
        elif o == "log":
            a = H[op["h"]]
            if op["how"] == "alog":
                a.log(message_type=op["ty"], **fields(op))
            elif op["how"] == "tb":
                with a.context():
                    try:
                        raise Boom("tb")
                    except Boom:
                        write_traceback()
            else:
                with a.context():
                    log_message(message_type=op["ty"], **fields(op))
        elif o == "ctxless":
            log_message(message_type=op["ty"], **fields(op))
        elif o == "cur":                                   # log in whatever the current context is
            log_message(message_type=op["ty"], **fields(op))
        elif o == "finish":
            a = H[op["h"]]
            if op["how"] == "with":
                try:
                    with a:
                        if op["ok"]:
                            a.add_success_fields(**fields(op))
                        else:
                            raise Boom("finish")
                except Boom:
                    pass
            elif op["ok"]:
                a.add_success_fields(**fields(op))
                a.finish()
            else:
                a.finish(Boom("finish"))
        elif o == "reserve":
            IDS[op["r"]] = H[op["h"]].serialize_task_id()
        elif o == "continue":
            H[op["h"]] = Action.continue_task(task_id=IDS[op["r"]])
        elif o == "block":                                 # a real `with start_action(...)` block, possibly raising
            try:
                with start_action(action_type=op["ty"], **fields(op)) as a:
                    if "h" in op:
                        H[op["h"]] = a
                    for b in op["body"]:
                        step(b)
                    if op["raise"]:
                        raise Boom("block")
                    a.add_success_fields(**fields(op))
            except Boom:
                if not op.get("catch", True):
                    raise
        else:
            raise RuntimeError("unknown op %r" % (o,))

    try:
        for op in ops:
            try:
                step(op)
            except Boom:
                pass
    finally:
        swap_logger(prev)
    try:
        ml.flush_tracebacks(Boom)
    except Exception:
        pass
    return ml


def choose_queries(S, rng):
    """Which questions to put to the assert helpers for a list produced by a program (the ANSWERS are judged by TLC)."""
    types = []
    for m in S:
        if m["ty"] not in types:
            types.append(m["ty"])
    types.append("absent")
    aa, am = [], []
    for ty in types:
        starts = [i for i, m in enumerate(S) if m["k"] == "start" and m["ty"] == ty]
        if not starts:
            aa += [[ty, True, [], []], [ty, False, None, None]]
        else:
            i = starts[0]
            ends = [j for j, m in enumerate(S) if m["k"] == "end" and m["u"] == S[i]["u"] and m["lv"][:-1] == S[i]["lv"][:-1]]
            ok = bool(ends) and S[ends[0]]["st"] == "succeeded"
            sf = dict(S[i]["f"])
            ef = dict(S[ends[0]]["f"]) if ends else {}
            other = dict(S[starts[1]]["f"]) if len(starts) > 1 else {"x": -1}
            cands = [[ty, ok, {}, {}], [ty, ok, None, None], [ty, not ok, sf, ef], [ty, ok, sf, ef], [ty, ok, {"x": other.get("x", -1)}, {}],
                     [ty, ok, {}, {"x": -5}], [ty, ok, dict(sf, z=0), {}], [ty, ok, {}, dict(ef, z=0)], [ty, ok, {"c": 8}, {}]]
            cands += [[ty, ok, {"z": NONE}, {}], [ty, ok, {}, {"z": NONE}]]          # absent key, expected None
            if "n" in sf:
                cands.append([ty, ok, {"n": NONE}, {}])
            if "n" in ef:
                cands.append([ty, ok, {}, {"n": NONE}])
            if "x" in sf:
                cands.append([ty, ok, {"x": sf["x"]}, {}])
            if "x" in ef:
                cands.append([ty, ok, {}, {"x": ef["x"]}])
            aa += [cands[0], cands[2], cands[3]] + rng.sample(cands[4:], min(5, len(cands) - 4)) + [cands[1]]
        ms = [i for i, m in enumerate(S) if m["k"] == "msg" and m["ty"] == ty]
        if not ms:
            am.append([ty, []])
        else:
            f = dict(S[ms[0]]["f"])
            other = dict(S[ms[1]]["f"]) if len(ms) > 1 else {"x": -1}
            am += [[ty, {}], [ty, None], [ty, f], [ty, {"x": other.get("x", -1)}], [ty, dict(f, z=0)], [ty, {"z": NONE}]]
            if "n" in f:
                am.append([ty, {"n": NONE}])
    return types, aa, am


def main():
    mode, pin, pout = sys.argv[1:4]
    data = json.load(open(pin))
    out = []
    if mode == "lists":
        for n, case in enumerate(data["lists"]):
            ob = Observer(concrete(case["S"]))
            out.append(ob.observe(case["types"], case["aa"], case["am"], n))
    else:
        for n, prog in enumerate(data["programs"]):
            rng = random.Random(prog.get("seed", n))
            ml = run_program(prog["ops"])
            msgs = ml.messages
            ob = Observer(msgs, ml)
            types, aa, am = choose_queries(ob.S, rng)
            o = ob.observe(types, aa, am, n)
            o["untyped"] = any(m["k"] == "msg" and "message_type" not in d for m, d in zip(ob.S, msgs))
            out.append(o)
    json.dump({"file": eliot.__file__, "obs": out}, open(pout, "w"))


if __name__ == "__main__":
    main()
