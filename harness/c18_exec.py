"""C18, repository side: build the real function of every LogCall.tla record, call it plain and decorated with
eliot.log_call, and compare   specification  /  plain Python  /  wrapper.

usage: c18_exec.py <in.json> <out.json>
in : {"lines": [raw TLC lines], "variants": [v, ...] | "rotate", "repo": path, "detail": bool}
out: {"n": cases, "runs": executions, "machinery": [...], "violations": [...], "known": {id: count}, ...}

Nothing here decides what SHOULD happen: the expected binding, the logged parameter set, the end status, whether a
result is logged and what reaches the caller all come from the record printed by TLC.  Python only instantiates the
abstract values with witness objects (identity equality) and compares.
"""
import sys, os, json, re, inspect, zlib, functools

RESERVED = {"task_uuid", "task_level", "timestamp", "action_type", "action_status"}
MODNAME = "c18mod"
GIVEN_TYPE = "c18:given-type"


def parse_line(line):
    """One PrintT(ToString(<<"CASE", ...>>)) line -> nested lists / dicts."""
    s = json.loads(line)
    s = (s.replace("{", "\x01").replace("}", "\x02").replace("[", "{").replace("]", "}")
          .replace("<<", "[").replace(">>", "]").replace("\x01", "[").replace("\x02", "]")
          .replace("TRUE", "true").replace("FALSE", "false"))
    s = re.sub(r'(\w+) \|->', r'"\1":', s)
    r = json.loads(s)
    if r[0] != "CASE" or len(r) != 13:
        raise ValueError("not a CASE record: %r" % (line[:200],))
    return r


class W(object):
    """A witness value: equal only to itself."""
    __slots__ = ("label",)

    def __init__(self, label):
        self.label = label

    def __repr__(self):
        return "<W %s>" % self.label


class BodyError(Exception):
    pass


class BodyBaseError(BaseException):
    pass


EVENTS = []
CTL = {"fx": "ret", "R": None, "X": None}


def _hook(loc):
    EVENTS.append(("call", loc))
    if CTL["fx"] == "raise":
        raise CTL["X"]
    return CTL["R"]


def _whook(loc):
    """Called first thing by a harness-made wrapper (target kinds inject / renamed / fewer) with its own locals."""
    EVENTS.append(("wcall", loc))


CONN = W("injected-connection")


P = [W("positional-%d" % i) for i in range(1, 8)]
KWV = {}
DEF = {}


def kwv(x):
    if x not in KWV:
        KWV[x] = W("keyword-" + x)
    return KWV[x]


def dflt(x):
    if x not in DEF:
        DEF[x] = W("default-" + x)
    return DEF[x]


class _D(dict):
    def __missing__(self, k):
        return dflt(k)


def param_list(sig):
    parts = []
    n = len(sig)
    has_vp = any(p[0] == "VP" for p in sig)
    star_done = False
    for i, (k, d, name) in enumerate(sig):
        if k == "KO" and not has_vp and not star_done:
            parts.append("*")
            star_done = True
        if k == "VP":
            parts.append("*" + name)
        elif k == "VK":
            parts.append("**" + name)
        else:
            parts.append(name + ("=_D[%r]" % name if d else ""))
        if k == "PO" and (i + 1 == n or sig[i + 1][0] != "PO"):
            parts.append("/")
    return ", ".join(parts)


def source(sig, meth):
    head = "def target(%s):\n" % param_list(sig)
    body = '    "the docstring of target"\n    return _hook(locals())\n'
    if meth:
        return "class Klass:\n" + "".join("    " + l + "\n" for l in (head + body).splitlines())
    return head + body


def build(sig, meth):
    ns = {"__name__": MODNAME, "_hook": _hook, "_D": _D()}
    src = source(sig, meth)
    exec(compile(src, "<c18 %s>" % src.splitlines()[1 if meth else 0].strip(), "exec"), ns)
    if meth:
        return ns["Klass"].__dict__["target"], ns["Klass"], src
    return ns["target"], None, src


def wrapper_source(tk, sig, osig):
    """The callable given to log_call for the target kinds made of a functools.wraps wrapper around `inner`."""
    if tk == "inject":
        params, fwd = "*wargs, **wkwargs", "_CONN, *wargs, **wkwargs"
    else:
        own = set(p[2] for p in osig)
        fwd = []
        for k, d, name in sig:
            w = "w_" + name
            if w not in own:
                continue                # "fewer": left to the function's own default
            fwd.append({"PO": w, "PK": w, "VP": "*" + w, "KO": "%s=%s" % (name, w), "VK": "**" + w}[k])
        params, fwd = param_list(osig), ", ".join(fwd)
    return "@functools.wraps(inner)\ndef target(%s):\n    _whook(locals())\n    return inner(%s)\n" % (params, fwd)


def build_wrapper(tk, sig, osig, inner, log_call):
    if tk == "stacked":
        return log_call(inner), "target = log_call(target)\n"
    src = wrapper_source(tk, sig, osig)
    ns = {"__name__": MODNAME, "_whook": _whook, "_D": _D(), "_CONN": CONN, "inner": inner, "functools": functools}
    exec(compile(src, "<c18 wrapper %s>" % tk, "exec"), ns)
    return ns["target"], src


def inner_arguments(tk, sig, osig, exp_own, posvals):
    """The argument list the callable passes to the function underneath (mirror of wrapper_source)."""
    if tk == "inject":
        return [CONN] + list(posvals), {}
    if tk in ("renamed", "fewer"):
        pos, kwmap = [], {}
        for k, d, name in osig:
            v = exp_own[name][1]
            if k in ("PO", "PK"):
                pos.append(v)
            elif k == "VP":
                pos.extend(v)
            elif k == "KO":
                kwmap[name[2:]] = v
        return pos, kwmap
    return list(posvals), {}


def expected_locals(sig, b, posvals, kwmap=None):
    exp = {}
    kwmap = kwmap or {}
    for (k, d, name), (t, lo, hi, ks) in zip(sig, b):
        if t == "pos":
            exp[name] = ("one", posvals[lo - 1])
        elif t == "kw":
            exp[name] = ("one", kwmap.get(name, kwv(name)))
        elif t == "def":
            exp[name] = ("one", dflt(name))
        elif t == "vp":
            exp[name] = ("tuple", tuple(posvals[lo - 1:hi]) if hi >= lo else ())
        elif t == "vk":
            exp[name] = ("dict", {x: kwmap.get(x, kwv(x)) for x in ks})
        else:
            raise ValueError("bad bound value %r" % t)
    return exp


def same_value(exp, got, strict):
    kind, v = exp
    if kind == "one":
        return got is v
    if kind == "tuple":
        if strict and type(got) is not tuple:
            return False
        try:
            g = list(got)
        except TypeError:
            return False
        return len(g) == len(v) and all(a is b for a, b in zip(g, v))
    if kind == "dict":
        if not isinstance(got, dict):
            return False
        return set(got) == set(v) and all(got[x] is v[x] for x in v)
    return False


def same_locals(exp, got):
    return set(exp) == set(got) and all(same_value(exp[n], got[n], True) for n in exp)


OUTER_TYPE = "c18:outer"
ELIOT = {}       # start_action, MemoryLogger of the tree under test (set by main)


def observe(fn, inst, posvals, kws, fx, R, X, ctx="top"):
    """Call and record: events (messages of the default logger, body invocations), result / exception.
    ctx: calling context -- "top" (no current action), "action" (inside start_action(action_type=OUTER_TYPE), default
    logger), "private" (inside start_action(<MemoryLogger>, OUTER_TYPE): the outer action writes to its own logger)."""
    del EVENTS[:]
    CTL["fx"], CTL["R"], CTL["X"] = fx, R, X
    kw = {x: kwv(x) for x in kws}
    o = {"exc": None, "ret": None, "ctx": ctx, "outer_uuid": None, "private": None, "ctx_problem": None}

    def call():
        if inst is not None:
            return getattr(inst, "target")(*posvals[1:], **kw)
        return fn(*posvals, **kw)
    try:
        if ctx == "top":
            o["ret"] = call()
        else:
            private = ELIOT["MemoryLogger"]() if ctx == "private" else None
            outer = ELIOT["start_action"](action_type=OUTER_TYPE) if private is None else ELIOT["start_action"](private, OUTER_TYPE)
            o["outer_uuid"] = outer.task_uuid
            if private is not None:
                o["private"] = private.messages
            with outer:
                o["ret"] = call()
    except BaseException as e:      # the body may raise a BaseException subclass on purpose
        o["exc"] = e
    events = list(EVENTS)
    if ctx == "action":
        # the outer action's own start and end went to the default destinations too: they frame the events, take them off
        if len(events) >= 2 and events[0][0] == "msg" and events[-1][0] == "msg" and \
                events[0][1].get("action_type") == OUTER_TYPE and events[-1][1].get("action_type") == OUTER_TYPE and \
                events[0][1].get("task_level") == [1]:
            events = events[1:-1]
        else:
            o["ctx_problem"] = "the outer action's own messages do not frame the events"
    o["events"] = events
    EVENTS[:] = events
    o["calls"] = [e[1] for e in EVENTS if e[0] == "call"]
    o["wcalls"] = [e[1] for e in EVENTS if e[0] == "wcall"]
    o["msgs"] = [e[1] for e in EVENTS if e[0] == "msg"]
    return o


def describe(o):
    d = {"returned": repr(o["ret"]) if o["exc"] is None else None,
         "raised": None if o["exc"] is None else "%s: %s" % (type(o["exc"]).__name__, o["exc"]),
         "body_calls": [{k: repr(v) for k, v in c.items()} for c in o["calls"]],
         "wrapper_calls": [{k: repr(v) for k, v in c.items()} for c in o.get("wcalls", [])],
         "messages": [{k: repr(v) for k, v in m.items() if k not in ("timestamp", "task_uuid")} for m in o["msgs"]],
         "order": [e[0] for e in o["events"]]}
    if o.get("ctx", "top") != "top":
        d["context"] = o["ctx"]
        d["messages_in_the_outer_task"] = [m.get("task_uuid") == o.get("outer_uuid") for m in o["msgs"]]
        if o.get("private") is not None:
            d["private_logger_messages"] = [{k: repr(v) for k, v in m.items() if k not in ("timestamp", "task_uuid")} for m in o["private"]]
    return d


def judge(o, ok, b, sig, posvals, tail, fx, R, X, has_self):
    """Clauses of C18 that observation `o` of the DECORATED call breaks, given the expected binding (ok, b) and the
    specification's (start, end, return) events."""
    if not ok:
        if not isinstance(o["exc"], TypeError) or o["calls"]:
            return ["unbindable-call-raises-TypeError"]
        return []
    fails = []
    start_ev, end_ev, ret_ev = tail
    exp = expected_locals(sig, b, posvals)
    if len(o["calls"]) != 1:
        fails.append("function-called-once")
    elif not same_locals(exp, o["calls"][0]):
        fails.append("function-called-with-same-arguments")
    if ret_ev["e"] == "return":
        if o["exc"] is not None:
            fails.append("same-result(raised instead)")
        elif o["ret"] is not R:
            fails.append("same-result")
    else:
        if o["exc"] is not X:
            fails.append("same-exception-object")
    msgs = o["msgs"]
    if o.get("private") is not None and any(m.get("action_type") != OUTER_TYPE for m in o["private"]):
        fails.append("nothing-written-to-the-outer-action's-private-logger")
    if len(msgs) != 2 or msgs[0].get("action_status") != "started" or \
            msgs[1].get("action_status") not in ("succeeded", "failed") or \
            msgs[0].get("task_uuid") != msgs[1].get("task_uuid") or \
            list(msgs[0].get("task_level", [0]))[-1:] != [1] or \
            list(msgs[1].get("task_level", [0])) != list(msgs[0].get("task_level", [0]))[:-1] + [2]:
        fails.append("one-action-logged")
        return fails
    order = [e[0] for e in o["events"]]
    if len(o["calls"]) == 1 and order != ["msg", "call", "msg"]:
        fails.append("action-surrounds-the-call")
    st, en = msgs
    # placement: where start_action(action_type=...) at the same place would be written (these messages WERE seen at the
    # default destinations); a new task at top level, a child of the current action otherwise
    if start_ev.get("task", "new") == "new":
        if len(st["task_level"]) != 1:
            fails.append("new-task-at-top-level")
    elif st.get("task_uuid") != o.get("outer_uuid") or len(st["task_level"]) != 2 or st["task_level"][0] < 2:
        fails.append("child-of-the-current-action")
    at = {"module.name": MODNAME + ".target", "module.Class.name": MODNAME + ".Klass.target", "given": GIVEN_TYPE}[start_ev["type"]]
    if st.get("action_type") != at:
        fails.append("action-type")
    names = set(p[2] for p in sig)
    logged = set(start_ev["fields"])
    claim = names - RESERVED               # fidelity is claimed for these parameter names only
    if (set(st) & claim) != (logged & claim):
        if "self" in st and has_self and "self" not in logged:
            fails.append("start-fields(self logged)")
        else:
            fails.append("start-fields")
    else:
        for nm in logged & claim:
            if not same_value(exp[nm], st[nm], False):
                fails.append("start-values")
                break
    if en["action_status"] != end_ev["status"]:
        fails.append("end-status")
    if end_ev["status"] == "succeeded":
        if end_ev["result"]:
            if "result" not in en or en["result"] is not R:
                fails.append("end-result")
        elif "result" in en:
            fails.append("end-result(include_result=False)")
    return fails


WITNESS = [  # (R, X) variants; R/X objects are created once so that identity is meaningful
    (W("R"), BodyError("body")),
    (None, TypeError("raised by the body, not by binding")),
    (0, BodyBaseError("base")),
    ((), KeyError("self")),
]


def norm_events(events):
    """Events of a callable, comparable between a run alone and a run inside log_call's action."""
    res = []
    for kind, d in events:
        if kind == "msg":
            res.append((kind, {k: v for k, v in d.items() if k not in ("timestamp", "task_uuid", "task_level")}))
        else:
            res.append((kind, dict(d)))
    return res


def judge_kind(o, u, ok, exp_own, osig, tail, R, X):
    """Target kinds other than the plain function: clauses broken by observation `o` of log_call(callable) given observation
    `u` of the callable alone (same arguments), the expected binding against the callable's OWN signature and the
    specification's (start, end, return) events."""
    if not ok:
        if not isinstance(o["exc"], TypeError) or o["calls"] or o["wcalls"]:
            return ["unbindable-call-raises-TypeError"]
        return []
    fails = []
    start_ev, end_ev, ret_ev = tail
    if ret_ev["e"] == "return":
        if o["exc"] is not None:
            fails.append("same-result(raised instead)")
        elif o["ret"] is not R:
            fails.append("same-result")
    elif ret_ev["what"] == "X":
        if o["exc"] is not X:
            fails.append("same-exception-object")
    else:                                   # the callable's own TypeError: a new object each run, same class and text
        if not isinstance(o["exc"], TypeError) or o["exc"] is X or str(o["exc"]) != str(u["exc"]):
            fails.append("same-exception(TypeError raised inside the callable)")
    ev = o["events"]
    if len(ev) < 2 or ev[0][0] != "msg" or ev[-1][0] != "msg":
        fails.append("one-action-logged")
        return fails
    st, en = ev[0][1], ev[-1][1]
    sl, el = list(st.get("task_level", [0])), list(en.get("task_level", [0]))
    if st.get("action_status") != "started" or en.get("action_status") not in ("succeeded", "failed") or \
            st.get("task_uuid") != en.get("task_uuid") or sl[-1:] != [1] or el[:-1] != sl[:-1] or el[-1] < 2:
        fails.append("one-action-logged")
        return fails
    # inside the action the callable does exactly what it does alone: called once, same arguments, same messages of its own
    if norm_events(ev[1:-1]) != norm_events(u["events"]):
        fails.append("callable-called-once-with-same-arguments-inside-the-action")
    if st.get("action_type") != {"module.name": MODNAME + ".target", "given": GIVEN_TYPE}[start_ev["type"]]:
        fails.append("action-type")
    names = set(p[2] for p in osig)
    logged = set(start_ev["fields"])
    if (set(st) & names) != logged:
        fails.append("start-fields(parameters of the callable log_call was given)")
    elif not all(same_value(exp_own[nm], st[nm], False) for nm in logged):
        fails.append("start-values")
    if en["action_status"] != end_ev["status"]:
        fails.append("end-status")
    if end_ev["status"] == "succeeded":
        if end_ev["result"]:
            if "result" not in en or en["result"] is not R:
                fails.append("end-result")
        elif "result" in en:
            fails.append("end-result(include_result=False)")
    return fails


def run_kind_case(r, variants, cache, log_call, out, detail=False):
    _, sig, (np_, kws, meth), (given, ianames, ir, at, fx, bare), Bw, reasons, dev, obs, tail, tk, osig, innerw = r[:12]
    if meth or dev != ["-"] or r[12] != "top":
        raise ValueError("target kind %s outside its domain: %r" % (tk, r))
    refused = obs[0]["e"] == "raise"
    ok = bool(Bw)
    b = Bw[0] if ok else None
    fkey = (json.dumps(sig), tk)
    if cache.get("fkey") != fkey:
        cache.clear()
        cache["fkey"] = fkey
        raw, _, src = build(sig, False)
        w, wsrc = build_wrapper(tk, sig, osig, raw, log_call)
        cache["f"] = (raw, w, src + wsrc)
        cache["deco"] = {}
    raw, w, src = cache["f"]
    okey = (given, tuple(sorted(ianames)), ir, at, bare)
    if okey not in cache["deco"]:
        kwargs = {}
        if given:
            kwargs["include_args"] = sorted(ianames)
        if not ir:
            kwargs["include_result"] = False
        if at:
            kwargs["action_type"] = GIVEN_TYPE
        try:
            deco = log_call(w) if bare else log_call(**kwargs)(w)
            derr = None
        except Exception as e:
            deco, derr = None, e
        meta = []
        if deco is not None:
            if getattr(deco, "__name__", None) != getattr(w, "__name__", None):
                meta.append("keeps-name")
            if getattr(deco, "__doc__", None) != getattr(w, "__doc__", None):
                meta.append("keeps-docstring")
            try:
                if inspect.signature(deco) != inspect.signature(w):
                    meta.append("keeps-signature")
            except Exception:
                meta.append("keeps-signature")
        cache["deco"][okey] = (deco, derr, meta, kwargs)
    deco, derr, meta, kwargs = cache["deco"][okey]
    base = {"sig": sig, "call": [np_, kws, meth], "opt": [given, ianames, ir, at, fx, bare], "source": src, "kind": tk,
            "decorator": "log_call" if bare else "log_call(%s)" % ", ".join("%s=%r" % kv for kv in sorted(kwargs.items())),
            "expected_binding": b if ok else "TypeError " + ",".join(reasons)}
    results = []
    if refused:
        # include_args names something that is not a parameter of the callable log_call is given (e.g. only of the function underneath)
        if not isinstance(derr, ValueError):
            results.append(("violation", ["include_args-naming-a-non-parameter-raises-ValueError"],
                            {"decoration": "accepted" if derr is None else repr(derr)}))
        out["runs"] += 1
        return base, results
    if derr is not None:
        results.append(("violation", ["decoration-succeeds"], {"decoration": repr(derr)}))
        return base, results
    if meta:
        results.append(("violation", meta, {"name": getattr(deco, "__name__", None), "doc": getattr(deco, "__doc__", None),
                                           "signature": str(inspect.signature(deco)), "wrapped_signature": str(inspect.signature(w))}))
    posvals = P[:np_]
    for v in variants:
        R, X = WITNESS[v]
        out["runs"] += 1
        # --- the callable alone against the specification (disagreement = machinery failure)
        u = observe(w, None, posvals, kws, fx, R, X)
        mach = None
        exp_own = None
        if not ok:
            if not isinstance(u["exc"], TypeError) or u["events"]:
                mach = "spec says the %s callable rejects the call (%s), Python: %s" % (tk, ",".join(reasons), describe(u))
        else:
            exp_own = expected_locals(osig, b, posvals)
            if tk != "stacked" and (len(u["wcalls"]) != 1 or not same_locals(exp_own, u["wcalls"][0])):
                mach = "spec binding of the %s callable %s, Python: %s %s" % (tk, b, u["wcalls"], describe(u))
            elif innerw:
                ipos, kwmap = inner_arguments(tk, sig, osig, exp_own, posvals)
                exp_in = expected_locals(sig, innerw[0], ipos, kwmap)
                if len(u["calls"]) != 1 or not same_locals(exp_in, u["calls"][0]):
                    mach = "spec inner binding %s, Python: %s" % (innerw[0], describe(u))
                elif fx == "ret" and (u["exc"] is not None or u["ret"] is not R):
                    mach = "%s callable did not return the witness: %s" % (tk, describe(u))
                elif fx == "raise" and u["exc"] is not X:
                    mach = "%s callable did not raise the witness: %s" % (tk, describe(u))
            elif not isinstance(u["exc"], TypeError) or u["exc"] is X or u["calls"]:
                mach = "spec says the %s callable raises TypeError when it calls the function, Python: %s" % (tk, describe(u))
        if mach and tk == "stacked":
            # the callable underneath is itself made by the log_call under test: its deviation is eliot's, not the machinery's
            # (the same signature / call / options as target kind "plain" reports the clause)
            results.append(("violation", ["stacked: the log_call'ed function underneath does not behave as the function"],
                            {"variant": v, "decorated": describe(u), "plain": None, "detail": mach}))
            continue
        if mach:
            results.append(("machinery", [mach], {"variant": v}))
            continue
        o = observe(deco, None, posvals, kws, fx, R, X)
        fails = judge_kind(o, u, ok, exp_own, osig, tail, R, X)
        d = {"variant": v, "decorated": describe(o), "plain": describe(u)}
        if fails:
            results.append(("violation", fails, d))
        elif detail:
            results.append(("ok", [], d))
    return base, results


def run_case(r, variants, cache, log_call, out, detail=False):
    if r[9] != "plain":
        return run_kind_case(r, variants, cache, log_call, out, detail)
    _, sig, (np_, kws, meth), (given, ianames, ir, at, fx, bare), Bw, reasons, dev, obs, tail = r[:9]
    ctx = r[12]
    ok = bool(Bw)
    b = Bw[0] if ok else None
    names = [p[2] for p in sig]
    has_self = "self" in names
    has_vk = any(p[0] == "VK" for p in sig)
    refused = obs[0]["e"] == "raise"
    # --- the real function (cached per signature)
    fkey = (json.dumps(sig), meth, "plain")
    if cache.get("fkey") != fkey:
        cache.clear()
        cache["fkey"] = fkey
        cache["f"] = build(sig, meth)
        cache["deco"] = {}
    raw, klass, src = cache["f"]
    okey = (given, tuple(sorted(ianames)), ir, at, bare)
    if okey not in cache["deco"]:
        kwargs = {}
        if given:
            kwargs["include_args"] = sorted(ianames)
        if not ir:
            kwargs["include_result"] = False
        if at:
            kwargs["action_type"] = GIVEN_TYPE
        try:
            deco = log_call(raw) if bare else log_call(**kwargs)(raw)
            derr = None
        except Exception as e:
            deco, derr = None, e
        dklass = None
        if deco is not None and meth:
            dklass = type("Klass", (), {"target": deco})
        meta = []
        if deco is not None:
            if getattr(deco, "__name__", None) != "target":
                meta.append("keeps-name")
            if getattr(deco, "__doc__", None) != "the docstring of target":
                meta.append("keeps-docstring")
            try:
                if inspect.signature(deco) != inspect.signature(raw):
                    meta.append("keeps-signature")
            except Exception:
                meta.append("keeps-signature")
        cache["deco"][okey] = (deco, derr, dklass, meta, kwargs)
    deco, derr, dklass, meta, kwargs = cache["deco"][okey]
    base = {"sig": sig, "call": [np_, kws, meth], "opt": [given, ianames, ir, at, fx, bare], "source": src, "kind": "plain", "context": ctx,
            "decorator": "log_call" if bare else "log_call(%s)" % ", ".join("%s=%r" % kv for kv in sorted(kwargs.items())),
            "expected_binding": b if ok else "TypeError " + ",".join(reasons)}
    results = []
    # --- decoration
    if refused:
        if not isinstance(derr, ValueError):
            results.append(("violation", ["include_args-naming-a-non-parameter-raises-ValueError"],
                            {"decoration": "accepted" if derr is None else repr(derr)}))
        out["runs"] += 1
        return base, results
    if derr is not None:
        results.append(("violation", ["decoration-succeeds"], {"decoration": repr(derr)}))
        return base, results
    if meta:
        results.append(("violation", meta, {"name": getattr(deco, "__name__", None), "doc": getattr(deco, "__doc__", None),
                                           "signature": str(inspect.signature(deco)), "wrapped_signature": str(inspect.signature(raw))}))
    for v in variants:
        R, X = WITNESS[v]
        out["runs"] += 1
        # --- plain Python against the specification (a disagreement is a failure of the machinery, not of eliot)
        inst = klass() if meth else None
        posvals = ([inst] + P[1:np_]) if meth else P[:np_]
        u = observe(raw, inst, posvals, kws, fx, R, X, ctx)
        mach = u["ctx_problem"]
        if mach:
            pass
        elif not ok:
            if not isinstance(u["exc"], TypeError) or u["calls"]:
                mach = "spec says TypeError (%s), plain Python: %s" % (",".join(reasons), describe(u))
        else:
            exp = expected_locals(sig, b, posvals)
            if len(u["calls"]) != 1 or not same_locals(exp, u["calls"][0]):
                mach = "spec binding %s, plain Python: %s" % (b, describe(u))
            elif fx == "ret" and (u["exc"] is not None or u["ret"] is not R):
                mach = "plain function did not return the witness: %s" % describe(u)
            elif fx == "raise" and u["exc"] is not X:
                mach = "plain function did not raise the witness: %s" % describe(u)
        if mach:
            results.append(("machinery", [mach], {"variant": v}))
            continue
        # --- the wrapper against the specification
        dinst = dklass() if meth else None
        dpos = ([dinst] + P[1:np_]) if meth else P[:np_]
        o = observe(deco, dinst, dpos, kws, fx, R, X, ctx)
        if o["ctx_problem"]:
            results.append(("machinery", [o["ctx_problem"] + ": " + repr(describe(o))], {"variant": v}))
            continue
        fails = judge(o, ok, b, sig, dpos, tail, fx, R, X, has_self)
        if not fails:
            if detail:
                results.append(("ok", [], {"variant": v, "decorated": describe(o), "plain": describe(u)}))
            continue
        # --- known findings, matched by mechanism (computed from the record) AND by the behaviour the mechanism predicts
        known = None
        cands = [(ok, b, set())]
        if dev != ["-"]:
            named_po_unfilled = any(p[0] == "PO" and p[2] in kws and i + 1 > np_ for i, p in enumerate(sig))
            if has_vk:
                cands.append((dev != ["TypeError"], dev[0] if dev != ["TypeError"] else None, {"F4b"}))
            elif named_po_unfilled:
                cands.append((dev != ["TypeError"], dev[0] if dev != ["TypeError"] else None, {"F4c"}))
        for (cok, cb, ids) in cands:
            if ids and not judge(o, cok, cb, sig, dpos, tail, fx, R, X, has_self):
                known = set(ids)
                break
            if cok:
                wrapper_raised = o["exc"] is not None and o["exc"] is not X and not o["calls"]
                if given and "self" in ianames and has_self and wrapper_raised and isinstance(o["exc"], KeyError):
                    known = set(ids) | {"F4e"}
                    break
                if "_call" in names and wrapper_raised and isinstance(o["exc"], TypeError):
                    known = set(ids) | {"F4d"}
                    break
        d = {"variant": v, "decorated": describe(o), "plain": describe(u)}
        if known:
            results.append(("known", sorted(known), d))
        else:
            results.append(("violation", fails, d))
    return base, results


def main(argv):
    inp = json.load(open(argv[0]))
    repo = os.path.realpath(inp["repo"])
    import eliot
    if not os.path.realpath(eliot.__file__).startswith(repo + os.sep):
        print("eliot imported from %s, not from %s" % (eliot.__file__, repo), file=sys.stderr)
        return 3
    from eliot import log_call, add_destinations, start_action, MemoryLogger
    ELIOT["start_action"], ELIOT["MemoryLogger"] = start_action, MemoryLogger
    add_destinations(lambda m: EVENTS.append(("msg", m)))
    recs = []
    for line in inp["lines"]:
        recs.append((line, parse_line(line)))
    recs.sort(key=lambda lr: (json.dumps(lr[1][1]), lr[1][9], lr[1][2][2], json.dumps(lr[1][3]), json.dumps(lr[1][2]), lr[1][12]))
    out = {"n": 0, "runs": 0, "machinery": [], "violations": [], "known": {}, "known_examples": {}, "n_violations": 0,
           "nontrivial": 0, "bound": 0, "typeerror": 0, "refused": 0, "ok_detail": [], "kinds": {}, "contexts": {}}
    cache = {}
    for line, r in recs:
        out["n"] += 1
        if inp["variants"] == "rotate":
            variants = [zlib.crc32(line.encode()) % len(WITNESS)]
        else:
            variants = inp["variants"]
        out["kinds"][r[9]] = out["kinds"].get(r[9], 0) + 1
        out["contexts"][r[12]] = out["contexts"].get(r[12], 0) + 1
        if r[7][0]["e"] == "raise":
            out["refused"] += 1
        elif r[4]:
            out["bound"] += 1
        else:
            out["typeerror"] += 1
        base, results = run_case(r, variants, cache, log_call, out, inp.get("detail", False))
        for kind, what, d in results:
            item = dict(base)
            item.update(d)
            item["what"] = what
            item["line"] = line
            if kind == "machinery":
                if len(out["machinery"]) < 20:
                    out["machinery"].append(item)
            elif kind == "violation":
                out["n_violations"] += 1
                if len(out["violations"]) < 40:
                    out["violations"].append(item)
            elif kind == "known":
                for fid in what:
                    out["known"][fid] = out["known"].get(fid, 0) + 1
                    out["known_examples"].setdefault(fid, item)
            elif kind == "ok":
                out["ok_detail"].append(item)
    json.dump(out, open(argv[1], "w"))
    return 0


if __name__ == "__main__":
    sys.exit(main(sys.argv[1:]))
