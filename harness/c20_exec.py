"""
C20, repository side: runs in a subprocess whose PYTHONPATH is the tree under test.  Calls the REAL
eliot.prettyprint.pretty_format / compact_format, eliot.filter.EliotFilter / main, and the real logging API (to obtain
messages exactly as Eliot emits them), and records what they returned.  It judges nothing: the oracles live in
checks_c20.py.

usage: python c20_exec.py jobs.json results.json
  jobs:    {"format": [message, ...], "emit": [program, ...], "filter": [{"expr": str, "lines": [str, ...]}, ...],
            "pp": [{"args": [str, ...], "b64": base64 of the bytes on stdin}, ...]}
  results: {"eliot_file": path,
            "format": [{"pretty": str | null, "pretty_exc": str, "compact": str | null, "compact_exc": str}, ...],
            "emit":   [{"lines": [str, ...], "exc": str}, ...],        # the JSON lines written by a FileDestination
            "pp":     [{"rc": 0 | 1, "out_b64": base64 of what was written to stdout, "err": str}, ...],
            "filter": [{"run": str | null, "run_exc": str, "run_text": str | null, "run_text_exc": str, "main": str | null, "main_rc": ..., "main_exc": str}, ...]}
"""
import sys, json, io


def do_format(messages):
    from eliot.prettyprint import pretty_format, compact_format
    res = []
    for m in messages:
        r = {"pretty": None, "pretty_exc": "", "compact": None, "compact_exc": ""}
        for name, fn in (("pretty", pretty_format), ("compact", compact_format)):
            try:
                out = fn(dict(m))
                if not isinstance(out, str):
                    r[name + "_exc"] = "returned %s" % type(out).__name__
                else:
                    r[name] = out
            except Exception as e:
                r[name + "_exc"] = "%s: %s" % (type(e).__name__, e)
        # a history of renderings of ONE dictionary (as a destination fan-out or a viewer would do): the renderers are functions of
        # the message, so the dictionary must come back unchanged and every later rendering must equal the first
        r["rerender"] = ""
        if r["pretty"] is not None and r["compact"] is not None:
            import copy
            d = copy.deepcopy(m)
            try:
                outs = [pretty_format(d), compact_format(d), pretty_format(d), compact_format(d)]
                if d != m:
                    r["rerender"] = "the message was changed by rendering it: %r became %r" % (m, d)
                elif outs != [r["pretty"], r["compact"], r["pretty"], r["compact"]]:
                    r["rerender"] = "renderings of the same message differ: %r" % (outs,)
            except Exception as e:
                r["rerender"] = "re-rendering raised %s: %s" % (type(e).__name__, e)
        res.append(r)
    return res


# ------------------------------------------------------------------------------------------------------------------
# messages produced by real Eliot calls
class AppError(Exception):
    pass


def _raise(kind, text):
    cls = {"ValueError": ValueError, "KeyError": KeyError, "AppError": AppError, "OSError": OSError}.get(kind, RuntimeError)
    raise cls(text)


def run_node(eliot, node):
    kind = node["k"]
    f = node.get("fields", {})
    if kind == "msg":
        eliot.log_message(node["type"], **f)
    elif kind == "untyped":
        eliot.Message.log(**f)
    elif kind == "traceback":
        try:
            _raise(node.get("exc", "ValueError"), node.get("text", "boom"))
        except Exception:
            eliot.write_traceback()
    elif kind == "action":
        try:
            with eliot.start_action(action_type=node["type"], **f) as action:
                for ch in node.get("children", []):
                    run_node(eliot, ch)
                if node.get("fail"):
                    _raise(node["fail"], node.get("text", "boom"))
                action.add_success_fields(**node.get("success", {}))
        except Exception:
            if not node.get("fail"):
                raise
    elif kind == "typed_action":
        AT = eliot.ActionType(node["type"], [eliot.Field(n, lambda v: v, "d") for n in sorted(f)],
                              [eliot.Field(n, lambda v: v, "d") for n in sorted(node.get("success", {}))], "d")
        try:
            with AT(**f) as action:
                for ch in node.get("children", []):
                    run_node(eliot, ch)
                if node.get("fail"):
                    _raise(node["fail"], node.get("text", "boom"))
                action.add_success_fields(**node.get("success", {}))
        except Exception:
            if not node.get("fail"):
                raise
    elif kind == "typed_msg":
        MT = eliot.MessageType(node["type"], [eliot.Field(n, lambda v: v, "d") for n in sorted(f)], "d")
        MT.log(**f)
    else:
        raise ValueError("unknown node kind %r" % kind)


def do_emit(programs):
    import eliot
    res = []
    for prog in programs:
        buf = io.BytesIO()
        dest = eliot.FileDestination(file=buf)
        eliot.add_destinations(dest)
        exc = ""
        try:
            for node in prog:
                run_node(eliot, node)
        except Exception as e:
            exc = "%s: %s" % (type(e).__name__, e)
        finally:
            eliot.remove_destination(dest)
        res.append({"lines": [l.decode("utf-8") for l in buf.getvalue().split(b"\n") if l], "exc": exc})
    return res


# ------------------------------------------------------------------------------------------------------------------
class FakeSys(object):
    def __init__(self, argv, stdin, stdout, stderr):
        self.argv, self.stdin, self.stdout, self.stderr = argv, stdin, stdout, stderr


def do_filter(jobs):
    from eliot.filter import EliotFilter, main
    res = []
    for j in jobs:
        r = {"run": None, "run_exc": "", "run_text": None, "run_text_exc": "", "main": None, "main_rc": None, "main_exc": ""}
        try:                # the lines as bytes (what the docstring of EliotFilter promises to accept)
            out = io.StringIO()
            EliotFilter(j["expr"], [l.encode("utf-8") for l in j["lines"]], out).run()
            r["run"] = out.getvalue()
        except Exception as e:
            r["run_exc"] = "%s: %s" % (type(e).__name__, e)
        try:                # the lines as text, each with its line break (what iterating over sys.stdin gives)
            out = io.StringIO()
            EliotFilter(j["expr"], [l + chr(10) for l in j["lines"]], out).run()
            r["run_text"] = out.getvalue()
        except Exception as e:
            r["run_text_exc"] = "%s: %s" % (type(e).__name__, e)
        try:
            out, err = io.StringIO(), io.StringIO()
            fake = FakeSys(["eliot.filter", j["expr"]], io.StringIO("".join(l + "\n" for l in j["lines"])), out, err)
            r["main_rc"] = main(fake)
            r["main"] = out.getvalue()
        except Exception as e:
            r["main_exc"] = "%s: %s" % (type(e).__name__, e)
        res.append(r)
    return res


def do_pp(jobs):
    """The eliot-prettyprint entry point (eliot.prettyprint._main), once per job, in this process: sys.argv, sys.stdin and
    sys.stdout are replaced by real text streams over byte buffers and the module eliot.prettyprint is imported afresh,
    so that it binds them whether it looks them up at import time or at call time."""
    import base64, importlib
    res = []
    saved = sys.argv, sys.stdin, sys.stdout
    for j in jobs:
        inbuf, outbuf = io.BytesIO(base64.b64decode(j["b64"])), io.BytesIO()
        win = io.TextIOWrapper(inbuf, encoding="utf-8", errors="surrogateescape")
        wout = io.TextIOWrapper(outbuf, encoding="utf-8", newline="", write_through=True)
        rc, err = 0, ""
        try:
            sys.argv = ["eliot-prettyprint"] + list(j["args"])
            sys.stdin, sys.stdout = win, wout
            sys.modules.pop("eliot.prettyprint", None)
            mod = importlib.import_module("eliot.prettyprint")
            r = mod._main()
            if r not in (None, 0):
                rc, err = 1, "returned %r" % (r,)
        except BaseException as e:
            rc, err = 1, "%s: %s" % (type(e).__name__, e)
        finally:
            sys.argv, sys.stdin, sys.stdout = saved
        try:
            wout.flush()
            data = outbuf.getvalue()
        except ValueError:
            rc, err, data = 1, err or "standard output was closed", b""
        res.append({"rc": rc, "out_b64": base64.b64encode(data).decode("ascii"), "err": err[:600]})
    return res


def main_():
    jobs = json.load(open(sys.argv[1]))
    import eliot
    res = {"eliot_file": eliot.__file__}
    res["emit"] = do_emit(jobs.get("emit", []))
    res["format"] = do_format(jobs.get("format", []))
    res["filter"] = do_filter(jobs.get("filter", []))
    res["pp"] = do_pp(jobs.get("pp", []))
    json.dump(res, open(sys.argv[2], "w"))


if __name__ == "__main__":
    main_()
