"""C10: one valid, faithful JSON line per message.
  protocol half: FileDest.tla (C10_OneWriteThenFlush) with TLC; every write()/flush() a recording file object receives from the real
     FileDestination (binary and text, small and > 8 KiB messages) validated by TLC against FileConcA.tla (Strict); real programs
     logged through a real FileDestination, each line compared with the message offered (engine 1, clause `file:*`); crash runs.
  value half: Json.tla value algebra enumerated by TLC, instantiated on the real path (harness/c10_values.py)."""
import random
from common import *
import engine_eliot, engine_conc, checks_c11


def run(prop, tier):
    rep = Report(prop, tier)
    quick = tier == "quick"
    rep.cov["rule"] = ("cases = (a) sequences of write()/flush() calls received by a recording file object from the real FileDestination, "
                       "(b) real logging programs written to a real JSON file and decoded line by line, (c) child processes killed inside "
                       "destination calls, (d) value terms of Json.tla instantiated with concrete witnesses in binary and text mode; "
                       "distinct = distinct case descriptions; non-trivial per part")
    rep.assumptions = ["decoding oracle: the standard library json module (independent of orjson)", "process death only (no power loss)"]
    try:
        r = run_tlc("FileDest", "MC_FileDest.cfg", timeout=600, workers=8)
        require_ok(r, "MC_FileDest")
        rep.add_tlc("MC_FileDest.cfg", r, {"N": 4})
        if r.violated:
            rep.violation("TLC: %s violated on FileDest.tla" % r.violated, {"engine": "crash", "tlc_tail": r.out[-4000:]})
        # (a) call protocol, single thread and two threads, both modes
        scs = []
        for th in ({"T1": [1, 2, 3, 4]}, {"T1": [1, 2], "T2": [3]}):
            for text in (False, True):
                scs.append({"kind": "filedest", "threads": th, "text": text, "max_pre": 1, "cap": 40 if quick else 400, "random": 0,
                            "seed": SEED, "budget_s": 60})
        results = engine_conc.run_scenarios(scs)
        hs = [(res["scenario"], h) for res in results for h in res["runs"]]
        acc, st = engine_conc.tlc_accepts("FileConcA", "FileConcA.cfg", [h for _, h in hs])
        rep.cov["states"] += st
        rep.cov["transitions"] += st
        for (sc, h), a in zip(hs, acc):
            rep.cov["traces_validated_against_impl"] += 1
            rep.count_case(["protocol", sc["threads"], sc["text"], h["schedule"]], True)
            if a is None:
                raise MachineryFailure("no verdict for a file-call history")
            if a[2] or h["errors"]:
                rep.violation("FileDestination call protocol: %s %s" % (a[2], h["errors"][:1]),
                              {"engine": "conc", "module": "checks_c16", "scenario": sc, "schedule": h["schedule"], "writes": h["ev"]})
        rep.sample({"file_calls": hs[0][1]["ev"]})
        # (b) real programs through a real FileDestination: each line decodes to the message offered
        prof = dict(feat={"typed", "tb", "task", "finish", "ctx", "run", "alog", "succ", "ext", "remote"}, ndest=2, init=[1, 2], maxlen=30,
                    w_fin_ctx=0.0, collide=0.0)
        verdicts, st = engine_eliot.validate(engine_eliot.random_programs(prof, 250 if quick else 5000, SEED + 10))
        rep.cov["states"] += st
        rep.cov["transitions"] += st
        engine_eliot.judge(rep, verdicts, "random-program")
        # (b') one dictionary object offered, changed by its owner, offered again: each line is the dictionary as it was when offered
        here = os.path.dirname(os.path.abspath(__file__))
        p = repo_python([os.path.join(here, "c10_reuse_exec.py"), str(SEED % 100000), "60" if quick else "1500"], timeout=600)
        if p.returncode != 0:
            raise MachineryFailure("c10_reuse_exec failed: " + p.stderr.decode("utf-8", "replace")[-800:])
        reported = False
        for h in json.loads(p.stdout):
            rep.cov["traces_validated_against_impl"] += 1
            rep.count_case(["reuse", h["text"], h["steps"]], True)
            if (h["err"] or h["tail"] or h["got"] != h["expected"]) and not reported:
                reported = True
                k = next((i for i, (a, b) in enumerate(zip(h["got"], h["expected"])) if a != b), min(len(h["got"]), len(h["expected"])))
                rep.violation("one dictionary offered %d times to a FileDestination (%s mode), changed in between (%s): line %d is not the "
                              "dictionary as it was when offered%s" % (len(h["expected"]), "text" if h["text"] else "binary", h["steps"], k + 1,
                                                                        (" [" + h["err"] + "]") if h["err"] else ""),
                              {"engine": "c10reuse", "module": "checks_c10", "history": h})
        # (c) crash runs
        rng = random.Random(SEED + 110)
        cases = checks_c11.crash_cases(tier, rng)
        if quick:
            cases = cases[: len(cases) // 2]
        res = checks_c11.run_cases(cases)
        checks_c11.judge(rep, cases, res, {"C10"}, set())
        # (d) values
        import c10_values
        c10_values.run_values(rep, tier)
    except MachineryFailure as e:
        print("MACHINERY-FAILURE %s: %s" % (prop, e))
        rep.finish()
        return 2
    return rep.finish()


def replay(prop, obj, path):
    if obj.get("engine") == "c10reuse":
        h = obj["history"]
        print("steps %s (%s mode)\nexpected lines: %s\nrecorded lines: %s\n(re-run ./check C10 quick to see whether it still happens)"
              % (h["steps"], "text" if h["text"] else "binary", json.dumps(h["expected"])[:1500], json.dumps(h["got"])[:1500]))
        print("VIOLATION property=%s replay=%s" % (prop, path))
        return 1
    if obj.get("engine") == "json":
        import c10_values
        return c10_values.replay(prop, obj, path)
    if obj.get("engine") == "crash":
        return checks_c11.replay(prop, obj, path)
    print(json.dumps(obj)[:3000])
    print("VIOLATION property=%s replay=%s" % (prop, path))
    return 1
