"""C11 (crash safety) and the protocol half of C10: spec/FileDest.tla (+ broken siblings) with TLC; real child processes logging
through a real FileDestination over real buffered files are killed at every point of every destination call (and at random
times from outside); what they leave behind is validated by TLC against Trace_FileDest.tla and, through the real Parser,
against Trace_Parser.tla."""
import random
from common import *
import engine_eliot, checks_parser

PROFILE = dict(feat={"task", "finish", "ctx", "alog", "tb", "typed", "succ", "ext"}, ndest=1, init=[1], minlen=3, maxlen=12, close=0.5, w_fin_ctx=0.0)
PHASES = ["before_write", "after_write", "after_flush", "after_return"]


def model_check(rep):
    for cfg, label, expect in [("MC_FileDest.cfg", "the code: write, flush, return", None),
                               ("MC_FileDest_skip.cfg", "vacuity guard: flush skipped for some messages", "C11_AckedDurable"),
                               ("MC_FileDest_late.cfg", "vacuity guard: flush after the call returned", "C11_AckedDurable"),
                               ("MC_FileDest_swallow.cfg", "vacuity guard: a failing flush is swallowed and the call returns", "C11_AckedDurable")]:
        r = run_tlc("FileDest", cfg, timeout=600, workers=8, only=expect)
        require_ok(r, cfg)
        rep.add_tlc("%s (%s)" % (cfg, label), r, {"N": 4, "crash": "enabled in every state"}, expect_violation=expect)
        if expect and r.violated != expect:
            raise MachineryFailure("broken sibling %s was not rejected by TLC" % cfg)
        if not expect and r.violated:
            rep.violation("TLC: %s violated on FileDest.tla" % r.violated, {"engine": "crash", "tlc_tail": r.out[-4000:]})


def crash_cases(tier, rng):
    quick = tier == "quick"
    progs = engine_eliot.random_programs(PROFILE, 10 if quick else 120, SEED + 11)
    cases = []
    for p in progs:
        p = {"ops": p["ops"], "wit": p["wit"], "collide": False}
        nmax = 14
        points = [(n, ph) for n in range(1, nmax + 1) for ph in PHASES]
        rng.shuffle(points)
        for (n, ph) in points[: (10 if quick else 40)]:
            cases.append({"program": p, "mode": rng.choice(["binary", "text"]), "kill": [n, ph]})
        for _ in range(3 if quick else 12):
            cases.append({"program": p, "mode": rng.choice(["binary", "text"]), "kill": None, "sleep": 0.0005,
                          "ext_kill_after_s": rng.choice([0.15, 0.2, 0.25, 0.3]) + rng.random() * 0.08})
        cases.append({"program": p, "mode": "binary", "kill": None})
    # a worker process that only continues tasks started elsewhere: several unfinished tasks whose root start is not in this file
    foreign = {"ops": [{"op": "ForeignContinue", "c": 1, "k": 1}, {"op": "ForeignContinue", "c": 1, "k": 2}, {"op": "Enter", "c": 1, "kind": "with", "a": 1},
                       {"op": "Log", "c": 1, "ty": "m"}, {"op": "Enter", "c": 1, "kind": "with", "a": 2}, {"op": "Log", "c": 1, "ty": "m"},
                       {"op": "StartAction", "c": 1, "ty": "A"}, {"op": "Exit", "c": 1, "o": "ok", "kind": "with"}, {"op": "Log", "c": 1, "ty": "m"},
                       {"op": "Exit", "c": 1, "o": "exc", "kind": "with"}, {"op": "Log", "c": 1, "ty": "m"}], "wit": 3, "collide": False}
    for n in range(2, 10):
        cases.append({"program": foreign, "mode": rng.choice(["binary", "text"]), "kill": [n, rng.choice(PHASES)]})
    # a transient I/O fault: the flush of message j raises once (nothing leaves the buffer); the process is killed at the points
    # around the return of that logging call -- an acknowledged message must be in the file all the same
    plain = {"ops": [{"op": "Log", "c": 1, "ty": "m"}, {"op": "StartAction", "c": 1, "ty": "A"}, {"op": "Enter", "c": 1, "kind": "with", "a": 1},
                     {"op": "Log", "c": 1, "ty": "m"}, {"op": "Log", "c": 1, "ty": "m"}, {"op": "Exit", "c": 1, "o": "ok", "kind": "with"},
                     {"op": "Log", "c": 1, "ty": "m"}], "wit": 5, "collide": False}
    for j in (range(1, 6) if not quick else (1, 3, 4)):
        for kill in ([j, "after_return"], [j + 1, "after_return"], [j + 1, "before_write"], [j + 1, "after_write"], [j + 1, "after_flush"],
                     [j + 2, "after_flush"], None):
            cases.append({"program": plain, "mode": rng.choice(["binary", "text"]), "kill": kill, "flush_fault": j})
    return cases


def run_cases(cases):
    d = mktemp("crash_")
    pin, pout = os.path.join(d, "cases.json"), os.path.join(d, "out.json")
    json.dump(cases, open(pin, "w"))
    p = repo_python([os.path.join(HARNESS, "crash_exec.py"), pin, pout], timeout=3000, extra_path=[HARNESS])
    if p.returncode != 0:
        raise MachineryFailure("crash_exec failed: " + p.stderr.decode()[-2500:])
    res = json.load(open(pout))
    if not os.path.realpath(res["eliot_file"]).startswith(os.path.realpath(REPO)):
        raise MachineryFailure("wrong tree executed")
    return res


def judge(rep, cases, res, props_file, props_parse):
    """props_file / props_parse: which property ids own file-level / parse-level clauses for this report."""
    ft = res["file_traces"]
    d = mktemp("ft_")
    f = os.path.join(d, "ft.json")
    json.dump({"traces": ft}, open(f, "w"))
    r = run_tlc("Trace_FileDest", "Trace_FileDest.cfg", env={"TRACE_FILE": f}, timeout=3000)
    require_ok(r, "Trace_FileDest")
    rep.cov["states"] += r.distinct
    rep.cov["transitions"] += r.distinct
    acc = {}
    for t in printed_tuples(r.out, "ACC"):
        # TLC chooses what was not logged (did a write spill? did a flush in progress complete?): accepted if SOME choice explains
        # the observation
        if t[1] not in acc or (t[2] == "" and acc[t[1]][2] != ""):
            acc[t[1]] = t
    ptraces = [t for t in res["parser_traces"] if t]
    pacc = {}
    if ptraces:
        f2 = os.path.join(d, "pt.json")
        json.dump({"traces": ptraces}, open(f2, "w"))
        r2 = run_tlc("Trace_Parser", "Trace_Parser.cfg", env={"TRACE_FILE": f2}, timeout=3000)
        require_ok(r2, "Trace_Parser on crashed logs")
        rep.cov["states"] += r2.distinct
        rep.cov["transitions"] += r2.distinct
        pacc = {t[1]: t for t in printed_tuples(r2.out, "ACC")}
    pi = 0
    killed = 0
    for i, (case, t, m) in enumerate(zip(cases, ft, res["meta"])):
        rep.cov["traces_validated_against_impl"] += 1
        rep.count_case([case["program"]["ops"], case["mode"], case.get("kill"), t["ev"], t["complete"], t["fragment"]], m["rc"] == -9)
        killed += m["rc"] == -9
        if m["rc"] not in (0, -9):
            raise MachineryFailure("crash child failed (rc %s): %s" % (m["rc"], m["stderr"]))
        a = acc.get(i + 1)
        clause = a[2] if a else "file_state_not_a_behaviour_of_FileDest"
        if clause and rep.prop in props_file:
            rep.violation("after the process died the log file contradicts FileDest.tla: %s (pipe events %s; %d complete lines, fragment=%s)" % (
                clause, "".join(t["ev"]), t["complete"], t["fragment"]),
                {"engine": "crash", "module": "checks_c11", "clause": clause, "case": case, "events": t["ev"], "complete": t["complete"],
                 "fragment": t["fragment"]})
        if res["parser_traces"][i] is not None:
            pi += 1
            pa = pacc.get(pi)
            if pa is None:
                raise MachineryFailure("no parser verdict for crash case %d" % i)
            if pa[2] and rep.prop in props_parse:
                rep.violation("parsing the log left by a killed process: %s at line %s" % (pa[2], pa[3]),
                              {"engine": "crash", "module": "checks_c11", "clause": pa[2], "case": case, "complete": t["complete"]})
    rep.cov["children_killed"] = rep.cov.get("children_killed", 0) + killed
    return killed


def run(prop, tier):
    rep = Report(prop, tier)
    rep.cov["rule"] = ("cases = (logging program, file mode, kill point) with kill point = (n-th destination call, before the write / between "
                       "write and flush / after the flush / right after the logging call returned) by self-SIGKILL, or an external SIGKILL at a "
                       "seeded random time; each case is a real child process writing a real buffered file; distinct = distinct (program, mode, "
                       "kill point, observed file state); non-trivial = the child was really killed")
    rep.assumptions = ["process death only: data handed to the kernel survives (no power loss)", "single-threaded logging program",
                       "the child's reports travel over a pipe written with os.write, so they are not lost by the kill"]
    try:
        model_check(rep)
        rng = random.Random(SEED + 111)
        cases = crash_cases(tier, rng)
        res = run_cases(cases)
        killed = judge(rep, cases, res, {"C11", "C10"}, {"C11"})
        if killed < len(cases) // 4:
            raise MachineryFailure("only %d of %d children were killed: kill points are not being reached" % (killed, len(cases)))
        # several threads: no logging call may return before its own line has been flushed (else a crash loses an acknowledged message)
        import engine_conc
        scs = [{"kind": "filedest", "threads": {"T1": [1, 2], "T2": [3, 4]}, "text": text, "max_pre": 2, "cap": 120 if tier == "quick" else 3000,
                "random": 30 if tier == "quick" else 500, "seed": SEED, "budget_s": 60} for text in (False, True)]
        results = engine_conc.run_scenarios(scs)
        hs = [(r_["scenario"], h) for r_ in results for h in r_["runs"]]
        acc, st = engine_conc.tlc_accepts("FileConcA", "FileConcA.cfg", [h for _, h in hs])
        rep.cov["states"] += st
        rep.cov["transitions"] += st
        for (sc, h), a in zip(hs, acc):
            rep.cov["traces_validated_against_impl"] += 1
            rep.count_case(["flush-per-call", sc["text"], h["schedule"]], True)
            if a is None:
                raise MachineryFailure("no verdict for a file-call history")
            if a[2] in ("write_without_flush", "unterminated_line"):
                rep.violation("with two threads logging, a call returned although its line had not been flushed by it (%s): a crash now loses an acknowledged message" % a[2],
                              {"engine": "conc", "module": "checks_c16", "scenario": sc, "schedule": h["schedule"], "writes": h["ev"]})
        rep.sample({"case": {"ops": cases[0]["program"]["ops"], "mode": cases[0]["mode"], "kill": cases[0]["kill"]},
                    "pipe_events": res["file_traces"][0]["ev"], "complete_lines": res["file_traces"][0]["complete"],
                    "fragment": res["file_traces"][0]["fragment"]})
    except MachineryFailure as e:
        print("MACHINERY-FAILURE %s: %s" % (prop, e))
        rep.finish()
        return 2
    return rep.finish()


def replay(prop, obj, path):
    res = run_cases([obj["case"]])
    print(json.dumps(res["file_traces"][0]), json.dumps(res["meta"][0]))
    rep = Report(prop, "quick")
    import io, contextlib
    judge(rep, [obj["case"]], res, {"C11", "C10"}, {"C11"})
    cleanup()
    return 1 if rep.violations else 0
