"""C14: spec/Validate.tla (case analysis of test-time validation + capture_logging machine) bound to the real
MemoryLogger / check_for_errors / validate_logging / capture_logging.

 1. TLC enumerates the case domain of Validate.tla (kind x declared type x conforming base x deviations), checks the
    invariants relating the STATEMENT (violated-rule set) to the transcribed PROCEDURE, and prints one record per case.
 2. every record is instantiated (several witnesses; as a raw dictionary handed to MemoryLogger.write with the type's
    serializer AND, where the public API can produce it, by using the declared type) in subprocesses importing the tree
    under test; MemoryLogger.validate() and check_for_errors() outcomes are compared with the record.
 3. random messages outside the enumerated domain are executed, abstracted into the case vocabulary and validated by
    TLC against the same operators (Trace_Validate.cfg).
 4. TLC explores the capture machine (runs of decorated tests with every outcome and log content), checks its
    invariants and prints one record per run; each is executed on real unittest.TestCase classes by unittest's runner.
"""
import random, math
from concurrent.futures import ThreadPoolExecutor
from common import *

EXEC = os.path.join(HARNESS, "c14_exec.py")
NPROC = max(2, min(14, WORKERS))

CASE_CFGS = {"quick": [("MC_Validate_Quick.cfg", {"MaxFields": 2, "MaxDev": 1, "VaryBase": False}, 2)],
             "thorough": [("MC_Validate_T1.cfg", {"MaxFields": 3, "MaxDev": 1, "VaryBase": False}, 2),
                          ("MC_Validate_T3.cfg", {"MaxFields": 2, "MaxDev": 1, "VaryBase": True}, 3),
                          ("MC_Validate_T2.cfg", {"MaxFields": 2, "MaxDev": 2, "VaryBase": False}, 1)]}
# every public way of writing a typed message (StylesOf in Validate.tla) is executed for each case of these configurations;
# for the others one style per (case, witness), rotating
ALL_STYLES_CFGS = {"MC_Validate_Quick.cfg", "MC_Validate_T3.cfg"}
CAP_CFGS = {"quick": [("MC_Validate_Capture.cfg", {"MaxTests": 2, "RichCapture": True})],
            "thorough": [("MC_Validate_Capture.cfg", {"MaxTests": 2, "RichCapture": True}),
                         ("MC_Validate_Capture3.cfg", {"MaxTests": 3, "RichCapture": False})]}
RANDOM_N = {"quick": 6000, "thorough": 120000}
LIFE_WRITES = ["ok", "missing", "extra", "wrong", "xv", "nonjson", "tb"]
# quick: the write kind "wrong" stands for any deviation reported as ValidationError; its witnesses are drawn from the
# wrong-typed / missing / extra / validator-rejected writes (job flag "mix_ve"); thorough enumerates the kinds separately
LIFE_CFGS = {"quick": [("MC_Validate_Life.cfg", {"MaxSteps": 5, "LifeWrites": ["ok", "wrong", "nonjson", "tb"]}, 2)],
             "thorough": [("MC_Validate_LifeAll.cfg", {"MaxSteps": 5, "LifeWrites": LIFE_WRITES}, 2),
                          ("MC_Validate_Life6.cfg", {"MaxSteps": 6, "LifeWrites": ["ok", "wrong", "nonjson", "tb"]}, 2)]}


def tla_json_lines(out, tag):
    """Values printed by PrintT(tag \\o ToJson(v)): a TLA+ string literal per line."""
    res = []
    pat = '"' + tag
    for line in out.split("\n"):
        i = line.find(pat)
        if i < 0:
            continue
        s = line[i:].strip()
        try:
            res.append(json.loads(json.loads(s)[len(tag):]))
        except ValueError:
            raise MachineryFailure("cannot parse TLC line: %r" % line[:300])
    return res


def run_jobs(jobs, timeout=3000):
    d = mktemp("c14_")

    def one(ij):
        i, job = ij
        pin, pout = os.path.join(d, "job%d.json" % i), os.path.join(d, "out%d.json" % i)
        json.dump(job, open(pin, "w"))
        p = repo_python([EXEC, pin, pout], timeout=timeout, extra_path=[HARNESS])
        if p.returncode != 0:
            raise MachineryFailure("c14_exec failed: " + p.stderr.decode()[-3000:])
        o = json.load(open(pout))
        if not os.path.abspath(o["file"]).startswith(os.path.abspath(REPO) + os.sep):
            raise MachineryFailure("eliot imported from %s, not from %s" % (o["file"], REPO))
        return o
    with ThreadPoolExecutor(max_workers=NPROC) as ex:
        return list(ex.map(one, enumerate(jobs)))


def split(seq, n):
    n = max(1, min(n, len(seq)))
    return [seq[i::n] for i in range(n)]


def matches(exp, obs):
    o = obs.split(":")[0]
    if exp == "REJ":
        return o != "OK"
    return o == exp


def case_key(c):
    return [c["k"], c["flds"], c["vals"], c["extras"], c["tb"]]


def nontrivial_case(c):
    return c["k"] != "untyped" or bool(c["extras"])


def judge_case(case, res):
    """res = [idx, w, via, validate, check, detail] -> None or text of the failing clause"""
    _, w, via, v, c, detail = res
    detail = (detail or "").split("\n")[0][:220]
    if v.startswith("USE-RAISED"):
        if case["exp"] == "OK":
            return "correct use of the declared type raised %s (%s)" % (v, detail)
        return None
    if not matches(case["exp"], v):
        if case["exp"] == "OK":
            return "a conforming message (%s) is rejected by MemoryLogger.validate(): %s" % (via, detail or v)
        if v == "OK":
            return "a deviating message (%s) is accepted by MemoryLogger.validate(); the specification demands %s" % (via, case["exp"])
        return "MemoryLogger.validate() reports %s, the specification demands %s (%s)" % (v, case["exp"], via)
    if not matches(case["chk"], c):
        return "check_for_errors() gives %s, the specification demands %s (%s)" % (c, case["chk"], via)
    return None


def describe(case):
    return "kind=%s fields=%s values=%s undeclared=%s traceback=%s" % (
        case["k"], case["F"], case["vals"], [(e["key"], e["val"]) for e in case["extras"]], case["tb"])


def check_cases(rep, tier, prop):
    total = 0
    for cfg, consts, nwit in CASE_CFGS[tier]:
        r = run_tlc("Validate", cfg, timeout=1500)
        require_ok(r, cfg)
        rep.add_tlc(cfg, r, consts)
        if r.violated:
            rep.violation("TLC: %s violated on Validate.tla (%s): the transcribed procedure and the statement disagree" % (r.violated, cfg),
                          {"engine": "c14", "module": "checks_c14", "kind": "spec", "tlc_tail": r.out[-4000:]})
            continue
        cases = tla_json_lines(r.out, "CASEJ")
        r.out = ""
        nodes = len(set((c["k"], tuple(c["flds"])) for c in cases))
        if not cases or len(cases) + nodes != r.distinct:
            raise MachineryFailure("%s: %d case records for %d distinct states (%d type nodes)" % (cfg, len(cases), r.distinct, nodes))
        for i, c in enumerate(cases):
            c["idx"] = i
        order = list(range(len(cases)))
        random.Random(SEED).shuffle(order)
        jobs = [{"seed": SEED, "nwit": nwit, "cases": [cases[i] for i in part], "all_styles": cfg in ALL_STYLES_CFGS}
                for part in split(order, NPROC * 3)]
        outs = run_jobs(jobs)
        seen, reported = set(), set()
        executed = 0
        for o in outs:
            for res in o["cases"]:
                case = cases[res[0]]
                executed += 1
                seen.add(res[0])
                rep.cov["traces_validated_against_impl"] += 1
                why = judge_case(case, res)
                if why and res[0] not in reported:      # one violation per abstract case
                    reported.add(res[0])
                    rep.violation("%s  [%s; witness %d]" % (why, describe(case), res[1]),
                                  {"engine": "c14", "module": "checks_c14", "kind": "case", "case": case, "w": res[1],
                                   "via": res[2], "observed": res[3:5], "seed": SEED, "nwit": nwit})
        for i, c in enumerate(cases):
            rep.count_case(case_key(c), nontrivial_case(c))
        missing = [i for i in range(len(cases)) if i not in seen and cases[i]["tb"] != "selfflushed"]
        if missing:
            raise MachineryFailure("%s: %d records could not be instantiated, e.g. %s" % (cfg, len(missing), cases[missing[0]]))
        rep.sample({"cfg": cfg, "case": {k: cases[order[0]][k] for k in ("k", "F", "vals", "extras", "tb", "exp", "chk")},
                    "executions": executed})
        total += len(cases)
    return total


def check_random(rep, tier):
    n = RANDOM_N[tier]
    per = int(math.ceil(n / float(NPROC)))
    jobs = [{"seed": SEED, "nwit": 0, "cases": [], "random": per, "random_seed": SEED * 31 + j} for j in range(NPROC)]
    recs = []
    for o in run_jobs(jobs):
        recs.extend(o["recs"])
    d = mktemp("c14tr_")
    B = 20000
    for b in range(0, len(recs), B):
        chunk = recs[b:b + B]
        f = os.path.join(d, "recs.json")
        json.dump({"recs": [{k: r[k] for k in ("k", "F", "vals", "extras", "tb", "validate", "check")} for r in chunk]}, open(f, "w"))
        r = run_tlc("Validate", "Trace_Validate.cfg", env={"TRACE_FILE": f}, timeout=1500)
        require_ok(r, "Trace_Validate")
        rep.cov["states"] += r.distinct
        acc = {t[1]: t for t in printed_tuples(r.out.replace('<< "ACC"', '<<"ACC"'), "ACC")}
        for i, rec in enumerate(chunk):
            if i + 1 not in acc:
                raise MachineryFailure("no verdict for recorded execution %d" % (i + 1))
            rep.cov["traces_validated_against_impl"] += 1
            rep.count_case(["rec"] + case_key(rec), True)
            clause, exp = acc[i + 1][2], acc[i + 1][3]
            if clause:
                obs = rec["validate"] if clause == "validate" else rec["check"]
                rep.violation("recorded execution rejected by Validate.tla: %s gave %s, the specification demands %s [%s; message %s]" % (
                    clause, obs, exp, describe(rec), rec.get("repr", "")),
                    {"engine": "c14", "module": "checks_c14", "kind": "rec", "rec": rec})
    if recs:
        rep.sample({"recorded": {k: recs[0][k] for k in ("k", "F", "vals", "extras", "tb", "validate", "check")}})
    return len(recs)


def judge_cap(run, spec_res, obs):
    """Clauses of the statement only: logger restored; captured during; unflushed tracebacks / invalid messages fail the
    test; a passing test that logged correctly succeeds."""
    bad = []
    for i, (t, s, o) in enumerate(zip(run, spec_res, obs["res"]), 1):
        ev = set(o["events"])
        if o["during"] == "not-run":
            raise MachineryFailure("test %d of run %s did not run" % (i, run))
        if o["before"] != 0:
            bad.append("test %d starts with default logger %r instead of the one from before the run" % (i, o["before"]))
        if o["after"] != s["after"]:
            bad.append("after test %d (%s, outcome %s) the default logger is %r, not the previous one" % (i, t["dec"], t["out"], o["after"]))
        if o["during"] != s["during"]:
            bad.append("during test %d (%s) un-addressed logging went to %r, expected %r" % (i, t["dec"], o["during"], s["during"]))
        for e in ("error:UnflushedTracebacks", "error:ValidationError"):
            if (e in s["events"]) != (e in ev):
                bad.append("test %d (%s, outcome %s, logs %s): %s %s" % (i, t["dec"], t["out"], t["logs"], e,
                                                                        "expected but not reported" if e in s["events"] else "reported unexpectedly"))
        if "success" in s["events"] and "success" not in ev:
            bad.append("test %d (%s, passes, logs %s) is not successful: %s" % (i, t["dec"], t["logs"], sorted(ev)))
        if "success" not in s["events"] and "success" in ev and ("error:UnflushedTracebacks" in s["events"] or "error:ValidationError" in s["events"]):
            bad.append("test %d (%s, logs %s) is reported successful" % (i, t["dec"], t["logs"]))
    if obs["final"] != 0:
        bad.append("after the run the default logger is %r, not the one from before" % (obs["final"],))
    return bad


def check_capture(rep, tier):
    n = 0
    for cfg, consts in CAP_CFGS[tier]:
        r = run_tlc("Validate", cfg, timeout=1500)
        require_ok(r, cfg)
        rep.add_tlc(cfg, r, consts)
        if r.violated:
            rep.violation("TLC: %s violated on the capture machine of Validate.tla (%s)" % (r.violated, cfg),
                          {"engine": "c14", "module": "checks_c14", "kind": "spec", "tlc_tail": r.out[-4000:]})
            continue
        runs = tla_json_lines(r.out, "CAPJ")
        if not runs:
            raise MachineryFailure("%s: no runs printed" % cfg)
        items = []
        for i, x in enumerate(runs):
            inits = ["orig", "other"] if (tier == "thorough" or len(x["run"]) == 1 or i % 2 == 0) else ["orig" if i % 4 == 1 else "other"]
            for init in inits:
                items.append({"i": i, "init": init, "variant": (i * 7 + len(items)) % 6, "run": x["run"]})
        jobs = [{"seed": SEED, "nwit": 0, "cases": [], "caps": part} for part in split(items, NPROC)]
        for o in run_jobs(jobs):
            for obs in o["caps"]:
                x = runs[obs["i"]]
                n += 1
                rep.cov["traces_validated_against_impl"] += 1
                rep.count_case(["cap", x["run"], obs["init"]], True)
                bad = judge_cap(x["run"], x["res"], obs)
                if bad:
                    rep.violation("decorated tests %s (initial default logger: %s): %s" % (
                        [(t["dec"], t["out"], t["logs"]) + (("body calls swap_logger(foreign) and swaps back only if it passes",) if t.get("swap") else ())
                         for t in x["run"]], obs["init"], "; ".join(bad[:3])),
                        {"engine": "c14", "module": "checks_c14", "kind": "cap", "run": x["run"], "res": x["res"],
                         "init": obs["init"], "variant": obs["variant"], "observed": obs})
        rep.sample({"cfg": cfg, "run": runs[-1]["run"], "expected": runs[-1]["res"]})
    return n


def judge_life(hist, obs):
    """Step-by-step comparison of one real MemoryLogger with the lifecycle behaviour; None or (step, text)."""
    ops = [h["op"] for h in hist]
    for n, (h, o) in enumerate(zip(hist, obs), 1):
        exp = h["res"]
        if o.startswith("WRITE-RAISED") or o.startswith("FLUSH-RAISED"):
            if exp != "ANY":
                return n, "step %d (%s) raised: %s" % (n, h["op"], o)
            continue
        if exp in ("-", "ANY"):
            continue
        if h["op"] in ("V", "C"):
            if not matches(exp, o):
                what = "validate()" if h["op"] == "V" else "check_for_errors()"
                since = ops[:n - 1]
                if "R" in since:
                    since = since[len(since) - since[::-1].index("R"):]
                return n, "step %d: %s gives %s, the specification demands %s (written since the last reset(): %s)" % (
                    n, what, o, exp, [x[2:] for x in since if x.startswith("W_")] or "nothing")
        elif h["op"] == "F" and o != exp:
            return n, "step %d: flushTracebacks returned %s messages, the specification demands %s" % (n, o[7:], exp[7:])
    return None


def check_life(rep, tier):
    n = 0
    for cfg, consts, nwit in LIFE_CFGS[tier]:
        r = run_tlc("Validate", cfg, timeout=1500)
        require_ok(r, cfg)
        rep.add_tlc(cfg, r, consts)
        if r.violated:
            rep.violation("TLC: %s violated on the logger lifecycle of Validate.tla (%s)" % (r.violated, cfg),
                          {"engine": "c14", "module": "checks_c14", "kind": "spec", "tlc_tail": r.out[-4000:]})
            continue
        lives = tla_json_lines(r.out, "LIFEJ")
        r.out = ""
        if not lives:
            raise MachineryFailure("%s: no lifecycle behaviours printed" % cfg)
        items = [{"i": i, "hist": h} for i, h in enumerate(lives)]
        jobs = [{"seed": SEED, "nwit": 0, "cases": [], "lives": part, "life_nwit": nwit, "mix_ve": tier == "quick"}
                for part in split(items, NPROC)]
        reported = set()
        for o in run_jobs(jobs):
            for i, w, obs in o["lives"]:
                hist = lives[i]
                n += 1
                rep.cov["traces_validated_against_impl"] += 1
                if len(obs) != len(hist):
                    raise MachineryFailure("lifecycle %d: %d observations for %d steps" % (i, len(obs), len(hist)))
                bad = judge_life(hist, obs)
                if bad and i not in reported:
                    reported.add(i)
                    rep.violation("one MemoryLogger, operations %s: %s" % ([h["op"] for h in hist], bad[1]),
                                  {"engine": "c14", "module": "checks_c14", "kind": "life", "hist": hist, "w": w, "observed": obs,
                                   "seed": SEED, "nwit": nwit, "i": i, "mix_ve": tier == "quick"})
        for h in lives:
            rep.count_case(["life", [x["op"] for x in h]], any(x["op"].startswith("W_") for x in h))
        rep.sample({"cfg": cfg, "lifecycle": lives[len(lives) // 2]}, limit=6)
    return n


def check_vacuity(rep):
    """A deliberately wrong reading of the statement must be refuted by TLC (guards against vacuous invariants)."""
    r = run_tlc("Validate", "MC_Validate_Broken.cfg", timeout=600)
    require_ok(r, "MC_Validate_Broken")
    rep.add_tlc("MC_Validate_Broken.cfg", r, {"MaxFields": 1, "MaxDev": 1}, expect_violation="Broken_EveryExtraIsDeviation")
    if r.violated != "Broken_EveryExtraIsDeviation":
        raise MachineryFailure("vacuity guard: TLC did not refute Broken_EveryExtraIsDeviation")


def run(prop, tier):
    rep = Report(prop, tier)
    rep.cov["rule"] = ("case = (message kind, declared field kinds, value class per declared field or absent, set of undeclared entries "
                       "(key class, JSON-encodable or not), companion traceback) enumerated by TLC from Validate.tla as conforming base + "
                       "deviations; each executed with several concrete witnesses, raw and through the public API of the declared type; "
                       "distinct = distinct abstract case; non-trivial = has a declared type or at least one entry. Capture runs = "
                       "sequences of decorated tests (decorator, outcome, logged content) x initial default logger. Lifecycles = every "
                       "sequence of MaxSteps operations (write conforming / deviating kinds / traceback, validate, check_for_errors, "
                       "reset, flushTracebacks) ending in a validation, replayed on ONE real MemoryLogger and compared step by step.")
    rep.assumptions = ["value classes are represented by the witnesses listed in harness/c14_exec.py",
                       "case analysis: each MemoryLogger is validated once; lifecycles: repeated validation uses fields whose serialization "
                       "is idempotent, and results that depend on validate() having serialized an eliot:traceback message in place are "
                       "left unspecified (ANY) until reset()",
                       "the error class is only demanded when exactly one rule is violated and the class is documented "
                       "(ValidationError / TypeError); otherwise any exception counts as a report"]
    rep.cov["python_oracle_clauses"] = []
    try:
        check_vacuity(rep)
        ncases = check_cases(rep, tier, prop)
        nrec = check_random(rep, tier)
        ncap = check_capture(rep, tier)
        nlife = check_life(rep, tier)
        rep.cov["exhaustive"] = True
        rep.cov["c14"] = {"cases": ncases, "recorded_executions": nrec, "capture_runs": ncap, "logger_lifecycles": nlife}
    except MachineryFailure as e:
        print("MACHINERY-FAILURE %s: %s" % (prop, e))
        rep.finish()
        return 2
    return rep.finish()


def replay(prop, obj, path):
    kind = obj.get("kind")
    if kind == "spec":
        print("replay holds a specification-level counterexample (TLC output), nothing to execute:\n" + obj.get("tlc_tail", "")[-3000:])
        return 1
    if kind == "case":
        case = obj["case"]
        o = run_jobs([{"seed": obj["seed"], "nwit": obj["nwit"], "cases": [case]}])[0]
        bad = 0
        for res in o["cases"]:
            why = judge_case(case, res)
            print("witness %d via %s: validate=%s check=%s  %s" % (res[1], res[2], res[3], res[4], "FAILS: " + why if why else "ok"))
            bad += bool(why)
        print("case: %s; specification: validate=%s check_for_errors=%s" % (describe(case), case["exp"], case["chk"]))
    elif kind == "rec":
        rec = obj["rec"]
        case = dict(rec, exp=None)
        print("recorded execution: %s observed validate=%s check=%s; message %s" % (describe(rec), rec["validate"], rec["check"], rec.get("repr")))
        d = mktemp("c14rp_")
        f = os.path.join(d, "recs.json")
        # re-execute the abstract record with fresh witnesses, then let TLC judge
        o = run_jobs([{"seed": SEED, "nwit": 3, "cases": [dict(rec, idx=0)]}])[0]
        bad = 0
        recs = [dict({k: rec[k] for k in ("k", "F", "vals", "extras", "tb")}, validate=res[3].split(":")[0], check=res[4].split(":")[0])
                for res in o["cases"] if res[2] == "raw"]
        json.dump({"recs": recs}, open(f, "w"))
        r = run_tlc("Validate", "Trace_Validate.cfg", env={"TRACE_FILE": f}, timeout=600)
        require_ok(r, "Trace_Validate")
        for t in printed_tuples(r.out.replace('<< "ACC"', '<<"ACC"'), "ACC"):
            print("re-execution %d: clause %r (specification demands %r)" % (t[1], t[2], t[3]))
            bad += bool(t[2])
    elif kind == "life":
        o = run_jobs([{"seed": obj["seed"], "nwit": 0, "cases": [], "lives": [{"i": obj["i"], "hist": obj["hist"]}], "life_nwit": obj["nwit"],
                       "mix_ve": obj.get("mix_ve", False)}])[0]
        bad = 0
        for i, w, obs in o["lives"]:
            b = judge_life(obj["hist"], obs)
            print("witness %d: %s  %s" % (w, list(zip([h["op"] for h in obj["hist"]], obs)), "FAILS: " + b[1] if b else "ok"))
            bad += bool(b)
        print("specification: %s" % [(h["op"], h["res"]) for h in obj["hist"]])
    elif kind == "cap":
        o = run_jobs([{"seed": SEED, "nwit": 0, "cases": [], "caps": [{"i": 0, "init": obj["init"], "variant": obj["variant"], "run": obj["run"]}]}])[0]
        b = judge_cap(obj["run"], obj["res"], o["caps"][0])
        for line in b:
            print("  " + line)
        print("observed: %s" % json.dumps(o["caps"][0]["res"]))
        bad = len(b)
    else:
        print("unknown replay kind %r" % kind)
        return 2
    if bad:
        print("VIOLATION property=%s replay=%s" % (prop, path))
        return 1
    return 0
