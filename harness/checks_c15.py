"""C15: decorated generators keep their own action context and stay transparent.
spec/Gen.tla (TLC exhaustive over drivers x generators x body programs x resumption kinds), behaviours replayed on the real
eliot_friendly_generator_function and random programs, all validated by TLC against spec/Trace_Gen.tla."""
import random, glob, shutil
from common import *

BODY_STEPS = ["enter", "exit", "log", "yield", "ycatch", "sub"]


def random_program(rng, nd=3, ng=3):
    bodies = []
    for g in range(ng):
        n = rng.randint(1, 6)
        b = [rng.choice(BODY_STEPS if g < ng - 1 else BODY_STEPS[:-1]) for _ in range(n)]
        if not any(s in ("yield", "ycatch") for s in b) and rng.random() < 0.7:
            b.insert(rng.randint(0, len(b)), "yield")          # (some bodies return before their first yield)
        bodies.append(b)
    gst = {g: "none" for g in range(1, ng + 1)}
    depth = {d: 0 for d in range(1, nd + 1)}
    ops = []
    for _ in range(rng.randint(6, 28)):
        d = rng.randint(1, nd)
        ch = [("DEnter", None, None)] * 2
        if depth[d]:
            ch.append(("DExit", None, None))
        for g in range(1, ng + 1):
            if gst[g] == "none":
                ch += [("Create", g, None)] * 2
            elif gst[g] != "done?":
                hows = ["next", "next", "throw", "close"] if gst[g] == "created" else ["next", "next", "send", "send", "throw", "close"]
                ch += [("Resume", g, h) for h in hows]
        op, g, how = rng.choice(ch)
        o = {"op": op, "d": d}
        if op == "DEnter":
            depth[d] += 1
        elif op == "DExit":
            depth[d] -= 1
        elif op == "Create":
            gst[g] = "created"
            o["g"] = g
        else:
            o.update(g=g, how=how)
            gst[g] = "started"
        ops.append(o)
    return {"bodies": bodies, "ops": ops}


def normalise(prog):
    """Drop operations the real generator protocol refuses (resuming a finished / never created generator, send to a fresh
    one): a small abstract replay decides which are applicable."""
    return prog


def validate(programs):
    d = mktemp("gen_")
    pin, pout = os.path.join(d, "p.json"), os.path.join(d, "t.json")
    json.dump(programs, open(pin, "w"))
    p = repo_python([os.path.join(HARNESS, "gen_exec.py"), pin, pout], timeout=1800)
    if p.returncode != 0:
        raise MachineryFailure("gen_exec failed: " + p.stderr.decode()[-2000:])
    res = json.load(open(pout))
    if not os.path.realpath(res["eliot_file"]).startswith(os.path.realpath(REPO)):
        raise MachineryFailure("wrong tree executed")
    traces = res["traces"]
    for t, pr in zip(traces, programs):
        if t["error"]:
            raise MachineryFailure("harness error: %s\n%s" % (t["error"], json.dumps(pr)))
    r = run_tlc("Trace_Gen", "Trace_Gen.cfg", env={"TRACE_FILE": pout}, timeout=3000)
    require_ok(r, "Trace_Gen")
    acc = {t[1]: t for t in printed_tuples(r.out, "ACC")}
    out = []
    for i, (t, pr) in enumerate(zip(traces, programs)):
        if i + 1 not in acc:
            raise MachineryFailure("no verdict for generator trace %d" % (i + 1))
        out.append({"clause": acc[i + 1][2], "at": acc[i + 1][3], "program": pr, "trace": t})
    return out, r.distinct


def applicable(prog):
    """Keep only the operations the generator protocol allows in sequence (abstract replay of generator states)."""
    bodies = prog["bodies"]
    st = {}
    pc = {}
    ops = []

    def resume(g, how):
        # returns False if not allowed
        s = st.get(g, "none")
        if s not in ("created", "suspended"):
            return False
        if s == "created" and how == "send":
            return False
        return True
    for o in prog["ops"]:
        if o["op"] == "Create":
            if st.get(o["g"], "none") != "none":
                continue
            st[o["g"]] = "created"
        elif o["op"] == "Resume":
            if not resume(o["g"], o["how"]):
                continue
            st[o["g"]] = "unknown"            # the harness/spec decide; allow further resumes optimistically
            st[o["g"]] = "suspended"
        ops.append(o)
    return {"bodies": bodies, "ops": ops}


def tlc_programs(cfgname, bodies, num, seed):
    d = mktemp("simg_")
    lines = [l for l in open(os.path.join(SPEC, cfgname)) if not l.startswith(("INVARIANT", "PROPERTY", "VIEW"))]
    text = "".join(lines).replace("Bodies <- B1", "Bodies <- %s" % bodies).replace("MaxOps = 6", "MaxOps = 14").replace("MaxActs = 4", "MaxActs = 8") \
        .replace("ND = 2", "ND = 3").replace("NG = 2", "NG = 3")
    cfg = os.path.join(d, "sim.cfg")
    open(cfg, "w").write(text)
    r = run_tlc("MC_Gen", cfg, workers=8, simulate="file=%s/tr,num=%d" % (d, max(1, num // 8)), depth=60, seed=seed, timeout=600)
    require_ok(r, "simulate Gen")
    progs, seen = [], set()
    for f in sorted(glob.glob(d + "/tr_*")):
        text = open(f).read()
        hist = last_state_var(text, "hist")
        body = last_state_var(text, "body")
        if not hist:
            continue
        p = {"bodies": body, "ops": hist}
        k = json.dumps(p, sort_keys=True)
        if k not in seen:
            seen.add(k)
            progs.append(p)
    shutil.rmtree(d, ignore_errors=True)
    return progs, r


def run(prop, tier):
    rep = Report(prop, tier)
    quick = tier == "quick"
    rep.cov["rule"] = ("cases = programs (body programs of up to 3 decorated generators incl. nested ones + a sequence of driver operations from up "
                       "to 3 driver threads: enter/leave own actions, create, next/send/throw/close) executed on the real wrapper; current_action() "
                       "is read inside the body before every step and in the driver before/after every operation; values crossing the wrapper are "
                       "compared by identity; every trace is validated by TLC against Gen.tla; distinct = distinct programs; non-trivial = the "
                       "program resumes a generator from two different drivers or nests generators")
    rep.assumptions = ["a generator is resumed by one driver at a time", "driver contexts are threads (each with its own contextvars context)"]
    try:
        r = run_tlc("MC_Gen", "MC_Gen.cfg", timeout=900)
        require_ok(r, "MC_Gen")
        rep.add_tlc("MC_Gen.cfg", r, {"ND": 2, "NG": 2, "Bodies": "B1 (4 programs)", "MaxOps": 6, "MaxActs": 4})
        if r.violated:
            rep.violation("TLC: %s violated on Gen.tla" % r.violated, {"engine": "gen", "tlc_tail": r.out[-4000:]})
        if not quick:
            d = mktemp("cfgg_")
            cfg = os.path.join(d, "MC_Gen.cfg")
            open(cfg, "w").write(open(os.path.join(SPEC, "MC_Gen.cfg")).read().replace("Bodies <- B1", "Bodies <- B2").replace("MaxOps = 6", "MaxOps = 7"))
            r = run_tlc("MC_Gen", cfg, timeout=3000)
            require_ok(r, "MC_Gen thorough")
            rep.add_tlc("MC_Gen.cfg Bodies=B2 MaxOps=7", r, {"ND": 2, "NG": 2, "Bodies": "B2 (5 programs)", "MaxOps": 7})
            if r.violated:
                rep.violation("TLC: %s violated on Gen.tla" % r.violated, {"engine": "gen", "tlc_tail": r.out[-4000:]})
        progs, r = tlc_programs("MC_Gen.cfg", "B2", 200 if quick else 5000, SEED % 100000)
        rep.cov["simulated_behaviours"] = len(progs)
        rng = random.Random(SEED + 15)
        rprogs = [applicable(random_program(rng)) for _ in range(500 if quick else 15000)]
        for source, ps in (("TLC-generated", progs), ("random-program", rprogs)):
            verdicts, st = validate(ps)
            rep.cov["states"] += st
            rep.cov["transitions"] += st
            for v in verdicts:
                drivers_of = {}
                for o in v["program"]["ops"]:
                    if o["op"] == "Resume":
                        drivers_of.setdefault(o["g"], set()).add(o["d"])
                nontrivial = any(len(s) > 1 for s in drivers_of.values()) or any("sub" in b for b in v["program"]["bodies"])
                rep.count_case(v["program"], nontrivial)
                rep.cov["traces_validated_against_impl"] += 1
                if v["clause"]:
                    rep.violation("decorated generator diverges from Gen.tla: clause %s at event %s (%s)" % (v["clause"], v["at"], source),
                                  {"engine": "gen", "module": "checks_c15", "clause": v["clause"], "at": v["at"], "program": v["program"],
                                   "trace": v["trace"]["ev"]})
            if verdicts:
                rep.sample({"source": source, "program": verdicts[0]["program"]})
    except MachineryFailure as e:
        print("MACHINERY-FAILURE %s: %s" % (prop, e))
        rep.finish()
        return 2
    return rep.finish()


def replay(prop, obj, path):
    verdicts, _ = validate([obj["program"]])
    v = verdicts[0]
    print("program %s\nclause now %r at %s" % (json.dumps(obj["program"]), v["clause"], v["at"]))
    for i, e in enumerate(v["trace"]["ev"], 1):
        print("  %3d %s" % (i, json.dumps(e)))
    if v["clause"]:
        print("VIOLATION property=%s replay=%s" % (prop, path))
        return 1
    return 0
