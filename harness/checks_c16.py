"""C16: MemoryLogger and FileDestination under concurrent use.
  level B (design, TLC exhaustive): spec/MemLogB.tla with the lock, and its broken sibling (lock removed) which TLC must reject;
  level A (observable, TLC trace validation): spec/MemLogA.tla (linearizability of recorded histories of REAL threads whose
  line-level interleavings are enumerated by harness/sched.py) and spec/FileConcA.tla (lines never torn/merged/dropped)."""
import random
from common import *
from engine_conc import *

W = lambda i, ser=1: {"op": "write", "id": i, "ser": ser}
TB = lambda i, c: {"op": "write", "id": i, "ser": 3, "tb": c}
MEMLOG = [
    {"T1": [W(1, 1)], "T2": [W(2, 2)]},
    {"T1": [W(1, 1), W(2, 2)], "T2": [W(3, 2), W(4, 1)]},
    {"T1": [W(1, 1), {"op": "serialize"}], "T2": [W(2, 2), {"op": "validate"}]},
    {"T1": [W(1, 1), {"op": "validate"}], "T2": [{"op": "serialize"}, W(2, 2)]},
    {"T1": [W(1, 1), {"op": "reset"}], "T2": [W(2, 2), {"op": "serialize"}]},
    {"T1": [TB(1, 1), {"op": "flush", "classes": [1]}], "T2": [TB(2, 2), W(3, 1)]},
    {"T1": [TB(1, 1), TB(2, 2)], "T2": [{"op": "flush", "classes": [1, 2]}, {"op": "reset"}]},
    {"T1": [W(1, 1)], "T2": [W(2, 2)], "T3": [{"op": "serialize"}, W(3, 1)]},
    {"T1": [TB(1, 2)], "T2": [{"op": "flush", "classes": [2]}], "T3": [{"op": "reset"}, W(2, 2)]},
    # a method that raises (validate() on a message lacking a declared field), then the same thread writes again
    {"T1": [dict(W(1, 1), bad=True), {"op": "validate"}, W(2, 1)], "T2": [W(3, 2)]},
    {"T1": [{"op": "validate"}, W(2, 2), W(4, 1)], "T2": [dict(W(1, 1), bad=True), W(3, 2)]},
]
FILES = [{"T1": [1], "T2": [2]}, {"T1": [1, 2], "T2": [3]}, {"T1": [1], "T2": [2], "T3": [3, 4]}]


def run(prop, tier):
    rep = Report(prop, tier)
    rep.cov["rule"] = ("cases = complete schedules (thread chosen before every source line of eliot/_output.py and every harness file call) of "
                       "2-3 real threads calling write/validate/serialize/flush_tracebacks/reset on one MemoryLogger, or writing through one "
                       "FileDestination; all schedules with <= k pre-emptions up to a cap, then seeded random ones; each recorded history is "
                       "validated by TLC against the level-A specification; distinct = distinct schedules; non-trivial = at least one context switch")
    rep.assumptions = ["a single file.write() call is atomic for the file object (harness file; true of BufferedWriter/TextIOWrapper under their locks/GIL)",
                       "yield points are source-line boundaries inside eliot/_output.py plus calls into harness objects",
                       "the cooperative lock substituted for MemoryLogger._lock has threading.Lock semantics"]
    quick = tier == "quick"
    try:
        r = run_tlc("MC_MemLogB", "MC_MemLogB.cfg", timeout=600)
        require_ok(r, "MC_MemLogB")
        rep.add_tlc("MC_MemLogB.cfg (level B, lock in place)", r, {"NT": 2, "Locked": True})
        if r.violated:
            rep.violation("TLC: %s violated on MemLogB.tla" % r.violated, {"engine": "conc", "tlc_tail": r.out[-4000:]})
        r = run_tlc("MC_MemLogB", "MC_MemLogB_broken.cfg", timeout=600, only="C16_Paired")
        require_ok(r, "MC_MemLogB_broken")
        rep.add_tlc("MC_MemLogB_broken.cfg (vacuity guard: lock removed)", r, {"NT": 2, "Locked": False}, expect_violation="C16_Paired")
        if r.violated != "C16_Paired":
            raise MachineryFailure("broken sibling of MemLogB was not rejected by TLC")
        scs = []
        rng = random.Random(SEED)
        for th in MEMLOG:
            three = len(th) == 3
            scs.append({"kind": "memlog", "threads": th, "max_pre": (1 if quick or three else 2), "cap": 260 if quick else 6000,
                        "random": 60 if quick else 1500, "seed": rng.randint(0, 10 ** 9), "budget_s": 60 if quick else 400})
        for th in FILES:
            for text in (False, True):
                scs.append({"kind": "filedest", "threads": th, "text": text, "max_pre": 2, "cap": 150 if quick else 3000,
                            "random": 30 if quick else 500, "seed": rng.randint(0, 10 ** 9), "budget_s": 60 if quick else 300})
        results = run_scenarios(scs)
        mem, fil = [], []
        for res in results:
            for run_ in res["runs"]:
                (mem if res["scenario"]["kind"] == "memlog" else fil).append((res["scenario"], run_))
        rep.cov["exhaustive_scenarios"] = sum(1 for r_ in results if r_["exhaustive"])
        # Python-level observations first
        for sc, h in mem + fil:
            switches = sum(1 for a, b in zip(h["schedule"], h["schedule"][1:]) if a != b)
            rep.count_case([sc["threads"], h["schedule"]], switches >= 1)
            if h["errors"]:
                rep.violation("a logger call raised under concurrency: %s" % h["errors"][:2],
                              {"engine": "conc", "module": "checks_c16", "scenario": sc, "schedule": h["schedule"]})
        for sc, h in mem:
            if not h["pair_ok"]:
                rep.violation("MemoryLogger.messages and .serializers are out of step after the threads joined",
                              {"engine": "conc", "module": "checks_c16", "scenario": sc, "schedule": h["schedule"], "final": h["final"]})
        acc, st = tlc_accepts("MemLogA", "MemLogA.cfg", [h for _, h in mem])
        rep.cov["states"] += st
        rep.cov["transitions"] += st
        for (sc, h), a in zip(mem, acc):
            rep.cov["traces_validated_against_impl"] += 1
            if a is None and h["pair_ok"] and not h["errors"]:
                rep.violation("history of a real MemoryLogger is not linearizable w.r.t. the atomic logger (MemLogA.tla)",
                              {"engine": "conc", "module": "checks_c16", "scenario": sc, "schedule": h["schedule"], "history": h["ev"], "final": h["final"]})
        acc, st = tlc_accepts("FileConcA", "FileConcA_loose.cfg", [h for _, h in fil])
        rep.cov["states"] += st
        rep.cov["transitions"] += st
        for (sc, h), a in zip(fil, acc):
            rep.cov["traces_validated_against_impl"] += 1
            if a is None:
                raise MachineryFailure("no verdict for a file history")
            if a[2]:
                rep.violation("file output under concurrency: %s" % a[2],
                              {"engine": "conc", "module": "checks_c16", "scenario": sc, "schedule": h["schedule"], "writes": h["ev"]})
        if mem:
            rep.sample({"scenario": mem[0][0]["threads"], "schedule_len": len(mem[0][1]["schedule"]), "history": mem[0][1]["ev"]})
        if fil:
            rep.sample({"scenario": fil[-1][0]["threads"], "writes": fil[-1][1]["ev"]})
    except MachineryFailure as e:
        print("MACHINERY-FAILURE %s: %s" % (prop, e))
        rep.finish()
        return 2
    return rep.finish()


def replay(prop, obj, path):
    import engine_conc
    return engine_conc.replay(prop, obj, path)
