"""C17: spec/Helpers.tla (+ MC_Helpers, Trace_Helpers) bound to the real eliot.testing helpers and eliot.parse.Parser.

  * TLC generates the bounded universe of captured lists inside TLA+ (MC_Helpers: a grammar of logging programs, plus
    every prefix of hand-written lists) and checks the C17 invariants on each (helper transcription = tree implied by
    the task levels = tree of the transcribed parser; pre-order; assert helpers' exact success condition).
  * spec -> code: every enumerated list is printed with the specification's predictions, turned into real message
    dictionaries, and given to the real LoggedAction / LoggedMessage / assertHasAction / assertHasMessage and the real
    Parser (c17_exec.py, in a subprocess importing $VERIF_REPO); the projections must equal the predictions.
  * code -> spec: seeded random logging programs run on the real library into one MemoryLogger; the captured list and
    the real helpers' answers are validated by TLC against Trace_Helpers.tla, which names the failing clause.
"""
import random, re
from concurrent.futures import ThreadPoolExecutor
from common import *

EXEC = os.path.join(HARNESS, "c17_exec.py")
BASE = dict(MaxMsgs=5, MaxMsgsR=5, MaxDepth=3, MaxTasks=2, MaxResv=1, ActTypes='{"A", "B"}', MsgTypes='{"m", "A"}', EarlyFinish="TRUE",
            Stack="FALSE", Mode='"gen"', Emit="TRUE", Broken=0)
M_ONLY = '{"m"}'
JAVA_STACK = "-Xss64m"        # the transcriptions are recursive scans; long captured lists need a deeper Java stack
GEN = {
    "quick": [
        ("hand", dict(Mode='"hand"')),
        ("free4", dict(MaxMsgs=4, MaxMsgsR=4)),
        ("stack6", dict(MaxMsgs=6, MaxMsgsR=5, Stack="TRUE", MaxTasks=1, MsgTypes=M_ONLY)),
    ],
    "thorough": [
        ("hand", dict(Mode='"hand"')),
        ("free4", dict(MaxMsgs=4, MaxMsgsR=4)),
        ("free5", dict(MaxMsgs=5, MaxMsgsR=5, MsgTypes=M_ONLY)),
        ("stack6x2", dict(MaxMsgs=6, MaxMsgsR=6, Stack="TRUE", MaxTasks=2, MsgTypes=M_ONLY, MaxResv=0)),
        ("stack7", dict(MaxMsgs=7, MaxMsgsR=7, Stack="TRUE", MaxTasks=1, MsgTypes=M_ONLY)),
    ],
}
# deliberately false claims TLC must refute (vacuity guards of the universe / of the invariants)
GUARDS = [("hand", 1, "a late remote sub-task is listed after its younger siblings"),
          ("hand", 2, "of_type raises for unfinished actions"),
          ("hand", 3, "interleaved tasks with equal-typed ancestor and descendant exist"),
          ("hand", 4, "of_type restricted to top-level actions differs from of_type")]
PROGRAMS = {"quick": [("mixed", 400, 14), ("wide", 40, 60), ("fan", 25, 3), ("blocks", 200, 12)],
            "thorough": [("mixed", 6000, 16), ("wide", 500, 90), ("fan", 300, 3), ("blocks", 2000, 14), ("deep", 1000, 24)]}


def make_cfg(over):
    c = dict(BASE)
    c.update(over)
    d = mktemp("c17cfg_")
    path = os.path.join(d, "MC_Helpers.cfg")
    text = open(os.path.join(SPEC, "MC_Helpers.cfg")).read()
    for k, v in c.items():
        text, n = re.subn(r"(?m)^  %s = .*$" % k, "  %s = %s" % (k, v), text)
        if n != 1:
            raise MachineryFailure("MC_Helpers.cfg: constant %s not found" % k)
    open(path, "w").write(text)
    return path, c


def emitted(out, distinct):
    """The JSON predictions TLC printed (one TLA+ string per distinct state with a non-empty list)."""
    res, seen, n = [], set(), 0
    for line in out.splitlines():
        if line.startswith('"{') and line.endswith('}"'):
            n += 1
            try:
                p = json.loads(line[1:-1].replace('\\"', '"').replace("\\\\", "\\"))
            except ValueError:
                raise MachineryFailure("unreadable prediction line: %s" % line[:200])
            key = json.dumps(p["S"])
            if key not in seen:
                seen.add(key)
                res.append(p)
    if n != distinct - 1:
        raise MachineryFailure("TLC found %d distinct states but %d prediction lines were read" % (distinct, n))
    return res


def tlc_universe(name, over, workers):
    cfg, consts = make_cfg(over)
    r = run_tlc("MC_Helpers", cfg, workers=workers, timeout=1500, env={"JAVA_TOOL_OPTIONS": JAVA_STACK})
    require_ok(r, "MC_Helpers " + name)
    return name, consts, r, ([] if r.violated or over.get("Emit") == "FALSE" else emitted(r.out, r.distinct))


def _subprocess(mode, payload):
    d = mktemp("c17x_")
    pin, pout = os.path.join(d, "in.json"), os.path.join(d, "out.json")
    json.dump(payload, open(pin, "w"))
    p = repo_python([EXEC, mode, pin, pout], timeout=3000, extra_path=[HARNESS])
    if p.returncode != 0:
        raise MachineryFailure("c17_exec %s failed: %s" % (mode, p.stderr.decode()[-2500:]))
    res = json.load(open(pout))
    if not os.path.realpath(res["file"]).startswith(os.path.realpath(REPO) + os.sep):
        raise MachineryFailure("eliot imported from %s, not from %s" % (res["file"], REPO))
    shutil.rmtree(d, ignore_errors=True)
    return res["obs"]


def _parallel(mode, key, items, chunk):
    chunks = [items[i:i + chunk] for i in range(0, len(items), chunk)]
    with ThreadPoolExecutor(max_workers=max(2, WORKERS // 2)) as ex:
        parts = list(ex.map(lambda c: _subprocess(mode, {key: c}), chunks))
    return [o for part in parts for o in part]


def exec_lists(preds):
    cases = [{"S": p["S"], "types": [t[0] for t in p["T"]], "aa": [q[:4] for q in p["aa"]], "am": [q[:2] for q in p["am"]]} for p in preds]
    return _parallel("lists", "lists", cases, 1500)


def exec_programs(progs):
    return _parallel("programs", "programs", progs, 300)


def compare(pred, obs):
    """First clause on which the real code's answers differ from the specification's predictions ('' if none)."""
    if len(obs["types"]) != len(pred["T"]) or len(obs["aa"]) != len(pred["aa"]) or len(obs["am"]) != len(pred["am"]):
        raise MachineryFailure("answers do not line up with the questions")
    for (ty, err, acts, ptrees, desc, tt, msgs), o in zip(pred["T"], obs["types"]):
        if o["notes"]:
            return "py:%s" % o["notes"][0], ty
        if o["msgs"] != msgs:
            return "message_of_type", ty
        if err:
            continue                                    # documented ValueError: nothing more is required
        if o["err"]:
            return "of_type:raised_for_finished_actions(%s)" % o.get("exc", ""), ty
        if len(o["acts"]) != len(acts):
            return "of_type:number_of_entries", ty
        if [a["s"] for a in o["acts"]] != [a["s"] for a in acts]:
            return "of_type:order_or_start_message", ty
        if [a["e"] for a in o["acts"]] != [a["e"] for a in acts]:
            return "of_type:end_message", ty
        if [a["ok"] for a in o["acts"]] != [a["ok"] for a in acts]:
            return "succeeded", ty
        if o["acts"] != acts:
            return "of_type:children", ty
        if o["ptrees"] != (acts if ptrees == ["same"] else ptrees):
            return "parser_tree", ty
        if o["desc"] != desc:
            return "descendants", ty
        if o["tt"] != tt:
            return "type_tree", ty
    for q, o in zip(pred["aa"], obs["aa"]):
        if q[4] == "err":
            continue
        if o["r"]["out"] != q[4]:
            return "assertHasAction:%s_expected" % q[4], q[:4]
        if o["r"]["ret"] != q[5]:
            return "assertHasAction:returned_entry", q[:4]
    for q, o in zip(pred["am"], obs["am"]):
        if o["r"]["out"] != q[2]:
            return "assertHasMessage:%s_expected" % q[2], q[:2]
        if o["r"]["ret"] != q[3]:
            return "assertHasMessage:returned_entry", q[:2]
    return "", None


def validate_traces(obs_list, batch=1500):
    """TLC judges recorded answers of the real code (Trace_Helpers.tla): [(clause, obs)]."""
    res, states = [], 0
    d = mktemp("c17t_")
    for b in range(0, len(obs_list), batch):
        chunk = obs_list[b:b + batch]
        f = os.path.join(d, "traces_%d.json" % b)
        json.dump({"traces": [_for_tlc(o) for o in chunk]}, open(f, "w"))
        r = run_tlc("Trace_Helpers", "Trace_Helpers.cfg", env={"TRACE_FILE": f, "JAVA_TOOL_OPTIONS": JAVA_STACK}, timeout=3000)
        require_ok(r, "Trace_Helpers")
        states += r.distinct
        acc = {t[1]: t[2] for t in printed_tuples(r.out, "ACC")}
        for i, o in enumerate(chunk):
            if i + 1 not in acc:
                raise MachineryFailure("no verdict for trace %d" % (b + i + 1))
            res.append((acc[i + 1], o))
    return res, states


def _for_tlc(o):
    """None ('do not check') is what the helpers document as the empty expectation; JSON null is avoided."""
    o = dict(o)
    o["aa"] = [{"q": [q["q"][0], q["q"][1], q["q"][2] or {}, q["q"][3] or {}], "r": q["r"]} for q in o["aa"]]
    o["am"] = [{"q": [q["q"][0], q["q"][1] or {}], "r": q["r"]} for q in o["am"]]
    o.pop("untyped", None)
    return o


# ---------------------------------------------------------------------------------------
# seeded random logging programs (well-formed uses of the public API; nothing about the output)
class ProgGen:
    def __init__(self, rng, kind, size):
        self.r, self.kind, self.size = rng, kind, size
        self.nh = 0
        self.open = []          # handles of unfinished actions, finishable by an explicit op
        self.blocks = []        # handles of enclosing `with` blocks (unfinished, finished by leaving the block)
        self.ids = []
        self.nid = 0
        self.budget = size
        self.aty = ["A", "B", "C"] if kind != "deep" else ["A"]
        self.mty = ["m", "n", "A"]

    def h(self):
        self.nh += 1
        return self.nh

    def targets(self):
        return self.open + self.blocks

    def op(self, depth):
        r, k = self.r, self.kind
        ch = []
        t = self.targets()
        w_log = 6 if k == "wide" else 3
        if len(self.open) < (2 if k == "wide" else 4) and k != "blocks":
            ch.append((1.5, "task"))
        if t:
            ch += [(3 if k != "wide" else 1.5, "child"), (w_log, "log"), (0.7, "reserve")]
        if self.open:
            ch.append((2.5 if k != "wide" else 0.6, "finish"))
        if self.ids:
            ch.append((1.5, "continue"))
        ch.append((0.5, "ctxless" if not self.blocks else "cur"))
        if depth < (4 if k in ("blocks", "deep") else 2):
            ch.append((3.0 if k in ("blocks", "deep") else 0.8, "block"))
        tot = sum(w for w, _ in ch)
        x = r.random() * tot
        for w, name in ch:
            x -= w
            if x <= 0:
                break
        self.budget -= 1
        if name == "task":
            h = self.h()
            self.open.append(h)
            return {"op": "task", "h": h, "ty": r.choice(self.aty), "c": r.random() < 0.7}
        if name == "child":
            h = self.h()
            p = r.choice(t)
            self.open.append(h)
            return {"op": "child", "h": h, "p": p, "ty": r.choice(self.aty), "c": r.random() < 0.7}
        if name == "log":
            return {"op": "log", "h": r.choice(t), "ty": r.choice(self.mty), "how": r.choice(["alog", "ctx", "ctx", "alog", "tb"]),
                    "c": r.random() < 0.7}
        if name in ("ctxless", "cur"):
            return {"op": name, "ty": r.choice(self.mty), "c": r.random() < 0.7}
        if name == "finish":
            h = r.choice(self.open)
            self.open.remove(h)
            return {"op": "finish", "h": h, "ok": r.random() < 0.6, "how": r.choice(["finish", "with"]), "c": r.random() < 0.7}
        if name == "reserve":
            self.nid += 1
            self.ids.append(self.nid)
            return {"op": "reserve", "r": self.nid, "h": r.choice(t)}
        if name == "continue":
            i = r.choice(self.ids)
            self.ids.remove(i)
            h = self.h()
            self.open.append(h)
            return {"op": "continue", "h": h, "r": i}
        # a real `with start_action(...)` block
        h = self.h()
        self.blocks.append(h)
        body = []
        n = r.randint(0, 5)
        inner_escapes = False
        while n > 0 and self.budget > 0:
            body.append(self.op(depth + 1))
            n -= 1
            if body[-1].get("esc"):                    # an exception comes out of that block: the rest of this body never runs
                inner_escapes = True
                break
        self.blocks.remove(h)
        rs = r.random() < 0.3
        catch = r.random() < 0.6
        return {"op": "block", "h": h, "ty": r.choice(self.aty), "body": body, "raise": rs, "catch": catch,
                "esc": (rs or inner_escapes) and not catch, "c": r.random() < 0.7}

    def fan(self):
        """One action with 20-35 direct children (messages and short child actions): positions with two digits."""
        r = self.r
        ops = [{"op": "task", "h": 1, "ty": "A", "c": True}]
        top = 1
        self.nh = 1
        if r.random() < 0.5:                            # ... or one level down
            ops.append({"op": "child", "h": 2, "p": 1, "ty": r.choice(self.aty), "c": True})
            top, self.nh = 2, 2
        for _ in range(r.randint(20, 35)):
            if r.random() < 0.3:
                h = self.h()
                ops.append({"op": "child", "h": h, "p": top, "ty": r.choice(self.aty), "c": True})
                for _ in range(r.randint(0, 2)):
                    ops.append({"op": "log", "h": h, "ty": r.choice(self.mty), "how": "alog", "c": True})
                    if r.random() < 0.4:
                        g = self.h()
                        ops += [{"op": "child", "h": g, "p": h, "ty": r.choice(self.aty), "c": True},
                                {"op": "finish", "h": g, "ok": r.random() < 0.6, "how": "finish", "c": True}]
                ops.append({"op": "finish", "h": h, "ok": r.random() < 0.6, "how": r.choice(["finish", "with"]), "c": True})
            else:
                ops.append({"op": "log", "h": top, "ty": r.choice(self.mty), "how": r.choice(["alog", "ctx"]), "c": True})
        for h in range(top, 0, -1):
            ops.append({"op": "finish", "h": h, "ok": r.random() < 0.6, "how": "finish", "c": True})
        return ops

    def program(self):
        if self.kind == "fan":
            return self.fan()
        ops = []
        while self.budget > 0:
            ops.append(self.op(0))
        if self.r.random() < 0.75:                     # otherwise: a capture taken while actions are still running
            while self.open:
                h = self.r.choice(self.open)
                self.open.remove(h)
                ops.append({"op": "finish", "h": h, "ok": self.r.random() < 0.6, "how": "finish", "c": True})
            for i in list(self.ids):
                if self.r.random() < 0.5:
                    h = self.h()
                    ops += [{"op": "continue", "h": h, "r": i}, {"op": "finish", "h": h, "ok": True, "how": "with", "c": True}]
        return ops


def random_programs(tier):
    rng = random.Random(SEED + 17)
    progs = []
    for kind, n, size in PROGRAMS[tier]:
        for _ in range(n):
            g = ProgGen(random.Random(rng.randint(0, 10 ** 9)), kind, rng.randint(3, size))
            progs.append({"module": "checks_c17", "engine": "helpers-tla", "kind": kind, "ops": g.program(), "seed": rng.randint(0, 10 ** 9)})
    return progs


def nontrivial_list(S):
    """At least one action with a child, i.e. a tree to rebuild."""
    return any(len(m[1] if isinstance(m, list) else m["lv"]) >= 2 for m in S)


# ---------------------------------------------------------------------------------------
def run(prop, tier):
    rep = Report(prop, tier)
    rep.cov["rule"] = ("(a) captured lists enumerated by TLC inside MC_Helpers.tla (grammar of logging programs: any/innermost open "
                       "action starts a child, logs, finishes ok/failed, reserves a position, a reserved position is continued as a "
                       "remote sub-task; tasks interleave; every prefix of 6 hand-written lists with two-digit positions etc.), each "
                       "given to the real helpers and parser and compared with the specification's printed predictions; (b) lists "
                       "captured by a MemoryLogger from seeded random programs on the real library, real answers judged by TLC "
                       "(Trace_Helpers.tla). distinct = distinct captured list; non-trivial = contains at least one action with a child")
    rep.assumptions = ["the captured list holds every message of its tasks up to the moment of capture, from one logger, in emission order",
                       "sibling order of an entry is emission order; it coincides with the parser's level order except for a remote "
                       "sub-task started after its parent went on logging (checked separately: C17_SameAsParser)",
                       "when of_type's documented ValueError is predicted (an action of the type, or one below it, has no end "
                       "message in the list) nothing further is required of of_type/assertHasAction for that type"]
    rep.cov["python_oracle_clauses"] = ["descendants() yields the very nodes of the returned tree (object equality with a pre-order walk)",
                                        "start_message/end_message aliases equal startMessage/endMessage",
                                        "ActionType/MessageType objects select the same entries as their names"]
    try:
        # ---- everything runs side by side: one job per TLC universe (TLC, then the real code on its lists, then TLC's
        # verdict on a sample of the recorded answers), the vacuity guards, and the programs (real library, then TLC)
        jobs = GEN[tier]
        guards = GUARDS if tier == "thorough" else [GUARDS[0], GUARDS[3]]
        sample = 250 if tier == "quick" else 2000
        progs = random_programs(tier)

        def universe_job(name, over):
            name, consts, r, ps = tlc_universe(name, over, max(4, WORKERS // 2))
            if r.violated:
                return name, consts, r, [], []
            if not ps:
                raise MachineryFailure("MC_Helpers %s printed no predictions" % name)
            for p in ps:
                p["cfg"] = name
            return name, consts, r, ps, exec_lists(ps)

        def program_job():
            pobs = exec_programs(progs)
            return (pobs,) + validate_traces(pobs)

        with ThreadPoolExecutor(max_workers=len(jobs) + len(guards) + 1) as ex:
            pfut = ex.submit(program_job)
            futs = [ex.submit(universe_job, name, over) for name, over in sorted(jobs, key=lambda j: -j[1].get("MaxMsgs", 0))]
            gfuts = [ex.submit(tlc_universe, "guard%d" % b, dict(Mode='"hand"', Emit="FALSE", Broken=b), 2) for (_, b, _) in guards]
            results = [f.result() for f in futs]
            gres = [f.result() for f in gfuts]
            pobs, verdicts, st2 = pfut.result()
        for (_, b, what), (name, consts, r, _) in zip(guards, gres):
            rep.add_tlc("MC_Helpers %s" % name, r, {"Mode": "hand", "Broken": b}, expect_violation="BrokenClaim")
            if r.violated != "BrokenClaim":
                raise MachineryFailure("vacuity guard %d (%s) was not refuted by TLC" % (b, what))
        # ---- spec -> code
        seen, preds, allobs = set(), [], []
        for name, consts, r, ps, obs in results:
            rep.add_tlc("MC_Helpers %s" % name, r, consts)
            if r.violated:
                rep.violation("TLC: invariant %s violated on Helpers.tla (%s)" % (r.violated, name),
                              {"module": "checks_c17", "engine": "helpers-tla", "kind": "spec", "config": consts, "tlc_tail": r.out[-6000:]})
                continue
            for p, o in zip(ps, obs):
                k = json.dumps(p["S"])
                if k in seen:
                    continue
                seen.add(k)
                preds.append(p)
                allobs.append(o)
                rep.count_case(p["S"], nontrivial_list(p["S"]))
                rep.cov["traces_validated_against_impl"] += 1
                clause, where = compare(p, o)
                p["clause"] = clause
                if clause:
                    rep.violation("real helpers differ from Helpers.tla on an enumerated list: clause %s (%s); list %s" % (clause, where, p["S"]),
                                  {"module": "checks_c17", "engine": "helpers-tla", "kind": "list", "clause": clause, "where": where, "pred": p})
        # the same answers, judged by TLC as well (all hand-written lists, a sample of the generated ones)
        rng = random.Random(SEED)
        idx = [i for i, p in enumerate(preds) if p["cfg"] == "hand"]
        rest = [i for i, p in enumerate(preds) if p["cfg"] != "hand"]
        idx += sorted(rng.sample(rest, min(len(rest), sample)))
        sv, st1 = validate_traces([allobs[i] for i in idx])
        for (clause, o), i in zip(sv, idx):
            if clause and not preds[i]["clause"]:
                rep.violation("TLC (Trace_Helpers) rejects the real helpers' answers on an enumerated list: clause %s; list %s" % (clause, preds[i]["S"]),
                              {"module": "checks_c17", "engine": "helpers-tla", "kind": "list", "clause": clause, "pred": preds[i]})
        # ---- code -> spec
        rep.cov["states"] += st1 + st2
        rep.cov["transitions"] += st1 + st2
        ood = 0
        kinds = {}
        for (clause, o), prog in zip(verdicts, progs):
            S = o["S"]
            rep.count_case([[m["u"], m["lv"], m["k"], m["ty"], m["st"]] for m in S], nontrivial_list(S))
            rep.cov["traces_validated_against_impl"] += 1
            kinds[prog["kind"]] = kinds.get(prog["kind"], 0) + 1
            if clause.startswith("DOMAIN"):
                ood += 1
                continue
            if clause:
                rep.violation("real helpers differ from Helpers.tla on a list captured from a program: clause %s; list %s" % (
                    clause, [[m["u"], m["lv"], m["k"], m["ty"], m["st"]] for m in S]),
                              {"module": "checks_c17", "engine": "helpers-tla", "kind": "program", "clause": clause, "program": prog})
        rep.cov["program_kinds"] = kinds
        rep.cov["lists_enumerated_by_tlc"] = len(preds)
        rep.cov["captured_lists_outside_domain"] = ood
        rep.cov["max_position_in_program_lists"] = max([max(m["lv"]) for o in pobs for m in o["S"]] or [0])
        rep.cov["program_lists_with_late_remote"] = sum(1 for o in pobs if _late_remote(o["S"]))
        rep.cov["program_lists_with_confusable_neighbours"] = sum(1 for o in pobs if _confusable(o["S"]))
        if ood > len(progs) // 20:
            raise MachineryFailure("%d of %d program captures are not well-formed lists" % (ood, len(progs)))
        for p in preds[:1] + [p for p in preds if p["cfg"] != "hand"][-1:]:
            rep.sample({"list": p["S"], "predicted": p["T"]})
        if pobs:
            rep.sample({"program": progs[0]["ops"], "captured": pobs[0]["S"]})
        rep.cov["exhaustive"] = False
    except MachineryFailure as e:
        print("MACHINERY-FAILURE %s: %s" % (prop, e))
        rep.finish()
        return 2
    return rep.finish()


def _late_remote(S):
    first = {}
    for i, m in enumerate(S):
        if m["k"] == "end":
            continue
        key = (m["u"], tuple(m["lv"][:-1] if m["k"] == "start" else m["lv"]))
        first.setdefault(key, i)
    for (u, lv), i in first.items():
        for (u2, lv2), j in first.items():
            if u == u2 and lv and lv2 and lv[:-1] == lv2[:-1] and lv[-1] < lv2[-1] and i > j:
                return True
    return False


def _confusable(S):
    """Two finished sibling actions whose positions read alike as text (2 and 20..29, ...)."""
    acts = {}
    for m in S:
        if m["k"] == "end":
            acts.setdefault((m["u"], tuple(m["lv"][:-2])), set()).add(m["lv"][-2] if len(m["lv"]) > 1 else 0)
    return any(a != b and str(b).startswith(str(a)) for ps in acts.values() for a in ps for b in ps)


def replay(prop, obj, path):
    kind = obj.get("kind")
    if kind == "spec":
        cfg, _ = make_cfg({k: v for k, v in obj["config"].items()})
        r = run_tlc("MC_Helpers", cfg, timeout=1500)
        require_ok(r, "MC_Helpers")
        print("TLC: %s" % (("invariant %s violated" % r.violated) if r.violated else "no error"))
        bad = bool(r.violated)
    elif kind == "list":
        p = obj["pred"]
        o = exec_lists([p])[0]
        clause, where = compare(p, o)
        (c2, _), = validate_traces([o])[0]
        print("list %s: clause now %r (%s); TLC's verdict on the recorded answers: %r" % (p["S"], clause, where, c2))
        bad = bool(clause or c2)
    else:
        o = exec_programs([obj["program"]])[0]
        (clause, _), = validate_traces([o])[0]
        print("program captured %s: clause now %r" % ([[m["u"], m["lv"], m["k"], m["ty"], m["st"]] for m in o["S"]], clause))
        bad = bool(clause) and not clause.startswith("DOMAIN")
    if bad:
        print("VIOLATION property=%s replay=%s" % (prop, path))
        return 1
    return 0
