"""C18: spec/LogCall.tla (Python's binding rule + the log_call wrapper as a state machine) enumerated by TLC; every printed
case is instantiated as a real function and executed plain and decorated (harness/c18_exec.py, in the repository's
interpreter); three-way agreement specification / plain Python / wrapper."""
import zlib
from concurrent.futures import ThreadPoolExecutor
from common import *

TIERS = {
    "quick": {"cfg": "MC_LogCall_Quick.cfg", "variants": "rotate", "shards": 8, "timeout": 600,
              "constants": {"MaxParams": 3, "MaxPos": 3, "MaxKw": 3, "MaxHaz": 1, "HazParams": 2, "HazPos": 2, "HazKw": 2,
                            "hazard_names": 9, "implicit_looking_names": ["cls", "this"], "ImplKw": 1, "FullOptParams": 1, "FullOptKw": 1, "KindParams": 2, "CtxParams": 2}},
    "thorough": {"cfg": "MC_LogCall_Thorough.cfg", "variants": [0, 1, 2, 3], "shards": 16, "timeout": 1500,
                 "constants": {"MaxParams": 4, "MaxPos": 4, "MaxKw": 2, "MaxHaz": 1, "HazParams": 3, "HazPos": 3, "HazKw": 2,
                               "hazard_names": 11, "implicit_looking_names": ["cls", "klass", "this", "me"], "ImplKw": 1, "FullOptParams": 2, "FullOptKw": 1, "KindParams": 3, "CtxParams": 3}},
}
GUARDS = [("MC_LogCall_Broken1.cfg", "BrokenNoDupCheck"), ("MC_LogCall_Broken2.cfg", "BrokenNoDeviation")]
SUMMARY = {
    "F4b": "log_call: a keyword argument named like a positional-only parameter of a function with **kwargs is bound to "
           "that parameter by the wrapper (boltons stub drops '/'): TypeError / different binding / accepted call",
    "F4c": "log_call: a keyword argument named like an unfilled positional-only parameter (no **kwargs) is accepted by the "
           "wrapper although Python rejects the call",
    "F4d": "log_call: a parameter named _call collides with the private name of boltons' generated stub; every call raises TypeError",
    "F4e": "log_call(include_args=[..., 'self']) on a function with a parameter self: every call raises KeyError('self')",
}


def case_lines(out):
    return [l for l in out.splitlines() if l.startswith('"<<\\"CASE\\"')]


def sig_text(line):
    i = line.find(">>>>")
    return line[:i] if line.startswith('"<<\\"CASE\\", <<<<') and i > 0 else ""


def execute(lines, variants, shards, detail=False):
    """Run the cases on the real code, `shards` interpreter processes in parallel (cases of one signature stay together)."""
    d = mktemp("c18_")
    buckets = [[] for _ in range(shards)]
    for l in lines:
        buckets[zlib.crc32(sig_text(l).encode()) % shards].append(l)
    jobs = []
    for i, b in enumerate(buckets):
        if not b:
            continue
        pin, pout = os.path.join(d, "in%d.json" % i), os.path.join(d, "out%d.json" % i)
        json.dump({"lines": b, "variants": variants, "repo": REPO, "detail": detail}, open(pin, "w"))
        jobs.append((pin, pout))

    def one(job):
        p = repo_python([os.path.join(HARNESS, "c18_exec.py"), job[0], job[1]], timeout=3000)
        if p.returncode != 0:
            raise MachineryFailure("c18_exec failed (%s): %s" % (p.returncode, p.stderr.decode()[-2000:]))
        return json.load(open(job[1]))

    with ThreadPoolExecutor(max_workers=shards) as ex:
        return list(ex.map(one, jobs))


def open_findings():
    return {f["id"] for f in known_findings() if f.get("status") == "open" and "C18" in f.get("properties", [])}


def run(prop, tier):
    T = TIERS[tier]
    rep = Report(prop, tier)
    rep.cov["rule"] = ("case = (signature, call, options) enumerated exhaustively by TLC from spec/LogCall.tla within the bounds in "
                       "coverage.configs: every syntactically valid signature over {positional-only, positional-or-keyword, *args, "
                       "keyword-only, **kwargs} x default flags x names (ordinary or one hazardous name), every call (number of "
                       "positional arguments x set of keyword names incl. unknown names, duplicates of positionally bound parameters, "
                       "names of positional-only parameters) x decorator options / body outcome; each case printed with the bound mapping or "
                       "TypeError and the wrapper's observable events, built as a real function and executed plain and decorated; "
                       "distinct = distinct record; non-trivial = the call binds (an action is logged) or a refused decoration")
    rep.cov["python_oracle_clauses"] = ["Python's binding rule: transcribed in LogCall.tla (two formulations, agreement checked by TLC) but the "
                                        "authoritative oracle is the undecorated real function; a disagreement is a machinery failure"]
    rep.assumptions = ["argument values are witness objects with identity equality; the wrapped body returns / raises a fixed witness",
                       "messages are observed at a destination added to the default logger (eliot.add_destinations)",
                       "fidelity of logged argument VALUES is not claimed for parameters named task_uuid, task_level, timestamp, action_type, action_status",
                       "classmethod/staticmethod, generators and coroutines are outside the enumerated domain"]
    try:
        # vacuity guards: deliberately wrong variants of the rule must be rejected by TLC on a small domain
        # (one worker each: the number of states visited before the violation is then deterministic; run beside the main model)
        with ThreadPoolExecutor(max_workers=3) as ex:
            gf = [ex.submit(run_tlc, "LogCall", cfg, workers=1, timeout=300) for cfg, _ in GUARDS]
            rf = ex.submit(run_tlc, "LogCall", T["cfg"], timeout=T["timeout"])
            guards, r = [f.result() for f in gf], rf.result()
        for (cfg, inv), g in zip(GUARDS, guards):
            if g.violated != inv:
                raise MachineryFailure("vacuity guard %s: expected %s to be violated, got %s %s" % (cfg, inv, g.violated, g.error))
            rep.add_tlc(cfg, g, {"guard": inv}, expect_violation=inv)
        require_ok(r, "LogCall " + T["cfg"])
        rep.add_tlc(T["cfg"], r, T["constants"])
        if r.violated:
            rep.violation("TLC: %s violated on LogCall.tla" % r.violated, {"engine": "c18", "module": "checks_c18", "tlc_tail": r.out[-5000:]})
            return rep.finish()
        lines = case_lines(r.out)
        m = re.search(r"Finished computing initial states: (\d+) distinct state", r.out)
        if not m or int(m.group(1)) != len(lines) or len(set(lines)) != len(lines):
            raise MachineryFailure("TLC printed %d case records (%d distinct) for %s initial states" % (
                len(lines), len(set(lines)), m.group(1) if m else "?"))
        r.out = ""
        outs = execute(lines, T["variants"], T["shards"])
        n = sum(o["n"] for o in outs)
        if n != len(lines):
            raise MachineryFailure("executed %d of %d cases" % (n, len(lines)))
        mach = [x for o in outs for x in o["machinery"]]
        if mach:
            raise MachineryFailure("specification and plain Python disagree on %s %s: %s" % (mach[0]["source"].splitlines()[0], mach[0]["call"], mach[0]["what"]))
        for l in lines:
            rep.count_case(l, '\\"call\\"' in l or 'ValueError' in l)
        rep.cov["traces_validated_against_impl"] = n
        rep.cov["executions"] = sum(o["runs"] for o in outs)
        rep.cov["cases_binding"] = sum(o["bound"] for o in outs)
        rep.cov["cases_typeerror"] = sum(o["typeerror"] for o in outs)
        rep.cov["cases_refused_decoration"] = sum(o["refused"] for o in outs)
        kinds = {}
        for o in outs:
            for k, c in o.get("kinds", {}).items():
                kinds[k] = kinds.get(k, 0) + c
        rep.cov["cases_by_target_kind"] = kinds
        ctxs = {}
        for o in outs:
            for k, c in o.get("contexts", {}).items():
                ctxs[k] = ctxs.get(k, 0) + c
        rep.cov["cases_by_calling_context"] = ctxs
        rep.cov["exhaustive"] = True
        rep.sample({"record": lines[0]})
        rep.sample({"record": lines[len(lines) // 2]})
        openf = open_findings()
        viol = [x for o in outs for x in o["violations"]]
        known = {}
        for o in outs:
            for fid, cnt in o["known"].items():
                known[fid] = known.get(fid, 0) + cnt
                if fid not in openf:      # not (or no longer) listed as an open finding: it is a violation
                    viol.append(dict(o["known_examples"][fid], what=["known-mechanism %s is not an open finding" % fid]))
        for fid in sorted(known):
            if fid in openf:
                rep.known_finding(fid, SUMMARY[fid])
        rep.cov["known_finding_cases"] = known
        viol.sort(key=lambda x: (sum(len(q[2]) > 1 for q in x["sig"]), len(x["sig"]), len(x["call"][1]), x["call"][0], json.dumps([x["sig"], x["call"], x["opt"], x["variant"] if "variant" in x else 0])))
        total = sum(o["n_violations"] for o in outs)
        rep.cov["violating_executions"] = total
        chosen, seen = [], set()
        for x in viol:                                   # witnesses of different clauses first
            if tuple(x["what"]) not in seen:
                seen.add(tuple(x["what"]))
                chosen.append(x)
        for x in viol:
            if len(chosen) >= 5:
                break
            if not any(x is c for c in chosen):
                chosen.append(x)
        for x in chosen[:5]:
            report(rep, x)
        for _ in range(max(total, len(viol)) - len(chosen[:5])):
            rep.violations.append({"what": "further violating execution", "replay": None})
    except MachineryFailure as e:
        print("MACHINERY-FAILURE %s: %s" % (prop, e))
        rep.finish()
        return 2
    return rep.finish()


def report(rep, x):
    kind = x.get("kind", "plain")
    target = x["source"].splitlines()[1 if x["call"][2] else 0].strip()
    if kind != "plain":
        target = "[target kind %s] %s -> %s" % (kind, target, " ".join(l.strip() for l in x["source"].splitlines()[3:] if not l.strip().startswith("_whook")))
    if x.get("context", "top") != "top":
        target = "[called inside %s] %s" % ({"action": "start_action(action_type='c18:outer')", "private": "start_action(MemoryLogger(), 'c18:outer')"}[x["context"]], target)
    what = "%s with %s, call(%d positional, keywords %s%s), body %s: clause %s fails; decorated: %s" % (
        target, x["decorator"], x["call"][0], x["call"][1],
        ", via instance" if x["call"][2] else "", x["opt"][4], ",".join(x["what"]),
        json.dumps(x.get("decorated", x.get("decoration", x.get("signature")))))
    rep.violation(what, {"engine": "c18", "module": "checks_c18", "line": x["line"], "variant": x.get("variant", 0), "clauses": x["what"],
                         "source": x["source"], "kind": kind, "context": x.get("context", "top"), "decorator": x["decorator"], "call": x["call"], "expected_binding": x["expected_binding"],
                         "decorated": x.get("decorated"), "plain": x.get("plain")})


def replay(prop, obj, path):
    if "line" not in obj:
        print("replay holds a specification-level counterexample (TLC output):\n" + obj.get("tlc_tail", "")[-3000:])
        return 1
    outs = execute([obj["line"]], [obj.get("variant", 0)], 1, detail=True)
    o = outs[0]
    if o["machinery"]:
        print("MACHINERY-FAILURE %s: %s" % (prop, o["machinery"][0]["what"]))
        return 2
    print(obj["source"] + "decorator: %s; call: %s" % (obj["decorator"], obj["call"]))
    print("expected binding: %s" % (obj["expected_binding"],))
    openf = open_findings()
    bad = list(o["violations"])
    for fid, ex in o["known_examples"].items():
        if fid in openf:
            print("KNOWN-FINDING: property=%s %s (%s)" % (prop, SUMMARY[fid], fid))
        else:
            bad.append(ex)
    for x in bad + o["ok_detail"]:
        print("clauses failing now: %s\n  decorated: %s\n  plain:     %s" % (x["what"], json.dumps(x.get("decorated", x.get("decoration"))), json.dumps(x.get("plain"))))
    if bad:
        print("VIOLATION property=%s replay=%s" % (prop, path))
        return 1
    return 0
