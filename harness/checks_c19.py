"""C19: eliot.logwriter.ThreadedWriter (imported over the Twisted stand-ins in harness/stubs).
  level B: spec/Writer.tla exhaustive (TLC) incl. the broken sibling 'reader loop ends when the service is marked stopped';
  level A: spec/WriterA.tla evaluated by TLC on histories of real threads under enumerated line-level schedules."""
import random
from common import *
from engine_conc import *

SCEN = [
    dict(threads={"P1": [1, 2], "P2": [3]}, fail=[2], cycles=1, inline={"1": [9]}),
    dict(threads={"P1": [1], "P2": [2, 3]}, fail=[], cycles=2, inline={"1": [8], "2": [9]}),
    dict(threads={"P1": [1, 2, 3]}, fail=[1, 2, 3, 9], cycles=1, inline={"1": [9]}),
    dict(threads={"P1": [1, 2], "P2": [3, 4]}, fail=[3], cycles=1, inline={"1": [8, 9]}),
]


def run(prop, tier):
    rep = Report(prop, tier)
    quick = tier == "quick"
    rep.cov["rule"] = ("cases = complete schedules (a thread is chosen before every source line of eliot/logwriter.py, every queue put/get and every "
                       "call of the wrapped destination) of producer threads, the thread starting/stopping the service, the writer thread and "
                       "the thread-pool job joining it; all schedules with <= k pre-emptions up to a cap plus seeded random ones; every history is "
                       "evaluated by TLC against WriterA.tla; distinct = distinct schedules; non-trivial = at least one context switch")
    rep.assumptions = ["Twisted is not installed: twisted.application.service.Service and twisted.internet.threads.deferToThreadPool are "
                       "replaced by minimal stand-ins (harness/stubs) with the same call protocol",
                       "the queue and threading.Thread used by the writer are replaced by scheduler-visible equivalents with FIFO / Thread semantics"]
    try:
        for cfg, label, expect in [("MC_Writer.cfg", "level B, the code", None),
                                   ("MC_Writer_exit.cfg", "vacuity guard: reader loop exits when the service is marked stopped", "C19_AllWrittenBeforeStopCompletes")]:
            r = run_tlc("Writer", cfg, timeout=600, only=expect)
            require_ok(r, cfg)
            rep.add_tlc("%s (%s)" % (cfg, label), r, {"NP": 2, "NM": 2}, expect_violation=expect)
            if expect and r.violated != expect:
                raise MachineryFailure("broken sibling %s not rejected" % cfg)
            if not expect and r.violated:
                rep.violation("TLC: %s violated on Writer.tla" % r.violated, {"engine": "conc", "tlc_tail": r.out[-4000:]})
        rng = random.Random(SEED + 19)
        scs = []
        for sc in SCEN:
            sc = dict(sc, kind="writer", max_pre=1 if quick else 2, cap=150 if quick else 10000, random=50 if quick else 3000,
                      seed=rng.randint(0, 10 ** 9), budget_s=60 if quick else 400)
            scs.append(sc)
        results = run_scenarios(scs, extra_path=[os.path.join(HARNESS, "stubs")])
        hs = [(res["scenario"], h) for res in results for h in res["runs"]]
        acc, st = tlc_accepts("WriterA", "WriterA.cfg", [h for _, h in hs])
        rep.cov["states"] += st
        rep.cov["transitions"] += st
        for (sc, h), a in zip(hs, acc):
            rep.cov["traces_validated_against_impl"] += 1
            rep.count_case([sc["threads"], sc["cycles"], h["schedule"]], len(set(h["schedule"])) > 1)
            if h["errors"]:
                rep.violation("a thread raised, or everything blocked for ever: %s" % h["errors"][:2], {"engine": "conc", "module": "checks_c19", "scenario": sc, "schedule": h["schedule"]})
            elif a is None:
                raise MachineryFailure("no verdict for a writer history")
            elif a[2]:
                rep.violation("ThreadedWriter: %s" % a[2], {"engine": "conc", "module": "checks_c19", "scenario": sc, "schedule": h["schedule"], "history": h["ev"]})
        if hs:
            rep.sample({"scenario": {k: hs[0][0][k] for k in ("threads", "fail", "cycles", "inline")}, "history": hs[0][1]["ev"]})
        # logging must not block on slow output: a stalled destination, thousands of messages offered meanwhile (real queue, real threads)
        res = run_scenarios([{"kind": "writer_stall", "n": 3000 if quick else 20000, "patience_s": 8, "fixed_schedule": []}],
                            extra_path=[os.path.join(HARNESS, "stubs")])
        h = res[0]["runs"][0]
        acc, st = tlc_accepts("StallA", "StallA.cfg", [h])
        rep.cov["states"] += st
        rep.cov["transitions"] += st
        rep.cov["traces_validated_against_impl"] += 1
        rep.count_case(["stall", h["n"]], True)
        if acc[0] is None:
            raise MachineryFailure("no verdict for the stalled-destination run")
        if acc[0][2]:
            rep.violation("ThreadedWriter with a stalled destination: %s" % acc[0][2],
                          {"engine": "conc", "module": "checks_c19", "scenario": res[0]["scenario"], "schedule": [], "history": h})
    except MachineryFailure as e:
        print("MACHINERY-FAILURE %s: %s" % (prop, e))
        rep.finish()
        return 2
    return rep.finish()


def replay(prop, obj, path):
    import engine_conc
    return engine_conc.replay(prop, obj, path)
