"""C20: spec/Readers.tla (layout decision table, eliot-prettyprint and eliot.filter per-line state machines) bound to the
real eliot.prettyprint / eliot.filter.

TLC enumerates every abstract case of Readers.tla and prints (case, expected outcome) records; every record is
instantiated with concrete witnesses (drawn with SEED) and executed on the real code:
  * pretty_format / compact_format in a repository subprocess (harness/c20_exec.py), also on messages produced by real
    Eliot calls (start_action, failed actions, log_message, write_traceback, typed messages);
  * the eliot-prettyprint entry point (prettyprint._main) and `python -m eliot.filter` as real subprocesses with binary
    stdin; EliotFilter.run() and filter.main(sys=...) in process for more witnesses.
What the code did is compared with the record.  The clauses demand no more than the statement of C20 (see notes/C20.md).
"""
import random, re, base64, itertools
from concurrent.futures import ThreadPoolExecutor, ProcessPoolExecutor
from fractions import Fraction
from datetime import datetime, timedelta
from common import *

HEADER = ["task_uuid", "task_level", "timestamp"]
FIRST = ["action_type", "message_type", "action_status"]
RESERVED = set(HEADER + FIRST)
ENV = {"PYTHONIOENCODING": "utf-8", "TZ": "IST-5:30"}     # a local time zone that is not UTC: the readers must show UTC

# ---------------------------------------------------------------------------------------------------------------------
# witnesses.  Field-name slots as in Readers.tla (NameClass): every witness of slot n sorts before every witness of n+1.
NAMES = {
    1: ["", " ", " lead", "  two", "%", "%s", "%%", "%d items", "%(x)s"],
    2: ["0day", "42", "1st", "100%", "50%% off"],
    3: ["Zeta", "KEY", "CamelCase"],
    4: ["_private", "__x", "_"],
    5: ["alpha", "count", "key", "b", "extra_info", "action_type2", "message_type_x", "action_status_", "level", "a % b", "dir\\name",
        "a%sb"],
    6: ["name", "path", "result", "n", "query", "port"],
    7: ["task_uuid2", "timestamps", "task_level_", "task", "task_uuid ", "timestamp_"],
    8: ["x=y", "w: z", "y y", "u\"q", "v'q", "x|y", "z{", "u,v", "w=\"1\"", "x\ty", "v=[1, 2]", "u=1 v", "x:", "{}", "{0}", "u%", "x%(y)s", "w%%",
        "{name}", "y\\z"],
    9: ["~a\nb", "~a\rb", "~\n", "~x\r\ny"],
    10: ["\u043a\u043b\u044e\u0447", "\u952e", "\u00e9a", "\u65e5\u672c\u8a9e", "\U0001f600emoji", "\u00f1ame"],
}
for _i in range(1, 10):
    assert max(NAMES[_i]) < min(NAMES[_i + 1]), _i
VALUES = {
    "short": ["ok", "", "hello world", "it's", 'say "hi"', "back\\slash", "a=b c", "{not json}", "None", "123", "x" * 30,
              "both ' and \" quotes", "key: value", " padded "],
    "multiline": ["line one\nline two", "a\nb\nc", "first\n\nthird", "trailing\n", "\nleading", "\n",
                  "Traceback (most recent call last):\n  File \"x.py\", line 1, in f\n    raise E('it')\nE: boom",
                  "a rather long first line which pprint will have to wrap somewhere\nand a second line that is long as well, really",
                  "dos\r\nline", "  indented\n    more"],
    "tabs": ["col1\tcol2", "a\tb\tc", "\tlead", "tab\tand\nnewline", "end\t", "\t"],
    "nested": [{"a": 1, "b": [1, 2, {"c": None}]}, [], {}, [[]], {"k": {"k2": {"k3": "deep leaf"}}}, [1, "two", 3.5, True, None],
               {"": 0}, {"list": list(range(100, 130))}, {"text": "multi\nline in nested"}, [{"x": "a\tb"}, {"y": [False, 0.0]}],
               {"z": 7001, "a": "leafA", "m": {"q": 7002, "b": ["leafB", 7003]}}, [""], {"k": []},
               {"\u00fcml": "\u00e4\u00f6", "long key with spaces": "v"}, {"pct": "100%", "%d": ["%s", "50%% off"]}, ["%", {"{}": "{0}"}],
               {"a % b": {"%(x)s": "%%"}}, ["C:\\dir", {"\\": "%5.2f"}], {"sep": "line\u2028sep", "half": "\ud83d", "\u0085": ["nul\x00"]},
               [[[[[[[[[[[[[[[[[[[[[[[[[[[[[[[[[[[[[[[["forty deep"]]]]]]]]]]]]]]]]]]]]]]]]]]]]]]]]]]]]]]]],
               {"big": 10 ** 40, "emoji": "\U0001f600"}],
    "number": [0, 1, -1, 42, 3.14, -0.5, 1e100, 2 ** 63, 2 ** 64 + 1, 1.5e-07, 0.0, 123456789.123, -17, 1e-300, 255, 10 ** 40, -(10 ** 30) - 7,
               -(2 ** 63) - 1, 1.7976931348623157e308, 5e-324, 3 * 10 ** 300 + 1],
    "bool": [True, False],
    "null": [None],
    "meta": ["%", "%%", "%s", "%d items", "50%% off", "100%", "%(x)s", "a % b", "{}", "{0}", "{name}", "{{}}", "100% {sure} \\o/",
             "C:\\dir\\file", "\\", "%5.2f", "$HOME ${x}", "%\u00e9", "%r and %%s", "{!r:>{width}}", "a\\\\b", "\\x41 \\u00e9"],
    "nonascii": ["h\u00e9llo", "\u65e5\u672c\u8a9e\u30c6\u30ad\u30b9\u30c8", "emoji \U0001f600 here", "\u00dcn\u00efc\u00f6d\u00e9",
                 "mixed ascii \u0438 \u043a\u0438\u0440\u0438\u043b\u043b\u0438\u0446\u0430", "line\u2028sep", "nbsp\u00a0here", "\u0080ctl",
                 "lone\ud800surrogate", "\u00e9\n\u00e8", "\udc00", "half pair \ud83d", "para\u2029sep", "nel\u0085here", "\U0001f600",
                 "\U00010348 gothic", "tag\U000e0001char", "nul\x00byte", "\x01\x02 ctl", "bell\x07", "\x7f del", "esc\x1b[31mred",
                 "vt\x0bff\x0cend", "fs\x1cgs\x1drs\x1eus\x1f", "bom\ufeffzwsp\u200b", "\ufffd\uffff"],
}
FIRST_VALUES = {"action_type": ["app:task", "sys:io:read", "t", "\u0442\u0438\u043f:x", "app:100%", "app:{}"],
                "message_type": ["app:event", "my:message", "eliot:traceback", "", "app:%s"],
                "action_status": ["started", "succeeded", "failed"]}
LEVELS = [[1], [2], [1, 1], [3, 2], [2, 1, 4, 1], [7, 10, 3], [12], [1, 2, 3, 4, 5, 6]]
STAMPS = [1700000000.0, 1700000000.123456, 0.0, 0.5, 1000000000.000001, 1234567890.9999996, 1700000000, 4102444800.25, 86399.999999,
          951782400.5, 1790972085.070434, 1.0, 1500000000.000123, 978307199.999999, 1e9 + 1e-6,
          # the rounding boundary (utcfromtimestamp rounds to the nearest microsecond, possibly into the next second), small negative, year 9999
          1443193754.9999998, 1443193754.9999995, 1443193754.9999996, 1443193754.9999999, 1443193754.0000004, 1443193754.0000005,
          0.9999996, 59.9999999, 86399.9999997, 1443193754.4999996, -0.5, -1.25, -1e-07, 253402300799.5, 2, 1443193755]


def draw_uuid(rng):
    k = rng.randrange(12)
    if k == 0:
        return rng.choice(["u", "task-1", "\u00fcn\u00ef-uuid", "abc123", "0", "a b"])
    x = "%032x" % rng.getrandbits(128)
    return "%s-%s-4%s-a%s-%s" % (x[:8], x[8:12], x[13:16], x[17:20], x[20:])


def layout_of(msg):
    """Python mirror of Layout(m) of Readers.tla; validated against TLC's record for every model case."""
    return {"first": [f for f in FIRST if f in msg], "rest": sorted(k for k in msg if k not in RESERVED)}


def instantiate_layout(rec, rng):
    """One concrete message for a <<"LAY", first, rest, dev>> record.  Returns (message, expected layout by NAME)."""
    _, first, rest, dev = rec
    items = [("task_uuid", draw_uuid(rng)), ("task_level", rng.choice(LEVELS)), ("timestamp", rng.choice(STAMPS))]
    for f in first:
        items.append((f, rng.choice(FIRST_VALUES[f])))
    names = []
    for n, v in rest:
        name = rng.choice(NAMES[n])
        names.append(name)
        items.append((name, rng.choice(VALUES[v])))
    rng.shuffle(items)                  # the insertion order of the dictionary must not matter
    return dict(items), {"first": list(first), "rest": names}


# ---------------------------------------------------------------------------------------------------------------------
# oracles (clauses of C20; each returns a list of failed clauses)
def typed_eq(a, b):
    if isinstance(a, bool) or isinstance(b, bool) or a is None or b is None:
        return type(a) is type(b) and a == b
    if isinstance(a, (int, float)) and isinstance(b, (int, float)):
        return type(a) is type(b) and (a == b or (a != a and b != b))
    if isinstance(a, str) and isinstance(b, str):
        return a == b
    if isinstance(a, list) and isinstance(b, list):
        return len(a) == len(b) and all(typed_eq(x, y) for x, y in zip(a, b))
    if isinstance(a, dict) and isinstance(b, dict):
        return set(a) == set(b) and all(typed_eq(a[k], b[k]) for k in a)
    return False


TS_RE = r"(\d{4}-\d\d-\d\d[T ]\d\d:\d\d:\d\d(?:\.\d{1,6})?)((?:Z|\+00:00){0,2})"
EPOCH = datetime(1970, 1, 1)


def parse_header(msg, text):
    """The output starts with the task_uuid, the '/'-joined task_level and the UTC timestamp to the microsecond."""
    u = msg["task_uuid"]
    if not text.startswith(u):
        return ["header: the output does not start with the task_uuid"], None
    rest = text[len(u):]
    m = re.match(r"([^/\d\n]{0,6}?)(/?\d+(?:/\d+)*)([ \t\n]+)" + TS_RE + r"(?![\d.])", rest)
    if not m:
        return ["header: no '/'-joined task_level followed by an ISO timestamp after the task_uuid"], None
    errs = []
    if [int(x) for x in m.group(2).lstrip("/").split("/")] != list(msg["task_level"]):
        errs.append("header: task_level %r shown as %r" % (msg["task_level"], m.group(2)))
    try:
        dt = datetime.fromisoformat(m.group(4).replace(" ", "T"))
        us = (dt - EPOCH) // timedelta(microseconds=1)
        # "to the microsecond" = the logged instant ROUNDED to the nearest microsecond (what utcfromtimestamp does; at an exact tie
        # either neighbour -- the library rounds the binary fraction, half to even): truncation is off by more than that
        if abs(Fraction(us) - Fraction(msg["timestamp"]) * 1000000) > Fraction(501, 1000):
            errs.append("header: timestamp %r shown as %s, not the same instant to the microsecond" % (msg["timestamp"], m.group(4)))
    except ValueError:
        errs.append("header: timestamp %r is not a date" % m.group(4))
    return errs, rest[m.end():]


LINEBREAKS = "\n\r\x0b\x0c\x1c\x1d\x1e\x85\u2028\u2029"      # what str.splitlines() (and most viewers) treat as the end of a line


def has_linebreak(s):
    return any(c in s for c in LINEBREAKS)


def name_forms(name):
    """How a field name may be written: raw, or escaped like a JSON / Python string body (the statement does not say; an
    implementation that escapes control characters in names is as good)."""
    forms = [name]
    for f in (json.dumps(name)[1:-1], json.dumps(name, ensure_ascii=False)[1:-1], repr(name)[1:-1]):
        if f not in forms:
            forms.append(f)
    return forms


def check_compact(msg, text):
    """-> (failed clauses, observed field order or None, F6 mechanism matched)"""
    errs, rem = parse_header(msg, text)
    f6 = False
    if has_linebreak(text):
        # known finding F6: match exactly "a field NAME contains a line-break character and that is the only source of
        # line breaks": with every such name removed from the output, no line break is left.
        bad_names = [k for k in msg if k not in RESERVED and has_linebreak(k)]
        t2 = text
        for k in sorted(bad_names, key=len, reverse=True):
            t2 = t2.replace(k + "=", "=")
        if bad_names and not has_linebreak(t2):
            f6 = True
        else:
            errs.append("compact: the output is not a single line")
    if rem is None:
        return errs, None, f6
    fields = {k: v for k, v in msg.items() if k not in HEADER}
    dec = json.JSONDecoder()

    def parse(i, left):
        if rem[i:].strip(" ") == "":
            return [] if not left else None
        if rem[i] != " ":
            return None
        j = i + 1
        while True:
            for name in left:
                for shown in name_forms(name):
                    if rem.startswith(shown + "=", j):
                        try:
                            val, end = dec.raw_decode(rem, j + len(shown) + 1)
                        except ValueError:
                            continue
                        if typed_eq(val, fields[name]):
                            r = parse(end, left - {name})
                            if r is not None:
                                return [name] + r
            if j < len(rem) and rem[j] == " ":
                j += 1
            else:
                return None

    order = parse(0, frozenset(fields))
    if order is None:
        missing = []
        for k, v in fields.items():
            ok = False
            for mm in re.finditer("(?:" + "|".join(re.escape(x) for x in name_forms(k)) + ")=", rem):
                try:
                    val, _ = dec.raw_decode(rem, mm.end())
                    ok = ok or typed_eq(val, v)
                except ValueError:
                    pass
            if not ok:
                missing.append(k)
        errs.append("compact: the text after the header is not exactly one name=JSON part per field"
                    + ((": no part gives %s" % ", ".join(repr(k) for k in missing)) if missing else " (a part is repeated or foreign)"))
        return errs, None, f6
    firsts = [i for i, k in enumerate(order) if k in FIRST]
    others = [i for i, k in enumerate(order) if k not in FIRST]
    if firsts and others and max(firsts) > min(others):
        errs.append("compact: type/status are not the first fields (%s)" % order)
    return errs, order, f6


def str_forms(w):
    """The ways a whitespace-free piece of text can legitimately be shown: escaped as by repr() or ascii(), with either
    quote style (so ' may or may not be escaped).  None if the escaped piece contains backslash-n / backslash-t, which the
    deliberately lossy un-escaping of pretty_format eats."""
    forms = set()
    for esc in (repr, ascii):
        for q in ("'", "\\'"):
            forms.add("".join(q if c == "'" else ('"' if c == '"' else esc(c)[1:-1]) for c in w))
    if any("\\n" in f or "\\t" in f for f in forms):
        return None
    return forms


def text_shown(s, block):
    words = [w for w in re.split(r"\s+", s) if w]
    if not words:
        return s != "" or "''" in block or '""' in block
    p = 0
    for w in words:
        forms = str_forms(w)
        if forms is None:
            continue
        hits = [(block.find(f, p), -len(f), f) for f in forms if block.find(f, p) >= 0]
        if not hits:
            return False
        q, nl, f = min(hits)
        p = q + len(f)
    return True


def value_shown(v, block):
    if v is None:
        return re.search(r"(?<!\w)(None|null)(?!\w)", block) is not None
    if v is True:
        return re.search(r"(?<!\w)(True|true)(?!\w)", block) is not None
    if v is False:
        return re.search(r"(?<!\w)(False|false)(?!\w)", block) is not None
    if isinstance(v, (int, float)):
        return re.search(r"(?<![\w.])" + re.escape(repr(v)) + r"(?![\w.])", block) is not None
    if isinstance(v, str):
        return text_shown(v, block)
    if isinstance(v, list):
        if not v:
            return "[]" in block
        return all(value_shown(x, block) for x in v)
    if isinstance(v, dict):
        if not v:
            return "{}" in block
        return all(text_shown(k, block) and value_shown(x, block) for k, x in v.items())
    return False


def label_conflict(names):
    """True if one name's label could be mistaken for (part of) another's: such witness sets are not drawn."""
    for a in names:
        for b in names:
            if a == b:
                continue
            for piece in b.split("\n"):          # a label is looked for at every line start, also inside a name with a line break
                if (piece.lstrip(" \t") + ":").startswith(a.lstrip(" \t") + ":"):
                    return True
    return False


def check_pretty(msg, text):
    """-> (failed clauses, observed field order or None)"""
    errs, rem = parse_header(msg, text)
    if rem is None:
        return errs, None
    body = rem if rem.startswith("\n") else "\n" + rem
    fields = {k: v for k, v in msg.items() if k not in HEADER}
    pos = {}
    for k in fields:
        found = [(m.start(), m.end()) for m in re.finditer(r"\n[ \t]*(?:" + "|".join(re.escape(x) for x in name_forms(k)) + r"):(?=[ \t\n]|$)", body)]
        # a label is a line start; a name that itself begins with blanks also matches with fewer blanks in front: keep
        # distinct line starts only
        starts = sorted(set(s for s, e in found))
        if len(starts) != 1:
            errs.append("pretty: field %r appears %d times as a field label" % (k, len(starts)))
        else:
            pos[k] = [x for x in found if x[0] == starts[0]][0]
    if len(pos) != len(fields):
        return errs, None
    order = sorted(fields, key=lambda k: pos[k][0])
    firsts = [i for i, k in enumerate(order) if k in FIRST]
    others = [i for i, k in enumerate(order) if k not in FIRST]
    if firsts and others and max(firsts) > min(others):
        errs.append("pretty: type/status are not the first fields (%s)" % order)
    for i, k in enumerate(order):
        block = body[pos[k][1]:pos[order[i + 1]][0] if i + 1 < len(order) else len(body)]
        if not value_shown(fields[k], block):
            errs.append("pretty: the value of field %r (%r) is not shown completely: %r" % (k, fields[k], block[:300]))
    return errs, order


def judge_formats(msg, res, expected=None):
    """All clauses for one message and the two formats.  -> (violations [(clause, detail)], f6 seen, drift notes)"""
    viol, drift, f6 = [], [], False
    if res.get("rerender"):
        viol.append(("rendering is not a function of the message (a history of renderings of one dictionary)", res["rerender"][:600]))
    for fmt in ("pretty", "compact"):
        out = res[fmt]
        if out is None:
            viol.append(("%s: raised on a message Eliot can emit" % fmt, res[fmt + "_exc"]))
            continue
        if fmt == "pretty":
            errs, order = check_pretty(msg, out)
        else:
            errs, order, f6 = check_compact(msg, out)
        for e in errs:
            viol.append((e, out[:600]))
        if order is not None and not errs:
            exp = expected or layout_of(msg)
            if order != exp["first"] + exp["rest"]:
                drift.append("%s_format: field order %s differs from the modelled %s (type/status first and completeness hold)"
                             % (fmt, order, exp["first"] + exp["rest"]))
    return viol, f6, drift


# ---------------------------------------------------------------------------------------------------------------------
def exec_jobs(jobs, timeout=1200):
    d = mktemp("c20_")
    pin, pout = os.path.join(d, "jobs.json"), os.path.join(d, "res.json")
    json.dump(jobs, open(pin, "w"))
    p = repo_python(["-W", "ignore", os.path.join(HARNESS, "c20_exec.py"), pin, pout], timeout=timeout, extra_path=[HARNESS], env=ENV)
    if p.returncode != 0:
        raise MachineryFailure("c20_exec failed: " + p.stderr.decode("utf-8", "replace")[-2000:])
    res = json.load(open(pout))
    shutil.rmtree(d, ignore_errors=True)
    if not os.path.realpath(res["eliot_file"]).startswith(os.path.realpath(REPO) + os.sep):
        raise MachineryFailure("eliot imported from %s, not from %s" % (res["eliot_file"], REPO))
    return res


def tlc_records(out, tag):
    """Records printed as PrintT(ToString(<<"tag", ...>>)): one JSON-compatible string literal per line."""
    recs = []
    pat = '"<<\\"%s\\"' % tag
    for line in out.splitlines():
        if line.startswith(pat):
            t = json.loads(line)
            t = t.replace("<<", "[").replace(">>", "]").replace("TRUE", "true").replace("FALSE", "false")
            recs.append(json.loads(t))
    return recs


def cfg_with(name, **consts):
    text = open(os.path.join(SPEC, name)).read()
    for k, v in consts.items():
        text, n = re.subn(r"(?m)^CONSTANT %s = .*$" % k, "CONSTANT %s = %s" % (k, v), text)
        if n != 1:
            raise MachineryFailure("constant %s not found in %s" % (k, name))
    path = os.path.join(mktemp("cfg_"), name)
    open(path, "w").write(text)
    return path


# ---------------------------------------------------------------------------------------------------------------------
# (a) layout: one chunk of TLC records, in a worker process
def layout_chunk(args):
    recs, seed, nwit = args
    rng = random.Random(seed)
    cases = []
    for rec in recs:
        for w in range(nwit[0] if len(rec[2]) < 3 else nwit[1]):
            for _ in range(20):
                msg, exp = instantiate_layout(rec, rng)
                if not label_conflict([k for k in msg if k not in HEADER]):
                    break
            else:
                raise MachineryFailure("cannot draw unambiguous names for %s" % (rec,))
            if layout_of(msg) != exp:
                raise MachineryFailure("Python mirror of Layout disagrees with Readers.tla on %s: %s vs %s" % (rec, layout_of(msg), exp))
            cases.append((rec, msg, exp))
    res = exec_jobs({"format": [c[1] for c in cases]})["format"]
    out = {"n": len(cases), "viol": [], "f6": 0, "f6_unexpected": [], "drift": [], "keys": [], "sample": None}
    for (rec, msg, exp), r in zip(cases, res):
        viol, f6, drift = judge_formats(msg, r, exp)
        if f6:
            if rec[3]:          # the record carries the deviation flag DevF6: the mechanism, exactly
                out["f6"] += 1
            else:
                viol.append(("compact: the output is not a single line", r["compact"][:600]))
        for clause, detail in viol:
            out["viol"].append({"clause": clause, "detail": detail, "message": msg, "record": rec})
        out["drift"].extend(drift[:1])
        out["keys"].append(([rec[1], rec[2]], bool(rec[1] or rec[2])))
    if cases:
        rec, msg, exp = cases[len(cases) // 2]
        out["sample"] = {"record": rec, "message": msg, "pretty": res[len(cases) // 2]["pretty"], "compact": res[len(cases) // 2]["compact"]}
    out["drift"] = sorted(set(out["drift"]))[:3]
    return out


# ---------------------------------------------------------------------------------------------------------------------
# messages produced by real Eliot calls
def random_fields(rng, maxn=3, linebreak_names=True):
    f = {}
    for _ in range(rng.randrange(maxn + 1)):
        slot = rng.choice([s for s in NAMES if linebreak_names or s != 9])
        name = rng.choice(NAMES[slot])
        if name in ("logger", "action_type", "message_type", "_serializers"):
            continue
        f[name] = rng.choice(VALUES[rng.choice(sorted(VALUES))])
    if label_conflict(list(f)):
        return {}
    return f


def random_program(rng, linebreak_names=True):
    def node(depth):
        k = rng.choice(["msg", "msg", "untyped", "traceback", "action", "action", "typed_action", "typed_msg"])
        if depth >= 3 and k in ("action", "typed_action"):
            k = "msg"
        n = {"k": k, "fields": random_fields(rng, 3, linebreak_names)}
        if k.startswith("typed"):        # declared field names must not start with an underscore
            n["fields"] = {a: b for a, b in n["fields"].items() if not a.startswith("_")}
        if k in ("msg", "typed_msg"):
            n["type"] = rng.choice(FIRST_VALUES["message_type"][:2] + ["app:\u00fc"])
        if k == "traceback":
            n["exc"] = rng.choice(["ValueError", "KeyError", "AppError", "OSError"])
            n["text"] = rng.choice(["boom", "multi\nline reason", "it's \"quoted\"", "\u00fcnicode", ""])
            n["fields"] = {}
        if k in ("action", "typed_action"):
            n["type"] = rng.choice(FIRST_VALUES["action_type"])
            n["children"] = [node(depth + 1) for _ in range(rng.randrange(3))]
            if rng.random() < 0.4:
                n["fail"] = rng.choice(["ValueError", "KeyError", "AppError", "OSError"])
                n["text"] = rng.choice(["boom", "multi\nline reason", "it's \"quoted\"", "\u00fcnicode", "", "tab\there"])
            else:
                n["success"] = {a: b for a, b in random_fields(rng, 2, linebreak_names).items() if not (k.startswith("typed") and a.startswith("_"))}
        return n
    return [node(0) for _ in range(1 + rng.randrange(3))]


def emitted_chunk(args):
    seed, nprog = args
    rng = random.Random(seed)
    progs = [random_program(rng) for _ in range(nprog)]
    em = exec_jobs({"emit": progs})["emit"]
    msgs = []
    for p, e in zip(progs, em):
        if e["exc"]:
            raise MachineryFailure("emitting program failed: %s (%s)" % (e["exc"], json.dumps(p)[:500]))
        for line in e["lines"]:
            msgs.append(json.loads(line))
    res = exec_jobs({"format": msgs, "filter": [{"expr": "J", "lines": [json.dumps(m) for m in msgs]}]})
    out = {"n": len(msgs), "viol": [], "f6": 0, "drift": [], "keys": [], "sample": None, "lines": [], "filter_viol": []}
    for msg, r in zip(msgs, res["format"]):
        viol, f6, drift = judge_formats(msg, r)
        if f6:
            out["f6"] += 1
        for clause, detail in viol:
            out["viol"].append({"clause": clause, "detail": detail, "message": msg, "record": "emitted by real Eliot calls"})
        out["drift"].extend(drift[:1])
        out["keys"].append((sorted(msg), True))
        if not any(has_linebreak(k) for k in msg):
            out["lines"].append(msg)
    fr = res["filter"][0]
    for how in ("run", "run_text", "main"):
        errs = judge_filter_output(fr[how], fr[how + "_exc"], [(m, "whole") for m in msgs])
        for e in errs[:2]:
            out["filter_viol"].append({"clause": "eliot.filter J (%s) on messages emitted by real Eliot calls: %s" % (how, e),
                                       "expr": "J", "lines": [json.dumps(m) for m in msgs]})
    if msgs:
        out["sample"] = {"message": msgs[0], "pretty": res["format"][0]["pretty"], "compact": res["format"][0]["compact"]}
    out["drift"] = sorted(set(out["drift"]))[:3]
    return out


# ---------------------------------------------------------------------------------------------------------------------
# (b) eliot-prettyprint
def sweep_messages():
    """The witness sweep: EVERY witness of every table at least once, on its own, independent of any random draw -- a value
    at top level, inside a nested structure and (text) as a key of a nested dictionary; every field name; every value of
    the type/status fields; every odd task_uuid; task levels and timestamps in rotation."""
    msgs = []

    def base():
        i = len(msgs)
        return {"task_uuid": "5eee9000-0000-4000-a000-%012d" % i, "task_level": LEVELS[i % len(LEVELS)], "timestamp": STAMPS[i % len(STAMPS)]}
    for cls in sorted(VALUES):
        for v in VALUES[cls]:
            msgs.append(dict(base(), message_type="app:event", val=v))
            if isinstance(v, str):
                msgs.append(dict(base(), action_type="app:task", action_status="started", val={"k": [v, {"in": v}]}))
                msgs.append(dict(base(), val={v: 0, "other": [1]}))
            elif not isinstance(v, (list, dict)):
                msgs.append(dict(base(), val=[{"n": v}]))
    for slot in sorted(NAMES):
        for name in NAMES[slot]:
            m = base()
            m[name] = 1
            msgs.append(m)
    for f in FIRST:
        for v in FIRST_VALUES[f]:
            m = base()
            m[f] = v
            msgs.append(m)
    for u in ["u", "task-1", "\u00fcn\u00ef-uuid", "abc123", "0", "a b", "100%", "{0}"]:
        msgs.append(dict(base(), task_uuid=u, message_type="m"))
    return msgs


# lines for eliot.filter only: what Python's json (hence Eliot without orjson) writes for floats that are not numbers, integers far
# beyond 64 bits, and a surrogate pair / lone surrogates in escaped form
FILTER_EXTRA_LINES = ['{"task_uuid":"u","task_level":[1],"timestamp":1.5,"x":NaN}', '{"task_uuid":"u","task_level":[1],"timestamp":1.5,"x":[Infinity,-Infinity]}',
                      '{"task_uuid":"u","task_level":[1],"timestamp":1.5,"n":18446744073709551617,"m":-9223372036854775809,"k":[%d]}' % (10 ** 40),
                      '{"task_uuid":"u","task_level":[1],"timestamp":1.5,"n":9223372036854775808}', '{"task_uuid":"u","task_level":[1],"timestamp":1.5,"s":"\\ud83d\\ude00 \\ud800"}',
                      '{"task_uuid":"u","task_level":[1],"timestamp":1.5,"f":1e400}', '{"task_uuid":"u","task_level":[1],"timestamp":1.5,"f":0.1,"g":1E2,"h":-0.0}']


def sweep_chunk(_):
    """Function level of the sweep: pretty_format / compact_format on every sweep message, eliot.filter identity on them."""
    msgs = sweep_messages()
    lines = [json.dumps(m) for m in msgs]
    fjobs = [{"expr": e, "lines": [l]} for l in lines + FILTER_EXTRA_LINES for e in ("J", "dict(J)")]       # one line per run: no witness hides another
    res = exec_jobs({"format": msgs, "filter": fjobs})
    out = {"n": len(msgs), "viol": [], "f6": 0, "drift": [], "keys": [], "sample": None, "lines": [], "filter_viol": []}
    for i, (msg, r) in enumerate(zip(msgs, res["format"])):
        viol, f6, drift = judge_formats(msg, r)
        if f6:
            out["f6"] += 1
        for clause, detail in viol:
            out["viol"].append({"clause": clause, "detail": detail, "message": msg, "record": "witness sweep"})
        out["drift"].extend(drift[:1])
        out["keys"].append((["sweep", i], True))
    for fr, job in zip(res["filter"], fjobs):
        for how in ("run", "run_text", "main"):
            errs = judge_filter_output(fr[how], fr[how + "_exc"], [(json.loads(job["lines"][0]), "whole")])
            for e in errs[:1]:
                out["filter_viol"].append({"clause": "eliot.filter %s (%s) on a line of the witness sweep: %s" % (job["expr"], how, e),
                                           "expr": job["expr"], "lines": job["lines"]})
                break
            if errs:
                break
    out["drift"] = sorted(set(out["drift"]))[:3]
    return out


def sweep_encodings(msg):
    """The JSON lines a sweep message is fed as: all-ASCII (every non-ASCII character escaped, lone surrogates included) and,
    when that differs and is possible, raw UTF-8."""
    a = json.dumps(msg).encode("ascii")
    encs = [("a", a)]
    if not _has_surrogate(msg):
        u = json.dumps(msg, ensure_ascii=False, separators=(",", ":")).encode("utf-8")
        if u != a:
            encs.append(("u", u))
    return encs


def run_inproc(nodes, keys):
    """prettyprint._main() in repository subprocesses (sys.stdin / sys.stdout replaced, module imported afresh per stream)."""
    def inproc(chunk):
        jobs = []
        for key in chunk:
            n = nodes[key]
            args = ["-c"] if key[0] == "compact" else []
            jobs.append({"args": args, "b64": base64.b64encode(stream_bytes(n["lines"])).decode()})
            if n["unterm"]:
                jobs.append({"args": args, "b64": base64.b64encode(stream_bytes(n["lines"], False)).decode()})
        res = iter(exec_jobs({"pp": jobs})["pp"])
        got = {}
        for key in chunk:
            r = next(res)
            got[key] = [(r["rc"], base64.b64decode(r["out_b64"]), r["err"]), None]
            if nodes[key]["unterm"]:
                r = next(res)
                got[key][1] = (r["rc"], base64.b64decode(r["out_b64"]), r["err"])
        return got
    nchunk = max(1, len(keys) // WORKERS + 1)
    out = {}
    with ThreadPoolExecutor(WORKERS) as ex:
        for g in ex.map(inproc, [keys[i:i + nchunk] for i in range(0, len(keys), nchunk)]):
            out.update(g)
    return out


PP_CODE = "import sys; sys.argv = ['eliot-prettyprint'] + %r; from eliot.prettyprint import _main; _main()"
MISSING = [b"{}", b'{"a": 1}', b'{"task_uuid": "u", "task_level": [1]}', b'{"task_uuid": "u", "timestamp": 1.5}',
           b'{"task_level": [1], "timestamp": 1.5, "message_type": "m"}', b'{"task_uuid": "u"}', b'{"timestamp": 0}',
           b'{"Task_uuid": "u", "task_level": [1], "timestamp": 1.5}', b'{"msg": "\xc3\xbc", "nested": {"task_uuid": "u", "task_level": [1], "timestamp": 1}}']
MISTYPED = [b'{"task_uuid":"u","task_level":5,"timestamp":1}', b'{"task_uuid":"u","task_level":[1],"timestamp":"x"}',
            b'{"task_uuid":"u","task_level":[1],"timestamp":null,"message_type":"m"}', b'{"task_uuid":"u","task_level":[1],"timestamp":1e20}',
            b'{"task_uuid":"u","task_level":[1],"timestamp":NaN}', b'{"task_uuid":"u","task_level":[1],"timestamp":-1e15}',
            b'{"task_uuid":"u","task_level":[1],"timestamp":true}', b'{"task_uuid":"u","task_level":[2],"timestamp":false,"x":1}',
            b'{"task_uuid":"u","task_level":[1],"timestamp":1e400}', b'{"task_uuid":"u","task_level":[1],"timestamp":-1e300}',
            b'{"task_uuid":"u","task_level":[1],"timestamp":Infinity}', b'{"task_uuid":"u","task_level":[1],"timestamp":-62135596801}',
            b'{"task_uuid":"u","task_level":[1],"timestamp":"1.5"}', b'{"task_uuid":"u","task_level":[1],"timestamp":[]}',
            b'{"task_uuid":"u","task_level":[1],"timestamp":{}}', b'{"task_uuid":"u","task_level":[1],"timestamp":253402300800}',
            b'{"task_uuid":5,"task_level":[1],"timestamp":1}', b'{"task_uuid":null,"task_level":[1],"timestamp":1.5,"action_type":"a","action_status":"started"}',
            b'{"task_uuid":["u"],"task_level":[],"timestamp":1}', b'{"task_uuid":{"a":1},"task_level":[1],"timestamp":1}', b'{"task_uuid":true,"task_level":[1],"timestamp":1}',
            b'{"task_uuid":"u","task_level":[],"timestamp":1}', b'{"task_uuid":"u","task_level":["a"],"timestamp":1}', b'{"task_uuid":"u","task_level":[[1]],"timestamp":1}',
            b'{"task_uuid":"u","task_level":null,"timestamp":1}', b'{"task_uuid":"u","task_level":"ab","timestamp":1}', b'{"task_uuid":"u","task_level":{"1":2},"timestamp":1}',
            b'{"task_uuid":"u","task_level":1.5,"timestamp":1}', b'{"task_uuid":"u","task_level":[1.5, null],"timestamp":1}', b'{"task_uuid":"u","task_level":true,"timestamp":1}',
            b'{"task_uuid":null,"task_level":null,"timestamp":null}', b'{"timestamp":"2026-10-02T12:00:00Z","task_level":"/1","task_uuid":"u","message_type":"other:tool"}']
SCALARS = [b"5", b"-1.5e3", b'"a string"', b"true", b"false", b"0", b'""', b"12345678901234567890123", b'"task_uuid"', b"1.0", b' 7 ',
           b'"\\ud83d"', b'"\\u2028"', b"1" * 400, b'"100% {}"']
ARRAYS = [b"[]", b"[1, 2]", b'[{"task_uuid":"u","task_level":[1],"timestamp":1.0}]', b"[[]]", b'["task_uuid","task_level","timestamp"]',
          b'[null]', b' [1,\t2] ']
NULLS = [b"null", b" null ", b"null\r"]
TEXTS = [b"hello", b"{'a': 1}", b'{"a": 1', b"Traceback (most recent call last):", b"2026-10-02 12:00:00 INFO something happened",
         b'{"a":1}{"b":2}', b'{"task_uuid": "u", "task_level": [1], "timestamp": 1.0', b"<xml/>", b"\x00\x01binary", "\u00fcn\u00efcode text".encode("utf-8"),
         b"nul", b"[1, 2", b"{,}", b"'single'", b"undefined", b"Not JSON: b'x'", b"1 2",
         b"1" * 5000,                          # a JSON number Python refuses to convert (more than 4300 digits): ValueError
         b"[" * 3000, b'{"a":' * 2500]        # nested too deeply for the decoder (RecursionError, fixed in 0a... "fix: eliot-prettyprint survives...")
BADUTF8 = [b"\xff\xfe", b"\x80abc", b'{"task_uuid": "\xff"}', b"caf\xe9", b"\xc3", b"\xed\xa0\x80", b"\xf8\x88\x80\x80\x80", b'"\xe9"', b"{\xff}"]
EMPTIES = [b"", b"   ", b"\t", b"\r"]
FOREIGN = {"missing": MISSING, "mistyped": MISTYPED, "scalar": SCALARS, "array": ARRAYS, "null": NULLS, "text": TEXTS, "badutf8": BADUTF8, "empty": EMPTIES}
PHRASE = {"NotJSON": "Not JSON", "NotEliot": "Not an Eliot message"}


def encode_line(msg, rng):
    k = rng.randrange(4)
    ea = _has_surrogate(msg) or k == 0
    t = json.dumps(msg, ensure_ascii=ea, separators=(",", ":") if k == 1 else None, sort_keys=(k == 2))
    return t.encode("utf-8") + (b"\r" if k == 3 else b"")


def _has_surrogate(o):
    return re.search(r"\\ud[89a-f][0-9a-f]{2}", json.dumps(o)) is not None


def draw_line(cls, rng, pool):
    """-> {"cls", "b64", "msg"}"""
    if cls == "eliot":
        msg = rng.choice(pool)
        raw = encode_line(msg, rng)
        return {"cls": cls, "b64": base64.b64encode(raw).decode(), "msg": msg}
    raw = rng.choice(FOREIGN[cls])
    return {"cls": cls, "b64": base64.b64encode(raw).decode(), "msg": None}


def run_pp(args, data):
    p = repo_python(["-c", PP_CODE % (list(args),)], input_bytes=data, timeout=300, env=ENV)
    return p.returncode, p.stdout, p.stderr.decode("utf-8", "replace")[-600:]


def stream_bytes(lines, terminated=True):
    data = b"".join(base64.b64decode(l["b64"]) + b"\n" for l in lines)
    return data if terminated else data[:-1]


def judge_pp_block(fmt, line, kind, block):
    """Clauses for the block written for ONE input line.  -> (violations, drift notes)"""
    viol, drift = [], []
    if kind == "Render":
        if not block.endswith("\n"):
            viol.append("the rendering of a message is not terminated by a line break: %r" % block[-80:])
        if fmt == "compact":
            errs, order, f6 = check_compact(line["msg"], block[:-1] if block.endswith("\n") else block)
        else:
            errs, order = check_pretty(line["msg"], block)
        viol.extend(errs)
    else:
        # "RenderOrNotEliot" (an object with the required keys but ill-typed values): either a rendering or a report -- some block
        if block.strip() == "":
            viol.append("nothing is written for a line that is %s" % {"NotJSON": "not JSON", "NotEliot": "not an Eliot message"}.get(
                kind, "an object with ill-typed required fields (neither rendered nor reported)"))
        elif not block.endswith("\n"):
            viol.append("the report is not terminated by a line break: %r" % block[-80:])
        elif kind in PHRASE and PHRASE[kind] not in block:
            drift.append("eliot-prettyprint reports a %s line as %r, modelled wording %r" % (line["cls"], block.strip()[:60], PHRASE[kind]))
    return viol, drift


def pp_replay_obj(fmt, lines, terminated=True):
    return {"engine": "c20", "module": "checks_c20", "kind": "pp", "fmt": fmt, "lines": lines, "terminated": terminated}


def judge_pp_nodes(rep, drift, nodes, results, how):
    """results: key -> [(rc, stdout bytes, stderr tail) for the stream, the same for the stream without its final line break
    or None].  The block of the LAST line of every stream is judged (the blocks of the earlier lines are judged at the
    prefixes, which are cases of their own: `results` is prefix-closed)."""
    failed = set()
    for key in sorted(results, key=lambda k: (len(k[1]), k)):
        fmt, stream, w = key
        n = nodes[key]
        (rc, out, err), unterm = results[key]
        rep.count_case(["pp", fmt, stream], True)
        rep.cov["traces_validated_against_impl"] += 1
        viol, term = [], True
        if len(stream) > 1 and (fmt, stream[:-1], w) in failed:
            failed.add(key)
            continue                                  # reported at the prefix
        if rc != 0:
            viol.append("aborted (exit status %s) on a stream of lines %s: %s" % (rc, list(stream), err[-300:]))
        else:
            try:
                text = out.decode("utf-8")
                ptext = results[(fmt, stream[:-1], w)][0][1].decode("utf-8") if len(stream) > 1 else ""
                if not text.startswith(ptext):
                    viol.append("with one more input line, the output for the earlier lines changed")
                else:
                    v, d = judge_pp_block(fmt, n["lines"][-1], n["kinds"][-1], text[len(ptext):])
                    viol.extend("line %d of the stream %s: %s" % (len(stream), list(stream), x) for x in v)
                    drift.add(d)
            except UnicodeDecodeError:
                viol.append("wrote bytes that are not UTF-8")
            if not viol and unterm is not None:
                term = False
                if unterm[0] != 0:
                    viol.append("aborted (exit status %s) when the last line %s has no line break: %s" % (unterm[0], list(stream), unterm[2][-300:]))
                elif unterm[1] != out:
                    viol.append("a last line without a line break is treated differently: %r vs %r" % (unterm[1][-200:], out[-200:]))
        if viol:
            failed.add(key)
            rep.violation("%s%s: %s" % (how, " -c" if fmt == "compact" else "", viol[0][:700]), pp_replay_obj(fmt, n["lines"], term))


# ---------------------------------------------------------------------------------------------------------------------
# (c) eliot.filter
EXPR = {"J": "J",
        "get": "J.get('field')",
        "uuid": "J['task_uuid']",
        "J_if_sel": "J if J.get('message_type') == 'my:message' else SKIP",
        "skip_if_sel": "SKIP if J.get('message_type') == 'my:message' else J",
        "fld_if_has": "J['field'] if 'field' in J else SKIP",
        "get_if_sel": "J.get('field') if J.get('message_type') == 'my:message' else SKIP",
        "upd": "J.update(host='x') or J",
        "pop": "[J.pop('field', None), J][1]",
        "setdef": "[J.setdefault('field', 'dflt'), J][1]",
        "setitem": "J.__setitem__('field', 'new') or J",
        "copy": "dict(J)"}
FALSY = [0, "", [], {}, False, None, 0.0]
TRUTHY = [1, "text", [0], {"a": None}, True, 2.5, "multi\nline", "\u00fc", [[]], "0", -1, {"": ""}]


def draw_filter_message(sel, fld, rng):
    msg = {"task_uuid": draw_uuid(rng), "task_level": rng.choice(LEVELS), "timestamp": rng.choice(STAMPS)}
    if sel:
        msg["message_type"] = "my:message"
    else:
        k = rng.randrange(3)
        if k == 0:
            msg["message_type"] = rng.choice(["app:other", "my:message2", "", "My:Message"])
        elif k == 1:
            msg["action_type"] = rng.choice(["my:message", "app:task"])
            msg["action_status"] = rng.choice(FIRST_VALUES["action_status"])
    if fld == "truthy":
        msg["field"] = rng.choice(TRUTHY)
    elif fld == "falsy":
        msg["field"] = rng.choice(FALSY)
    for _ in range(rng.randrange(3)):
        name = rng.choice(NAMES[rng.choice([5, 6, 8, 10])])
        msg[name] = rng.choice(VALUES[rng.choice(sorted(VALUES))])
    items = list(msg.items())
    rng.shuffle(items)
    return dict(items)


def expected_value(msg, what):
    if what == "whole_upd":
        return dict(msg, host="x")
    if what == "whole_pop":
        return {k: v for k, v in msg.items() if k != "field"}
    if what == "whole_setdef":
        return dict(msg, field="dflt")
    if what == "whole_setitem":
        return dict(msg, field="new")
    return {"whole": msg, "field": msg.get("field"), "null": None, "uuid": msg["task_uuid"]}[what]


def judge_filter_output(text, exc, expected):
    """expected: [(message, what)] for the lines that must be written, in order."""
    if text is None:
        return ["raised %s" % exc]
    parts = text.split("\n")
    if parts[-1] != "":
        return ["the output does not end with a line break: %r" % text[-80:]]
    parts = parts[:-1]
    if len(parts) != len(expected):
        return ["%d lines written, %d expected (one per input line whose value is not SKIP)" % (len(parts), len(expected))]
    errs = []
    for i, (p, (msg, what)) in enumerate(zip(parts, expected)):
        try:
            v = json.loads(p)
        except ValueError:
            errs.append("output line %d is not JSON: %r" % (i + 1, p[:200]))
            continue
        if not typed_eq(v, expected_value(msg, what)):
            errs.append("output line %d is %r, not the JSON encoding of %r" % (i + 1, p[:200], expected_value(msg, what)))
    return errs


def run_filter_cli(expr, lines):
    data = "".join(l + "\n" for l in lines).encode("utf-8")
    p = repo_python(["-m", "eliot.filter", expr], input_bytes=data, timeout=300, env=ENV)
    out = None
    try:
        out = p.stdout.decode("utf-8")
    except UnicodeDecodeError:
        pass
    if p.returncode != 0:
        return None, "exit status %s: %s" % (p.returncode, p.stderr.decode("utf-8", "replace")[-300:])
    return out, ""


def filter_lines(msgs, rng):
    return [json.dumps(m, ensure_ascii=bool(rng.randrange(2)) or _has_surrogate(m), sort_keys=bool(rng.randrange(2))) for m in msgs]


# ---------------------------------------------------------------------------------------------------------------------
class Drift:
    def __init__(self, rep):
        self.rep, self.seen = rep, set()

    def add(self, notes):
        for n in notes:
            key = n.split(" as ")[0].split(":")[0]
            if key not in self.seen and len(self.seen) < 6:
                self.seen.add(key)
                print("MODEL-DRIFT Readers: %s" % n)
                self.rep.cov["model_drift"].append(n)


def f6_entry():
    for f in known_findings():
        if f.get("id") == "F6" and f.get("status") == "open":
            return f
    return None


def _t(label, t0=[None]):
    if os.environ.get("VERIF_C20_TIMING"):
        now = time.time()
        print("  [timing] %-28s %.1fs" % (label, now - (t0[0] or now)))
        t0[0] = now


def run(prop, tier):
    rep = Report(prop, tier)
    _t("start")
    quick = tier == "quick"
    rep.cov["rule"] = ("cases = every record TLC prints for Readers.tla: (layout) which of action_type/message_type/action_status are present x "
                       "sets of <=3 further fields (10 field-name classes x 9 value classes); (pp) every stream of <=MaxLines lines over 9 "
                       "line classes x {pretty, compact}; (filter) every stream of <=MaxLines lines over 6 message classes x 12 expression "
                       "classes; each instantiated with seeded concrete witnesses and executed on the real functions / command-line entry "
                       "points, plus messages produced by real Eliot calls.  distinct = distinct abstract record; non-trivial = at least "
                       "one field besides the header (layout) / at least one line (streams)")
    rep.cov["python_oracle_clauses"] = [
        "value rendering: compact part json.loads to the logged value; pretty shows every scalar leaf / every word of every line (Python oracle "
        "attached to the model-enumerated case; Readers.tla only names the rule per value class)",
        "timestamp equals the logged instant to the microsecond", "typed JSON equality of eliot.filter output"]
    rep.assumptions = ["field names are valid Unicode (no lone surrogates) and, in streams, free of line breaks (F6 is exercised at function level)",
                       "filter streams contain JSON lines only; expressions are total on the lines they are given",
                       "strings containing a literal backslash followed by n or t are not required to be shown verbatim by pretty_format "
                       "(documented lossy un-escaping)", "stdout of the commands is UTF-8 (PYTHONIOENCODING=utf-8)"]
    drift = Drift(rep)
    rng = random.Random(SEED)
    f6 = f6_entry()
    try:
        # ---- TLC: the four model-checking runs, concurrently -------------------------------------------------------
        lay_consts = dict(MaxExtra=3, TripleMode='"rot"' if quick else '"pair"')
        ml = 3 if quick else 4
        runs = {"layout": ("MC_Readers_layout.cfg", lay_consts), "pp": ("MC_Readers_pp.cfg", dict(MaxLines=ml)),
                "filter": ("MC_Readers_filter.cfg", dict(MaxLines=ml)), "broken": ("MC_Readers_broken.cfg", {})}
        with ThreadPoolExecutor(4) as ex:
            futs = {k: ex.submit(run_tlc, "Readers", cfg_with(c, **kv), {"layout": 8, "broken": 1}.get(k, 4), None, 1500) for k, (c, kv) in runs.items()}
            tlc = {k: f.result() for k, f in futs.items()}
        for k in ("layout", "pp", "filter"):
            require_ok(tlc[k], "Readers.tla " + k)
            rep.add_tlc(runs[k][0], tlc[k], dict(runs[k][1]))
            if tlc[k].violated:
                rep.violation("TLC: %s violated on Readers.tla (%s)" % (tlc[k].violated, k), {"engine": "c20", "module": "checks_c20", "kind": "tlc",
                                                                                               "tlc_tail": tlc[k].out[-4000:]})
        rep.add_tlc(runs["broken"][0], tlc["broken"], {"MaxLines": 2}, expect_violation="INV_PP")
        if tlc["broken"].violated != "INV_PP":
            raise MachineryFailure("the broken sibling (pretty-printer that stops at the first bad line) was not rejected by TLC: %s"
                                   % (tlc["broken"].error or tlc["broken"].violated))
        lay = tlc_records(tlc["layout"].out, "LAY")
        pps = tlc_records(tlc["pp"].out, "PP")
        fls = tlc_records(tlc["filter"].out, "FILT")
        for name, recs, r in (("layout", lay, tlc["layout"]), ("pp", pps, tlc["pp"]), ("filter", fls, tlc["filter"])):
            m = re.search(r"Finished computing initial states: (\d+) distinct state", r.out)
            if not m or int(m.group(1)) != len(recs) or not recs:
                raise MachineryFailure("%s: %d records parsed, TLC reports %s cases" % (name, len(recs), m.group(1) if m else "?"))
        lay.sort(key=json.dumps)
        pps.sort(key=json.dumps)
        fls.sort(key=json.dumps)

        _t('tlc')
        # ---- the witness of the known finding, first ------------------------------------------------------------------
        wit = {"task_uuid": "u", "task_level": [1], "timestamp": 0.0, "message_type": "m", "a\nb": 1}
        wres = exec_jobs({"format": [wit]})["format"][0]
        werrs, worder, wf6 = check_compact(wit, wres["compact"]) if wres["compact"] is not None else (["raised"], None, False)
        if f6 and not wf6 and not werrs:
            print("note: known finding F6 no longer shows on its witness (compact_format keeps a name with a line break on one line)")

        # ---- (a) layout -------------------------------------------------------------------------------------------------
        size = 1500 if quick else 4000
        chunks = [(lay[i:i + size], rng.randrange(10 ** 9), (2, 1) if quick else (6, 3)) for i in range(0, len(lay), size)]
        emitted = [(rng.randrange(10 ** 9), 40 if quick else 250) for _ in range(8 if quick else 48)]
        pool = []
        f6_count = 0
        with ProcessPoolExecutor(WORKERS) as ex:
            lay_res = list(ex.map(layout_chunk, chunks))
            em_res = list(ex.map(emitted_chunk, emitted)) + list(ex.map(sweep_chunk, [0]))
        for o in lay_res + em_res:
            for key, nt in o["keys"]:
                rep.count_case(key, nt)
            rep.cov["traces_validated_against_impl"] += o["n"]
            f6_count += o["f6"]
            drift.add(o["drift"])
            for v in o["viol"]:
                rep.violation("%s | message %s | %s" % (v["clause"], json.dumps(v["message"])[:400], v["detail"][:300]),
                              {"engine": "c20", "module": "checks_c20", "kind": "format", "message": v["message"], "record": v["record"],
                               "clause": v["clause"]})
            for v in o.get("filter_viol", []):
                rep.violation(v["clause"], {"engine": "c20", "module": "checks_c20", "kind": "filter", "expr": v["expr"], "lines": v["lines"],
                                            "expected": [[i, "whole"] for i in range(len(v["lines"]))], "clause": v["clause"]})
            pool.extend(o.get("lines", []))
        rep.sample(lay_res[0]["sample"])
        rep.sample(em_res[0]["sample"])
        rep.cov["f6_occurrences"] = f6_count
        if f6_count or wf6:
            if f6:
                rep.known_finding("F6", "compact_format writes a field NAME containing a line break raw, so its 'single line' spans several "
                                        "lines (%d model cases + witness)" % f6_count)
            else:
                rep.violation("compact: the output is not a single line when a field name contains a line break (no open known finding F6)",
                              {"engine": "c20", "module": "checks_c20", "kind": "format", "message": wit, "record": "F6 witness",
                               "clause": "compact: the output is not a single line"})
        _t('layout+emitted')
        # pool of Eliot lines for the streams: model witnesses without line-break names + real emitted messages
        prng = random.Random(SEED + 1)
        for rec in prng.sample(lay, min(len(lay), 400)):
            if not rec[3]:
                msg, _ = instantiate_layout(rec, prng)
                if not label_conflict([k for k in msg if k not in HEADER]):
                    pool.append(msg)
        pool.sort(key=json.dumps)

        # ---- (b) eliot-prettyprint: every stream TLC enumerated, on the real entry point -----------------------------------
        nvar = 1 if quick else 3
        nodes = {}
        for _, fmt, stream, kinds in pps:
            for w in range(nvar if len(stream) < 4 else 1):
                lines = []
                for k in range(len(stream)):
                    lrng = random.Random("%d|%d|%s" % (SEED, w, "/".join(stream[:k + 1])))
                    lines.append(draw_line(stream[k], lrng, pool))
                unterm = random.Random("%d|u|%s|%s" % (SEED, fmt, "/".join(stream))).randrange(4 if quick else 2) == 0
                unterm = unterm and base64.b64decode(lines[-1]["b64"]) != b""        # an empty last line without a line break is no line
                nodes[(fmt, tuple(stream), w)] = {"lines": lines, "kinds": kinds, "unterm": unterm}
        keys = sorted(nodes)

        # (b1) _main() in a repository subprocess, sys.stdin / sys.stdout replaced, module imported afresh per stream: all nodes
        inproc_res = run_inproc(nodes, keys)
        judge_pp_nodes(rep, drift, nodes, inproc_res, "eliot.prettyprint._main()")
        _t('pp in-process')

        # (b2) the command itself as a subprocess with binary stdin: all short streams and a seeded sample of the longest
        crng = random.Random(SEED + 4)
        cli_keys = [k for k in keys if k[2] == 0 and (len(k[1]) < ml or crng.randrange(32 if quick else 16) == 0)]

        def cli(key):
            n = nodes[key]
            args = ["-c"] if key[0] == "compact" else []
            return key, [run_pp(args, stream_bytes(n["lines"])), run_pp(args, stream_bytes(n["lines"], False)) if n["unterm"] else None]
        with ThreadPoolExecutor(WORKERS) as ex:
            cli_res = dict(ex.map(cli, cli_keys))
        judge_pp_nodes(rep, drift, nodes, cli_res, "the eliot-prettyprint command")
        some = keys[len(keys) // 2]
        rep.sample({"stream": [l["cls"] for l in nodes[some]["lines"]], "expected_blocks": nodes[some]["kinds"],
                    "stdout": inproc_res[some][0][1].decode("utf-8", "replace")[:500]})

        # (b3) the witness sweep: every witness of every table as a stream of its own through _main() in both formats (message lines
        # in all-ASCII and in raw UTF-8 encoding; every foreign line of every class), and all of them through the command as a
        # subprocess, in batches whose output must be the sequence of the blocks that the single lines gave
        kind_of = {rec[2][0]: rec[3][0] for rec in pps if len(rec[2]) == 1}
        snodes = {}
        for i, m in enumerate(sweep_messages()):
            if any(has_linebreak(k) for k in m):
                continue                                      # F6, exercised at function level
            for tag, raw in sweep_encodings(m):
                for fmt in ("pretty", "compact"):
                    snodes[(fmt, ("eliot",), "s%04d%s" % (i, tag))] = {"lines": [{"cls": "eliot", "b64": base64.b64encode(raw).decode(), "msg": m}],
                                                                       "kinds": [kind_of["eliot"]], "unterm": False}
        for cls in sorted(FOREIGN):
            for j, raw in enumerate(FOREIGN[cls]):
                for fmt in ("pretty", "compact"):
                    snodes[(fmt, (cls,), "f%03d" % j)] = {"lines": [{"cls": cls, "b64": base64.b64encode(raw).decode(), "msg": None}],
                                                           "kinds": [kind_of[cls]], "unterm": False}
        skeys = sorted(snodes)
        sres = run_inproc(snodes, skeys)
        judge_pp_nodes(rep, drift, snodes, sres, "eliot.prettyprint._main() [witness sweep]")
        batches = []
        for (fmt, cls), grp in itertools.groupby(skeys, key=lambda k: (k[0], k[1][0])):
            grp = list(grp)
            batches.extend((fmt, grp[i:i + 40]) for i in range(0, len(grp), 40))

        def sweep_batch(b):
            fmt, grp = b
            return run_pp(["-c"] if fmt == "compact" else [], stream_bytes([snodes[k]["lines"][0] for k in grp]))
        with ThreadPoolExecutor(WORKERS) as ex:
            bres = list(ex.map(sweep_batch, batches))
        for (fmt, grp), (rc, out, err) in zip(batches, bres):
            rep.count_case(["pp-sweep", fmt, grp[0][1], grp[0][2]], True)
            rep.cov["traces_validated_against_impl"] += 1
            if all(sres[k][0][0] == 0 for k in grp) and rc == 0 and out == b"".join(sres[k][0][1] for k in grp):
                continue                                      # the blocks of the single lines, which were judged one by one
            with ThreadPoolExecutor(WORKERS) as ex:           # locate: the lines of the batch one by one through the command
                one = dict(ex.map(lambda k: (k, [run_pp(["-c"] if fmt == "compact" else [], stream_bytes(snodes[k]["lines"])), None]), grp))
            before = len(rep.violations)
            judge_pp_nodes(rep, drift, snodes, one, "the eliot-prettyprint command [witness sweep]")
            if len(rep.violations) == before:
                lines = [snodes[k]["lines"][0] for k in grp]
                rep.violation("the eliot-prettyprint command%s: %s on a stream of %d %s lines although each line alone is handled" % (
                    " -c" if fmt == "compact" else "", ("aborted (exit status %s): %s" % (rc, err[-300:])) if rc else
                    "the output is not the sequence of the blocks of its lines", len(lines), grp[0][1][0]), pp_replay_obj(fmt, lines))
        _t('pp sweep')

        # soak: long random streams; the output must be the concatenation of the outputs for the single lines
        srng = random.Random(SEED + 2)
        for s in range(1 if quick else 6):
            fmt = ["pretty", "compact"][s % 2]
            lines = [draw_line(srng.choice(["eliot"] * 3 + sorted(FOREIGN)), srng, pool) for _ in range(40 if quick else 120)]
            args = ["-c"] if fmt == "compact" else []
            singles = exec_jobs({"pp": [{"args": args, "b64": base64.b64encode(stream_bytes([l])).decode()} for l in lines]})["pp"]
            singles = [(x["rc"], base64.b64decode(x["out_b64"])) for x in singles]
            rc, out, err = run_pp(args, stream_bytes(lines))
            rep.count_case(["pp-soak", s], True)
            rep.cov["traces_validated_against_impl"] += 1
            if rc != 0:
                rep.violation("eliot-prettyprint aborted (exit status %s) on a stream of %d lines: %s" % (rc, len(lines), err[-300:]), pp_replay_obj(fmt, lines))
            elif all(x[0] == 0 for x in singles) and out != b"".join(x[1] for x in singles):
                rep.violation("eliot-prettyprint: the output for a stream of %d lines is not the sequence of the blocks of its lines" % len(lines),
                              pp_replay_obj(fmt, lines))

        _t('pp soak')
        # ---- (c) eliot.filter ----------------------------------------------------------------------------------------------
        frng = random.Random(SEED + 3)
        fcases = []
        for _, expr, stream, out in fls:
            for w in range(2 if quick else 3):
                msgs = [draw_filter_message(s, f, frng) for s, f in stream]
                fcases.append({"expr": expr, "stream": stream, "out": out, "msgs": msgs, "lines": filter_lines(msgs, frng), "w": w})
        fres = exec_jobs({"filter": [{"expr": EXPR[c["expr"]], "lines": c["lines"]} for c in fcases]})["filter"]
        cli = [c for c in fcases if c["w"] == 0 and (len(c["stream"]) < (2 if quick else ml) or frng.randrange(40 if quick else 8) == 0)]
        with ThreadPoolExecutor(WORKERS) as ex:
            cli_res = list(ex.map(lambda c: run_filter_cli(EXPR[c["expr"]], c["lines"]), cli))
        for c, r in zip(cli, cli_res):
            c["cli"] = r
        for c, r in zip(fcases, fres):
            expected = [(c["msgs"][i - 1], what) for i, what in c["out"]]
            rep.count_case(["filter", c["expr"], c["stream"]], True)
            rep.cov["traces_validated_against_impl"] += 1
            hows = [("EliotFilter.run on bytes lines", r["run"], r["run_exc"]), ("EliotFilter.run on text lines", r["run_text"], r["run_text_exc"]),
                    ("filter.main", r["main"], r["main_exc"])]
            if "cli" in c:
                hows.append(("python -m eliot.filter", c["cli"][0], c["cli"][1]))
            for how, text, exc in hows:
                errs = judge_filter_output(text, exc, expected)
                if errs:
                    rep.violation("eliot.filter %r via %s on %d lines %s: %s" % (EXPR[c["expr"]], how, len(c["lines"]), c["stream"], errs[0][:500]),
                                  {"engine": "c20", "module": "checks_c20", "kind": "filter", "expr": EXPR[c["expr"]], "lines": c["lines"],
                                   "expected": [[i - 1, what] for i, what in c["out"]], "field_msgs": c["msgs"], "clause": errs[0][:300]})
                    break
        # the witness sweep through the command: identity and the copying expression on every sweep message
        slines = [json.dumps(m) for m in sweep_messages()] + FILTER_EXTRA_LINES
        smsgs = [json.loads(l) for l in slines]
        for expr in ("J", "dict(J)"):
            text, exc = run_filter_cli(expr, slines)
            rep.count_case(["filter-sweep", expr], True)
            rep.cov["traces_validated_against_impl"] += 1
            errs = judge_filter_output(text, exc, [(m, "whole") for m in smsgs])
            if errs:
                rep.violation("python -m eliot.filter %r on the witness sweep (%d lines): %s" % (expr, len(slines), errs[0][:500]),
                              {"engine": "c20", "module": "checks_c20", "kind": "filter", "expr": expr, "lines": slines,
                               "expected": [[i, "whole"] for i in range(len(slines))], "clause": errs[0][:300]})
        rep.sample({"filter_expr": EXPR[fcases[-1]["expr"]], "lines": fcases[-1]["lines"], "expected_written": fcases[-1]["out"], "stdout": fres[-1]["run"]})
        _t('filter')
        rep.cov["exhaustive"] = False
        rep.cov["records"] = {"layout": len(lay), "pp": len(pps), "filter": len(fls), "inprocess_runs_pp": len(nodes), "cli_runs_pp": len(cli_keys), "cli_runs_filter": len(cli),
                              "messages_from_real_eliot_calls": sum(o["n"] for o in em_res[:-1]), "sweep_messages": em_res[-1]["n"],
                              "sweep_streams": len(snodes), "sweep_cli_batches": len(batches)}
    except MachineryFailure as e:
        print("MACHINERY-FAILURE %s: %s" % (prop, e))
        rep.finish()
        return 2
    return rep.finish()


# ---------------------------------------------------------------------------------------------------------------------
def replay(prop, obj, path):
    kind = obj.get("kind")
    bad = []
    if kind == "tlc":
        print("replay holds a specification-level counterexample (TLC output), nothing to execute:\n" + obj.get("tlc_tail", "")[-3000:])
        return 1
    if kind == "format":
        msg = obj["message"]
        r = exec_jobs({"format": [msg]})["format"][0]
        viol, f6, _ = judge_formats(msg, r)
        print("message: %s\npretty_format:\n%s\ncompact_format:\n%s" % (json.dumps(msg), r["pretty"] or r["pretty_exc"], r["compact"] or r["compact_exc"]))
        bad = [c for c, d in viol]
        if f6 and not f6_entry():
            bad.append("compact: the output is not a single line (field name with a line break)")
    elif kind == "pp":
        fmt, lines = obj["fmt"], obj["lines"]
        args = ["-c"] if fmt == "compact" else []
        rc, out, err = run_pp(args, stream_bytes(lines, obj.get("terminated", True)))
        print("stream classes %s, exit status %s\nstdout:\n%s\nstderr: %s" % ([l["cls"] for l in lines], rc, out.decode("utf-8", "replace"), err))
        if rc != 0:
            bad.append("aborted with exit status %s" % rc)
        else:
            singles = [run_pp(args, stream_bytes([l])) for l in lines]
            if any(s[0] != 0 for s in singles):
                bad.append("aborted on a single line")
            elif out != b"".join(s[1] for s in singles):
                bad.append("the output is not the sequence of the blocks of its lines")
            for l, s in zip(lines, singles):
                if s[0] == 0:
                    kindl = "Render" if l["cls"] == "eliot" else ("RenderOrNotEliot" if l["cls"] == "mistyped" else
                                                                     ("NotEliot" if l["cls"] in ("missing", "scalar", "array", "null") else "NotJSON"))
                    v, _ = judge_pp_block(fmt, l, kindl, s[1].decode("utf-8", "replace"))
                    bad.extend(v)
    elif kind == "filter":
        msgs = [json.loads(l) for l in obj["lines"]]
        expected = [(msgs[i], what) for i, what in obj["expected"]]
        r = exec_jobs({"filter": [{"expr": obj["expr"], "lines": obj["lines"]}]})["filter"][0]
        cli = run_filter_cli(obj["expr"], obj["lines"])
        print("expression %r on %d lines; EliotFilter.run wrote %r" % (obj["expr"], len(obj["lines"]), r["run"] if r["run"] is not None else r["run_exc"]))
        for text, exc in ((r["run"], r["run_exc"]), (r["run_text"], r["run_text_exc"]), (r["main"], r["main_exc"]), cli):
            bad.extend(judge_filter_output(text, exc, expected))
    else:
        print("unknown replay kind %r" % kind)
        return 2
    for b in bad[:5]:
        print("  still failing: %s" % b[:500])
    if bad:
        print("VIOLATION property=%s replay=%s" % (prop, path))
        return 1
    print("the recorded clause (%s) holds now" % obj.get("clause", obj.get("what", ""))[:200])
    return 0
