"""Concurrency halves of C12 (hand-over from start-up buffering) and C06 (single use of the preserve_context callable),
added to the engine-1 runs of those properties."""
import random
from common import *
from engine_conc import *


def _tlc(rep, module, cfg, label, consts, expect=None):
    r = run_tlc(module, cfg, timeout=600, workers=8, only=expect)
    require_ok(r, cfg)
    rep.add_tlc(label, r, consts, expect_violation=expect)
    if expect:
        if r.violated != expect:
            raise MachineryFailure("%s: TLC should reject the broken sibling with %s, got %s" % (cfg, expect, r.violated))
    elif r.violated:
        rep.violation("TLC: %s violated on %s" % (r.violated, module), {"engine": "conc", "tlc_tail": r.out[-4000:]})


def c12_concurrent(rep, tier):
    quick = tier == "quick"
    _tlc(rep, "Handover", "MC_Handover.cfg", "MC_Handover.cfg (level B, repaired code)", {"K": 3, "Variant": "fixed"})
    _tlc(rep, "Handover", "MC_Handover_orig.cfg", "MC_Handover_orig.cfg (vacuity guard: code before fix 9b16ca8)", {"K": 3, "Variant": "orig"},
         expect="C12_NoLoss")
    _tlc(rep, "Handover", "MC_Handover_swapfirst.cfg", "MC_Handover_swapfirst.cfg (vacuity guard: new list published before the re-delivery, F15)",
         {"K": 3, "Variant": "swapfirst"}, expect="C12_InOrder")
    rng = random.Random(SEED + 12)
    scs = []
    for th, pre, post, dests in [({"L": [3, 4]}, [1, 2], [5], [1, 2]), ({"L": [1, 2, 3]}, [], [4], [1]),
                                 ({"L1": [2, 3], "L2": [4]}, [1], [5], [1, 2]), ({"L": [2]}, [1], [], [1, 2, 3])]:
        two = len(th) > 1
        scs.append({"kind": "handover", "threads": th, "pre": pre, "post": post, "dests": dests, "max_pre": 1 if (quick and two) else 2,
                    "cap": 120 if quick else 8000, "random": 30 if quick else 2000, "seed": rng.randint(0, 10 ** 9),
                    "budget_s": 60 if quick else 240})
    results = run_scenarios(scs)
    hs = [(res["scenario"], h) for res in results for h in res["runs"]]
    acc, st = tlc_accepts("HandoverA", "HandoverA.cfg", [h for _, h in hs])
    rep.cov["states"] += st
    rep.cov["transitions"] += st
    rep.cov["handover_schedules"] = len(hs)
    for (sc, h), a in zip(hs, acc):
        rep.cov["traces_validated_against_impl"] += 1
        rep.count_case(["handover", sc["threads"], h["schedule"]], len(set(h["schedule"])) > 1)
        if h["errors"]:
            rep.violation("a call raised during the hand-over: %s" % h["errors"][:2],
                          {"engine": "conc", "module": "checks_conc_extra", "scenario": sc, "schedule": h["schedule"]})
        elif a is None:
            raise MachineryFailure("no verdict for a hand-over history")
        elif a[2]:
            rep.violation("hand-over from buffering to destinations under a concurrent logger: %s" % a[2],
                          {"engine": "conc", "module": "checks_conc_extra", "scenario": sc, "schedule": h["schedule"], "history": h["ev"]})
    if hs:
        rep.sample({"handover_scenario": hs[0][0]["threads"], "history": hs[0][1]["ev"][:14]})
    # the deterministic witness of the open finding F16 (a send in flight while a global field is set) runs first
    for f in known_findings():
        if f["id"] == "F16" and f["status"] == "open" and isinstance(f.get("witness"), dict) and f["witness"].get("schedule"):
            wsc = dict(f["witness"]["scenario"], fixed_schedule=f["witness"]["schedule"])
            wh = run_scenarios([wsc])[0]["runs"][0]
            wa, _ = tlc_accepts("HandoverCapA", "HandoverCapA.cfg", [{k: v for k, v in wh.items() if k != "schedule"}])
            if wa[0] and wa[0][2] == f["clause"]:
                rep.known_finding("F16", "a send() already past its merge of the global fields when another thread sets a new one delivers its "
                                         "message afterwards without it")
            else:
                print("note: known finding F16 no longer shows on its recorded schedule (clause now %r)" % (wa[0][2] if wa[0] else None))
    # the same race with global fields set just before the first add(), and with a FULL buffer (the most recent 1000 are kept)
    full = list(range(100, 1100))
    scs = [{"kind": "handover_cap", "threads": {"L": [1, 2]}, "pre": [11, 12, 13], "dests": [1, 2], "gf": True, "max_pre": 2,
            "cap": 150 if quick else 6000, "random": 30 if quick else 1500, "seed": rng.randint(0, 10 ** 9), "budget_s": 60 if quick else 180},
           {"kind": "handover_cap", "threads": {"L": [1]}, "pre": full, "dests": [1], "gf": True, "max_pre": 2, "early": True,
            "cap": 20 if quick else 600, "random": 4 if quick else 300, "seed": rng.randint(0, 10 ** 9), "budget_s": 40 if quick else 240},
           {"kind": "handover_cap", "threads": {"L": [1]}, "pre": full[:999], "dests": [1], "gf": False, "max_pre": 1, "early": True,
            "cap": 8 if quick else 300, "random": 2 if quick else 100, "seed": rng.randint(0, 10 ** 9), "budget_s": 30 if quick else 150}]
    results = run_scenarios(scs)
    hs = [(res["scenario"], h) for res in results for h in res["runs"]]
    acc, st = tlc_accepts("HandoverCapA", "HandoverCapA.cfg", [{k: v for k, v in h.items() if k != "schedule"} for _, h in hs])
    rep.cov["states"] += st
    rep.cov["transitions"] += st
    rep.cov["handover_full_buffer_schedules"] = len(hs)
    for (sc, h), a in zip(hs, acc):
        rep.cov["traces_validated_against_impl"] += 1
        rep.count_case(["handover_cap", len(sc["pre"]), h["schedule"]], len(set(h["schedule"])) > 1)
        small = dict(sc, pre=[len(sc["pre"]), "ids from", sc["pre"][0]]) if len(sc["pre"]) > 20 else sc
        if h["errors"]:
            rep.violation("a call raised during the hand-over (full buffer / global fields): %s" % h["errors"][:2],
                          {"engine": "conc", "module": "checks_conc_extra", "scenario": sc, "schedule": h["schedule"]})
        elif a is None:
            raise MachineryFailure("no verdict for a full-buffer hand-over history")
        elif a[2] == "global_field_missing_send_in_flight" and any(
                f["id"] == "F16" and f["status"] == "open" and f.get("clause") == a[2] for f in known_findings()):
            rep.known_finding("F16", "a send() already past its merge of the global fields when another thread sets a new one delivers its "
                                     "message afterwards without it")
        elif a[2]:
            rep.violation("hand-over with %d buffered messages and a racing logger: %s" % (len(sc["pre"]), a[2]),
                          {"engine": "conc", "module": "checks_conc_extra", "scenario": sc, "schedule": h["schedule"],
                           "offered_tail": [o[-6:] for o in h["offered"]]})
    # registrations changed by two threads at once (add in one, remove in the other), then messages are logged
    scs = [{"kind": "regrace", "initial": [1, 2], "add": [3], "remove": [1], "post": [1, 2], "max_pre": 2, "cap": 120 if quick else 3000,
            "random": 0, "seed": 1, "budget_s": 60},
           {"kind": "regrace", "initial": [1, 2, 3], "add": [4, 5], "remove": [2, 3], "post": [1], "max_pre": 2, "cap": 120 if quick else 3000,
            "random": 20 if quick else 500, "seed": 2, "budget_s": 60}]
    results = run_scenarios(scs)
    hs = [(res["scenario"], h) for res in results for h in res["runs"]]
    acc, st = tlc_accepts("RegA", "RegA.cfg", [h for _, h in hs])
    rep.cov["states"] += st
    rep.cov["transitions"] += st
    for (sc, h), a in zip(hs, acc):
        rep.cov["traces_validated_against_impl"] += 1
        rep.count_case(["regrace", sc["add"], sc["remove"], h["schedule"]], len(set(h["schedule"])) > 1)
        if h["errors"]:
            rep.violation("add/remove of destinations raised under concurrency: %s" % h["errors"][:2],
                          {"engine": "conc", "module": "checks_conc_extra", "scenario": sc, "schedule": h["schedule"]})
        elif a is None:
            raise MachineryFailure("no verdict for a registration history")
        elif a[2]:
            rep.violation("destinations added and removed by two threads at once: %s" % a[2],
                          {"engine": "conc", "module": "checks_conc_extra", "scenario": sc, "schedule": h["schedule"], "history": h["ev"]})
    reentrant_destinations(rep, tier)


def c06_once(rep, tier):
    quick = tier == "quick"
    _tlc(rep, "Once", "MC_Once.cfg", "MC_Once.cfg (level B, atomic test-and-set)", {"N": 3, "Atomic": True})
    _tlc(rep, "Once", "MC_Once_broken.cfg", "MC_Once_broken.cfg (vacuity guard: check-then-set flag)", {"N": 3, "Atomic": False},
         expect="C06_AtMostOnce")
    rng = random.Random(SEED + 6)
    scs = []
    for th, raises in [({"T1": 1, "T2": 1}, False), ({"T1": 1, "T2": 1, "T3": 1}, False), ({"T1": 2, "T2": 1}, True), ({"T1": 1, "T2": 2}, False)]:
        scs.append({"kind": "once", "threads": th, "raises": raises, "max_pre": 2 if len(th) == 2 else (1 if quick else 2),
                    "cap": 120 if quick else 8000, "random": 30 if quick else 1500, "seed": rng.randint(0, 10 ** 9), "budget_s": 60 if quick else 400})
    results = run_scenarios(scs)
    hs = [(res["scenario"], h) for res in results for h in res["runs"]]
    acc, st = tlc_accepts("OnceA", "OnceA.cfg", [h for _, h in hs])
    rep.cov["states"] += st
    rep.cov["transitions"] += st
    rep.cov["once_schedules"] = len(hs)
    for (sc, h), a in zip(hs, acc):
        rep.cov["traces_validated_against_impl"] += 1
        rep.count_case(["once", sc["threads"], h["schedule"]], len(set(h["schedule"])) > 1)
        if h["errors"]:
            rep.violation("unexpected error in a caller thread: %s" % h["errors"][:2],
                          {"engine": "conc", "module": "checks_conc_extra", "scenario": sc, "schedule": h["schedule"]})
        elif a is None:
            raise MachineryFailure("no verdict for a preserve_context history")
        elif a[2]:
            rep.violation("preserve_context callable invoked concurrently: %s" % a[2],
                          {"engine": "conc", "module": "checks_conc_extra", "scenario": sc, "schedule": h["schedule"], "history": h["ev"]})
    if hs:
        rep.sample({"once_scenario": hs[0][0]["threads"], "history": hs[0][1]["ev"]})


def c13_concurrent(rep, tier):
    """Two threads whose typed messages fail to serialize through the same Logger at overlapping times (and a third that logs plain
    messages): each failure gets its own traceback and serialization_failure whatever the interleaving (FanoutA.tla)."""
    quick = tier == "quick"
    rng = random.Random(SEED + 13)
    scs = []
    for th, serfail, dests in [({"T1": [1], "T2": [2]}, [1, 2], [1]), ({"T1": [1, 2], "T2": [3]}, [1, 3], [1, 2]),
                               ({"T1": [1], "T2": [2], "T3": [3]}, [1, 2], [1])]:
        scs.append({"kind": "fanout", "threads": th, "fail": {}, "serfail": serfail, "dests": dests, "max_pre": 2 if len(th) == 2 else 1,
                    "cap": 150 if quick else 6000, "random": 40 if quick else 1500, "seed": rng.randint(0, 10 ** 9), "budget_s": 40 if quick else 400})
    results = run_scenarios(scs)
    hs = [(res["scenario"], h) for res in results for h in res["runs"]]
    acc, st = tlc_accepts("FanoutA", "FanoutA.cfg", [h for _, h in hs])
    rep.cov["states"] += st
    rep.cov["transitions"] += st
    rep.cov["concurrent_serialization_failure_schedules"] = len(hs)
    for (sc, h), a in zip(hs, acc):
        rep.cov["traces_validated_against_impl"] += 1
        rep.count_case(["serfail-fanout", sc["threads"], h["schedule"]], len(set(h["schedule"])) > 1)
        if h["errors"]:
            rep.violation("a logging call raised under concurrency: %s" % h["errors"][:2],
                          {"engine": "conc", "module": "checks_conc_extra", "scenario": sc, "schedule": h["schedule"]})
        elif a is None:
            raise MachineryFailure("no verdict for a serialization-failure history")
        elif a[2]:
            rep.violation("typed messages failing to serialize in several threads at once: %s" % a[2],
                          {"engine": "conc", "module": "checks_conc_extra", "scenario": sc, "schedule": h["schedule"], "history": h["ev"]})
    if hs:
        rep.sample({"serfail_scenario": hs[0][0]["threads"], "history": hs[0][1]["ev"][:12]})


def c08_concurrent(rep, tier):
    """Two or three threads logging at once through destinations that fail: exact accounting of reports whatever the interleaving."""
    quick = tier == "quick"
    rng = random.Random(SEED + 8)
    scs = []
    for th, fail, dests in [({"T1": [1], "T2": [2]}, {"1": [1, 2]}, [1, 2]), ({"T1": [1, 2], "T2": [3]}, {"2": [1, 3]}, [1, 2, 3]),
                            ({"T1": [1], "T2": [2], "T3": [3]}, {"1": [1], "2": [2, 3]}, [1, 2])]:
        scs.append({"kind": "fanout", "threads": th, "fail": fail, "dests": dests, "max_pre": 2 if len(th) == 2 else 1,
                    "cap": 150 if quick else 6000, "random": 40 if quick else 1500, "seed": rng.randint(0, 10 ** 9), "budget_s": 60 if quick else 400})
    results = run_scenarios(scs)
    hs = [(res["scenario"], h) for res in results for h in res["runs"]]
    acc, st = tlc_accepts("FanoutA", "FanoutA.cfg", [h for _, h in hs])
    rep.cov["states"] += st
    rep.cov["transitions"] += st
    rep.cov["fanout_schedules"] = len(hs)
    for (sc, h), a in zip(hs, acc):
        rep.cov["traces_validated_against_impl"] += 1
        rep.count_case(["fanout", sc["threads"], h["schedule"]], len(set(h["schedule"])) > 1)
        if h["errors"]:
            rep.violation("a logging call raised under concurrency: %s" % h["errors"][:2],
                          {"engine": "conc", "module": "checks_conc_extra", "scenario": sc, "schedule": h["schedule"]})
        elif a is None:
            raise MachineryFailure("no verdict for a fan-out history")
        elif a[2]:
            rep.violation("concurrent logging through failing destinations: %s" % a[2],
                          {"engine": "conc", "module": "checks_conc_extra", "scenario": sc, "schedule": h["schedule"], "history": h["ev"]})
    if hs:
        rep.sample({"fanout_scenario": hs[0][0]["threads"], "history": hs[0][1]["ev"][:12]})
    reentrant_destinations(rep, tier)


def c02_raced_ids(rep, tier):
    """C02 under a race: the same preserve_context callable invoked from two threads must never yield two messages with the
    same (task_uuid, task_level) (the level-A clause `duplicate_task_level` of OnceA.tla, evaluated by TLC)."""
    quick = tier == "quick"
    rng = random.Random(SEED + 2)
    scs = [{"kind": "once", "threads": {"T1": 1, "T2": 1}, "raises": False, "max_pre": 2, "cap": 150 if quick else 6000,
            "random": 30 if quick else 1000, "seed": rng.randint(0, 10 ** 9), "budget_s": 60 if quick else 300}]
    results = run_scenarios(scs)
    hs = [(res["scenario"], h) for res in results for h in res["runs"]]
    acc, st = tlc_accepts("OnceA", "OnceA.cfg", [h for _, h in hs])
    rep.cov["states"] += st
    rep.cov["transitions"] += st
    for (sc, h), a in zip(hs, acc):
        rep.cov["traces_validated_against_impl"] += 1
        rep.count_case(["once", sc["threads"], h["schedule"]], len(set(h["schedule"])) > 1)
        if a is None:
            raise MachineryFailure("no verdict for a preserve_context history")
        if h["dup_levels"] or a[2] == "duplicate_task_level":
            rep.violation("two messages share one (task_uuid, task_level) when a preserve_context callable is invoked from two threads at once",
                          {"engine": "conc", "module": "checks_conc_extra", "scenario": sc, "schedule": h["schedule"], "history": h["ev"]})


def replay(prop, obj, path):
    if obj.get("engine") == "reentrant":
        here = os.path.dirname(os.path.abspath(__file__))
        code = ("import sys, json; sys.path.insert(0, %r); import reentrant_exec as R; "
                "json.dump(R.run(json.load(open(%r))['scenario']), sys.stdout)" % (here, path))
        p = repo_python(["-c", code], timeout=300)
        if p.returncode != 0:
            raise MachineryFailure("reentrant replay failed: " + p.stderr.decode("utf-8", "replace")[-800:])
        h = json.loads(p.stdout)
        acc, _ = tlc_accepts("ReentrantA", "ReentrantA.cfg", [h])
        print("scenario: %s\nerrors: %s\noffered (first 12 per destination): %s\nclause now: %r (recorded: %r)"
              % (json.dumps(obj["scenario"]), h["errors"], [[d[0], d[1], d[2], d[3][:12]] for d in h["dests"]], acc[0][2], obj.get("clause")))
        if acc[0][2]:
            print("VIOLATION property=%s replay=%s" % (prop, path))
            return 1
        return 0
    import engine_conc
    return engine_conc.replay(prop, obj, path)


def reentrant_destinations(rep, tier):
    """Destinations that log / register / remove while they are being called (sequential): histories of the real Destinations object
    judged by TLC with ReentrantA.tla.  Used by C08 and C12."""
    here = os.path.dirname(os.path.abspath(__file__))
    p = repo_python([os.path.join(here, "reentrant_exec.py")] + (["thorough"] if tier != "quick" else []), timeout=900)
    if p.returncode != 0:
        raise MachineryFailure("reentrant_exec failed: " + p.stderr.decode("utf-8", "replace")[-1500:])
    hs = json.loads(p.stdout)
    acc, st = tlc_accepts("ReentrantA", "ReentrantA.cfg", [{k: v for k, v in h.items() if k != "scenario"} for h in hs])
    rep.cov["states"] += st
    rep.cov["transitions"] += st
    rep.cov["reentrant_destination_histories"] = len(hs)
    seen = set()
    for h, a in zip(hs, acc):
        rep.cov["traces_validated_against_impl"] += 1
        rep.count_case(["reentrant", h["scenario"]], True)
        if a is None:
            raise MachineryFailure("no verdict for a re-entrant destination history")
        if a[2] and a[2] not in seen:
            seen.add(a[2])
            rep.violation("destinations calling back into the library (%d buffered messages, destinations %s): %s%s"
                          % (h["n_pre"], json.dumps(h["scenario"]["dests"]), a[2], (" " + h["errors"][0]) if h["errors"] else ""),
                          {"engine": "reentrant", "module": "checks_conc_extra", "scenario": h["scenario"], "clause": a[2], "errors": h["errors"],
                           "offered_heads": [[d[0], d[1], d[2], d[3][:12]] for d in h["dests"]]})
