"""DeferredContext (spec/Deferred.tla): TLC checks the invariants on the specification (and rejects the sibling without the
AlreadyFinished guard), then every behaviour TLC emits -- exhaustively for short call histories, by simulation for long ones -- is
replayed on the real eliot.twisted.DeferredContext and what an observer sees is compared, record by record, with the `obs` TLC
predicted.  Used by C03 (end-message clauses) and C04 (context clauses)."""
import json, os
from common import *

OWN = {"end": "C03", "res": "C03", "nend": "C03", "starts": "C03",
       "cb": "C04", "caller_context_changed": "C04", "already_finished": "C04", "adding": "C04", "finishing": "C04", "fixed": "C04",
       "bad_return": "C04", "fired": "C04", "error": "C04", "length": "C04"}


def _behaviours(maxops, maxcbs, simulate=None, seed=0):
    d = mktemp("dfr_")
    cfg = os.path.join(d, "beh.cfg")
    open(cfg, "w").write("SPECIFICATION Spec\nCONSTANTS MaxOps = %d\n MaxCbs = %d\n Guard = TRUE\nCONSTRAINT EmitBeh\nCHECK_DEADLOCK FALSE\n"
                         % (maxops, maxcbs))
    if simulate:
        r = run_tlc("Deferred", cfg, workers=4, simulate="num=%d" % (simulate // 4), depth=4 * maxops + 4, seed=seed, timeout=900)
    else:
        r = run_tlc("Deferred", cfg, timeout=1500)
    require_ok(r, "Deferred behaviours")
    out, seen = [], set()
    for t in printed_tuples(r.out, "BEH"):
        key = json.dumps(t[1])
        if key in seen:
            continue
        seen.add(key)
        out.append({"ops": [list(o) for o in t[1]], "obs": _plain(t[2]), "res": _plain(t[3]), "ended": _plain(t[4])})
    return out, r


def _plain(x):
    if isinstance(x, (list, tuple)):
        return [_plain(y) for y in x]
    return x


def _first_diff(pred, got):
    """-> (clause key, description) or None"""
    if "error" in got:
        return "error", "the harness program raised " + got["error"]
    for i in range(max(len(pred["obs"]), len(got["obs"]))):
        p = pred["obs"][i] if i < len(pred["obs"]) else None
        g = got["obs"][i] if i < len(got["obs"]) else None
        if p != g:
            key = (g or p)[0] if (g and g[0] in ("end", "caller_context_changed", "bad_return")) else (p or g)[0]
            if p and g and p[0] == "cb" and g[0] == "cb" and p[1] == g[1] and p[2] != g[2]:
                key = "res"        # the same callback saw another result: something upstream changed the result of the chain
            return key, "observation %d: specification %s, implementation %s" % (i + 1, json.dumps(p), json.dumps(g))
    if pred["res"] != got["res"]:
        return "res", "final result of the Deferred: specification %s, implementation %s" % (pred["res"], got["res"])
    nend = 0 if pred["ended"] == ["no"] else 1
    if got["nend"] != nend:
        return "nend", "end messages of the action: specification %d, implementation %d" % (nend, got["nend"])
    if got["starts"] != 1:
        return "starts", "start messages of the action: %d" % got["starts"]
    return None


def execute(behs):
    here = os.path.dirname(os.path.abspath(__file__))
    p = repo_python([os.path.join(here, "deferred_exec.py")], input_bytes=json.dumps([b["ops"] for b in behs]).encode(), timeout=900)
    if p.returncode != 0:
        raise MachineryFailure("deferred_exec failed: " + p.stderr.decode("utf-8", "replace")[-1500:])
    return json.loads(p.stdout)


def run_deferred(rep, tier):
    prop = rep.prop
    quick = tier == "quick"
    # 1. the design
    cfg = os.path.join(SPEC, "MC_Deferred.cfg")
    r = run_tlc("Deferred", cfg, timeout=900)
    require_ok(r, "MC_Deferred")
    rep.add_tlc("Deferred.tla MC_Deferred.cfg", r, {"MaxOps": 4, "MaxCbs": 3})
    if r.violated:
        rep.violation("Deferred.tla: invariant %s violated on the specification" % r.violated,
                      {"engine": "deferred", "module": "checks_deferred", "tlc_tail": r.out[-3000:]})
    rb = run_tlc("Deferred", os.path.join(SPEC, "MC_Deferred_noguard.cfg"), timeout=900, only="D_NoCtxAfterEnd")
    if rb.violated != "D_NoCtxAfterEnd":
        raise MachineryFailure("the sibling of Deferred.tla without the AlreadyFinished guard was not rejected (%r)" % rb.violated)
    # 2. specification -> code
    behs, r1 = _behaviours(3 if quick else 4, 3)
    sims, r2 = _behaviours(9, 6, simulate=1500 if quick else 40000, seed=SEED % 100000)
    allb = behs + sims
    res = execute(allb)
    rep.cov["deferred_behaviours"] = {"exhaustive_calls<=%d" % (3 if quick else 4): len(behs), "simulated_9_calls": len(sims)}
    if res["fixed"].get("create_outside_action") != "RuntimeError":
        _report(rep, prop, "fixed", "DeferredContext() outside any action: %s" % res["fixed"], {"ops": []})
    seen = set()
    for b, g in zip(allb, res["runs"]):
        rep.cov["traces_validated_against_impl"] += 1
        rep.count_case(["deferred", b["ops"]], any(o[0] in ("cb", "end") for o in b["obs"]))
        dff = _first_diff(b, g)
        if dff and dff[0] not in seen:
            seen.add(dff[0])
            _report(rep, prop, dff[0], dff[1], b)
    rep.sample({"source": "Deferred.tla behaviour", "ops": allb[-1]["ops"], "predicted_obs": allb[-1]["obs"]})


def _report(rep, prop, key, text, b):
    owner = OWN.get(key, "C04")
    msg = "DeferredContext [%s]: %s; calls %s" % (key, text, json.dumps(b["ops"]))
    if owner == prop:
        rep.violation(msg, {"engine": "deferred", "module": "checks_deferred", "beh": b, "key": key})
    else:
        print("NOTE %s: deviation owned by %s: %s" % (prop, owner, msg[:300]))


def replay(prop, obj, path):
    if "beh" not in obj:
        print(obj.get("tlc_tail", ""))
        return 1
    b = obj["beh"]
    g = execute([b])["runs"][0]
    d = _first_diff(b, g)
    print("calls: %s\npredicted: %s\nobserved:  %s" % (json.dumps(b["ops"]), json.dumps(b["obs"]), json.dumps(g.get("obs", g))))
    if d:
        print("VIOLATION property=%s replay=%s\n  %s" % (prop, path, d[1]))
        return 1
    return 0
