"""Checks decided with spec/Eliot.tla + Trace_Eliot.tla (engine 1): C01 C02 C03 C04 C05 C07 C08 C12(sequential) C13."""
from engine_eliot import *

ALLF = {"typed", "tb", "task", "finish", "ctx", "run", "alog", "succ", "ext", "remote", "logcall", "preserve", "stdlib"}
HOST = ALLF | {"hostile"}

# per property: model-checking configs (quick, with thorough overrides), simulation sources, random profiles
PLAN = {
    "C01": dict(
        exhaustive=[("MC_Core.cfg", [1], 1)],
        mc=[("MC_Core.cfg", {"MaxMsgs": 6}), ("MC_Remote.cfg", {"MaxMsgs": 5})],
        sim=[("MC_Core.cfg", [1], 1, {"MaxActs": 5, "MaxMsgs": 12, "MaxDepth": 4, "MaxBlocks": 4,
                                       "Feat": '{"finish", "task", "alog", "ctx", "run", "succ", "typed", "tb", "remote", "ext", "logcall", "preserve"}'})],
        profiles=[dict(feat=ALLF, ndest=1, init=[1], maxlen=40, close=0.8, w_fin_ctx=0.0, shuffle=2),
                  dict(feat=ALLF | {"spawn"}, nctx=3, ndest=2, init=[1, 2], maxlen=40, close=0.8, w_fin_ctx=0.0)]),
    "C02": dict(
        exhaustive=[("MC_Core.cfg", [1], 1)],
        mc=[("MC_Core.cfg", {"MaxMsgs": 6}), ("MC_Faults.cfg", {"MaxMsgs": 5}), ("MC_Conc.cfg", {"MaxMsgs": 5})],
        expect=[("MC_F2.cfg", "C02_EndIsLast_Strict")],
        sim=[("MC_Faults.cfg", [1, 2, 3], 3, {"NDest": 3, "MaxActs": 4, "MaxMsgs": 9, "MaxFaults": 4, "MaxDepth": 3, "MaxBlocks": 3,
                                              "InitDests": "D123", "Feat": '{"finish", "ctx", "run", "dfault", "task", "alog"}'})],
        profiles=[dict(feat={"task", "finish", "ctx", "run", "alog", "tb", "remote", "spawn", "ext", "preserve"}, nctx=3, ndest=3, init=[1, 2, 3],
                       dfault=0.2, maxlen=40),
                  dict(feat={"finish", "ctx", "task"}, ndest=2, init=[1, 2], maxlen=40, abort=0.2,
                       weights={"Exit": 3.0, "Finish": 3.0, "EnterWith": 3.0}),
                  # start-up buffering handed over to destinations some of which fail: "emission order = level order" at the healthy one
                  dict(feat={"finish", "ctx", "task", "dests"}, ndest=3, init=[], dfault=0.3, maxlen=30)],
        extra="c02_raced_ids", keep_sizes=True),
    "C03": dict(
        exhaustive=[("MC_Core.cfg", [1], 1)],
        mc=[("MC_Core.cfg", {"MaxMsgs": 6}), ("MC_Succ.cfg", {"MaxMsgs": 5})],
        sim=[("MC_Succ.cfg", [1], 1, {"MaxActs": 4, "MaxMsgs": 10, "MaxDepth": 3, "MaxBlocks": 4,
                                       "Feat": '{"finish", "succ", "ext", "ctx", "run", "typed", "task"}'})],
        profiles=[dict(feat={"finish", "succ", "ext", "ctx", "run", "typed", "task", "alog"}, ndest=2, init=[1, 2], maxlen=40,
                       weights={"Exit": 4.0, "Finish": 1.0}),
                  # explicit finish() calls and block exits interrupted by a destination raising a non-Exception (KeyboardInterrupt
                  # ...) while the end message is being delivered: still at most one end message, whatever finishes the action next
                  dict(feat={"finish", "ctx", "run", "task"}, ndest=2, init=[1, 2], maxlen=40, abort=0.2, dfault=0.05,
                       weights={"Exit": 3.0, "Finish": 3.0, "EnterWith": 3.0})],
        deferred=True),
    "C04": dict(
        exhaustive=[("MC_Core.cfg", [1], 1)],
        mc=[("MC_Scope.cfg", {"MaxActs": 3, "MaxMsgs": 4, "MaxBlocks": 4}), ("MC_Core.cfg", {}), ("MC_Abort.cfg", {"MaxMsgs": 4})],
        sim=[("MC_Scope.cfg", [1], 1, {"MaxActs": 4, "MaxMsgs": 8, "MaxBlocks": 6, "MaxDepth": 4, "Feat": '{"finish", "ctx", "run", "task", "ext"}'})],
        profiles=[dict(feat={"finish", "ctx", "run", "task", "ext"}, ndest=1, init=[1], maxlen=45, maxblocks=10,
                       weights={"EnterCtx": 1.5, "EnterRun": 1.5, "EnterWith": 2.0, "Exit": 2.5}),
                  # destinations failing -- also with non-Exception exceptions that reach the application -- while blocks exit
                  dict(feat={"finish", "ctx", "run", "task", "ext"}, ndest=2, init=[1, 2], maxlen=40, maxblocks=8, dfault=0.15, abort=0.12,
                       weights={"EnterCtx": 1.5, "EnterRun": 1.5, "EnterWith": 2.5, "Exit": 2.5})],
        deferred=True, route=True),
    "C05": dict(
        mc=[("MC_Conc.cfg", {"MaxMsgs": 5, "MaxActs": 3})],
        sim=[("MC_Conc.cfg", [1], 1, {"NCtx": 4, "MaxActs": 5, "MaxMsgs": 10, "MaxBlocks": 3, "MaxDepth": 3, "Feat": '{"spawn", "ctx", "run", "finish", "elsewhere"}'})],
        profiles=[dict(feat={"spawn", "ctx", "run", "finish", "task", "elsewhere"}, nctx=4, ndest=1, init=[1], maxlen=50, weights={"Spawn": 4.0}),
                  # REAL asyncio tasks in one event loop, interleaved at await points (no run(): it needs a synchronous body)
                  dict(feat={"spawn", "ctx", "finish", "task", "alog"}, nctx=4, ndest=1, init=[1], maxlen=45, spawn_kinds=["task"],
                       executor="async_exec.py", collide=0.0, weights={"Spawn": 5.0, "EnterCtx": 2.0}),
                  # the same actions entered (context() / run()) from several contexts at overlapping times, left in any order
                  dict(feat={"spawn", "ctx", "run", "elsewhere"}, nctx=4, ndest=1, init=[1], maxlen=45, w_fin_ctx=0.6,
                       weights={"Spawn": 5.0, "EnterCtx": 3.0, "EnterRun": 3.0, "StartAction": 0.7, "EnterWith": 0.6, "Exit": 2.0, "Log": 1.0})]),
    "C06": dict(
        mc=[("MC_Remote.cfg", {"MaxMsgs": 5})],
        sim=[("MC_Remote.cfg", [1], 1, {"NCtx": 3, "MaxActs": 5, "MaxMsgs": 10, "MaxIds": 3, "MaxDepth": 3, "MaxBlocks": 3,
                                         "Feat": '{"remote", "spawn", "finish", "ctx", "preserve"}'})],
        profiles=[dict(feat={"remote", "spawn", "finish", "ctx", "task", "preserve"}, nctx=4, ndest=1, init=[1], maxlen=45, shuffle=3, w_fin_ctx=0.0,
                       weights={"SerializeId": 3.0, "ContinueTask": 4.0, "Spawn": 2.0, "Preserve": 3.0, "CallPreserved": 4.0})],
        extra="c06_once", fork=True),
    "C07": dict(
        mc=[("MC_Faults.cfg", {"MaxMsgs": 5}), ("MC_Typed.cfg", {"MaxMsgs": 5})],
        sim=[("MC_Typed.cfg", [1, 2], 2, {"NDest": 2, "MaxActs": 3, "MaxMsgs": 8, "MaxFaults": 5, "InitDests": "D12",
                                          "Feat": '{"typed", "sfault", "dfault", "succ", "finish", "ext", "tb", "ctx", "hostile"}'})],
        profiles=[dict(feat=HOST, ndest=3, init=[1, 2, 3], dfault=0.3, sfault=0.3, maxlen=40, fault_file=True),
                  dict(feat=HOST | {"dests"}, ndest=3, init=[], dfault=0.3, sfault=0.2, maxlen=40, fault_file=True)]),
    "C08": dict(
        mc=[("MC_Faults.cfg", {"MaxMsgs": 5}), ("MC_Faults.cfg", {"NDest": 3, "InitDests": "D123", "MaxFaults": 3})],
        sim=[("MC_Faults.cfg", [1, 2, 3, 4], 4, {"NDest": 4, "MaxActs": 3, "MaxMsgs": 8, "MaxFaults": 6, "InitDests": "D1234",
                                                 "Feat": '{"finish", "ctx", "dfault", "task"}'})],
        profiles=[dict(feat={"finish", "ctx", "task", "tb"}, ndest=4, init=[1, 2, 3, 4], dfault=0.35, maxlen=30, fault_file=True),
                  dict(feat={"finish", "ctx", "task", "dests"}, ndest=4, init=[], dfault=0.3, maxlen=30, fault_file=True)],
        extra="c08_concurrent", route=True),
    "C12": dict(
        mc=[("MC_Dests.cfg", {"MaxMsgs": 4}), ("MC_BufFaults.cfg", {"MaxMsgs": 4})],
        # the code before the repair F12 (failure reports logged inline while the buffer is re-delivered) must be rejected
        expect=[("MC_BufFaults_inline.cfg", "C02_EmissionOrder")],
        sim=[("MC_Dests.cfg", [], 3, {"NDest": 3, "MaxActs": 2, "MaxMsgs": 9, "Cap": 3, "Feat": '{"dests", "dfault", "finish"}', "MaxFaults": 2})],
        profiles=[dict(feat={"dests", "finish", "task"}, ndest=4, init=[], maxlen=35, dfault=0.1, fault_file=True,
                       weights={"AddDests": 1.0})],
        extra="c12_concurrent"),
    "C13": dict(
        mc=[("MC_Typed.cfg", {"MaxMsgs": 5})],
        sim=[("MC_Typed.cfg", [1], 1, {"MaxActs": 4, "MaxMsgs": 9, "MaxFaults": 4, "MaxBlocks": 3, "Feat": '{"typed", "sfault", "succ", "finish", "ctx", "task"}'})],
        profiles=[dict(feat={"typed", "succ", "finish", "ctx", "task", "run"}, ndest=2, init=[1, 2], sfault=0.35, maxlen=40,
                       weights={"StartActionT": 3.0, "LogM": 3.0}),
                  # dictionaries handed directly to Logger.write while global fields are in force (the defensive copy)
                  dict(feat={"typed", "succ", "finish", "raw", "dests"}, ndest=3, init=[1], sfault=0.2, maxlen=30,
                       weights={"AddGlobal": 2.5, "RawWrite": 3.0, "AddDests": 0.3, "RemoveDest": 0.1})],
        extra="c13_concurrent", keep_sizes=True),
}

def capacity_histories(tier):
    """More messages than the start-up buffer holds (the REAL capacity, 1000), then the first add_destinations."""
    progs = []
    for n in ((1000, 1001, 2003) if tier == "quick" else (999, 1000, 1001, 1999, 2000, 2001, 2500, 3001, 4100)):   # (multiples of the capacity: a buffer trimmed in bulk)
        ops = [{"op": "Log", "c": 1, "ty": "m"} for _ in range(n)]
        if n % 2:
            # inside one action: the task_level says WHICH messages survived in the buffer (context-less messages all look alike)
            ops = [{"op": "StartTask", "c": 1, "ty": "A"}, {"op": "Enter", "c": 1, "kind": "with", "a": 1}] + ops
        ops += [{"op": "AddGlobal", "c": 1, "f": "g1", "v": 1}, {"op": "AddDests", "c": 1, "S": [1, 2]}, {"op": "Log", "c": 1, "ty": "m"},
                {"op": "AddDests", "c": 1, "S": [3]}, {"op": "Log", "c": 1, "ty": "m"}, {"op": "RemoveDest", "c": 1, "d": 2}, {"op": "Log", "c": 1, "ty": "m"}]
        progs.append({"init": [], "ndest": 3, "ops": ops, "wit": n, "collide": False})
    return progs


PLAN["C12"]["special"] = capacity_histories

SIZES = {"quick": dict(sim=160, rand=500), "thorough": dict(sim=4000, rand=12000)}


def override_cfg(cfg, over):
    """cfg file with some constants replaced (thorough tier / simulation bounds)."""
    if not over:
        return cfg
    text = open(os.path.join(SPEC, cfg)).read()
    for k, v in over.items():
        if k == "InitDests":
            text = re.sub(r"InitDests <- \w+", "InitDests <- %s" % v, text)
        else:
            text, n = re.subn(r"(?m)^  %s = .*$" % k, "  %s = %s" % (k, v), text)
            if n != 1:
                raise MachineryFailure("cannot override %s in %s" % (k, cfg))
    d = mktemp("cfg_")
    path = os.path.join(d, cfg)
    open(path, "w").write(text)
    return path


def run(prop, tier):
    plan = PLAN[prop]
    rep = Report(prop, tier)
    rep.cov["rule"] = ("cases = executions of the real library: (a) behaviours generated by TLC -simulate from Eliot.tla replayed "
                       "with their fault choices forced, (b) seeded random well-formed programs over the public API; every execution "
                       "is validated event by event by TLC against Trace_Eliot.tla; distinct = distinct projected event traces; "
                       "non-trivial = at least two destination deliveries")
    rep.assumptions = ["uuid4 values are distinct (modelled as a fresh counter; the renaming is checked injective on every trace)",
                       "calls of different contexts interleave at logging-call boundaries",
                       "programs never allocate in a finished action (documented misuse) and continue each task id at most once"]
    size = dict(SIZES[tier])
    if tier == "quick" and plan.get("extra") and not plan.get("keep_sizes"):
        size = dict(sim=80, rand=260)          # these properties also run a concurrency half
    try:
        # 1. TLC decides the invariants on the specification
        for cfg, thorough_over in plan["mc"]:
            over = thorough_over if tier == "thorough" else {}
            model_check(rep, override_cfg(cfg, over), constants=dict(base=cfg, **{k: str(v) for k, v in over.items()}),
                        timeout=3000 if tier == "thorough" else 600)
        for cfg, inv in plan.get("expect", []):
            model_check(rep, cfg, constants={"base": cfg}, expect=inv)
            for f in known_findings():
                if f.get("model_config") == cfg and f["status"] == "open" and prop in f["properties"]:
                    rep.known_finding(f["id"], f["summary"])
        # 2. spec -> code
        n = 0
        for cfg, init, ndest, over in plan["sim"]:
            progs, r = tlc_behaviours(override_cfg(cfg, over), size["sim"], 60, SEED % 100000, init, max(ndest, 1))
            rep.cov.setdefault("simulated_behaviours", 0)
            rep.cov["simulated_behaviours"] += len(progs)
            verdicts, st = validate(progs)
            rep.cov["states"] += st
            rep.cov["transitions"] += st
            judge(rep, verdicts, "TLC-generated")
            if verdicts:
                rep.sample({"source": "TLC -simulate " + cfg, "program": verdicts[0]["program"], "events": len(verdicts[0]["trace"]["ev"])})
        for cfg, init, ndest in plan.get("exhaustive", []):
            progs, r, total = exhaustive_behaviours(cfg, init, ndest, keep_one_in=(1 if tier == "thorough" else 60))
            rep.cov["exhaustive_behaviours_of_" + cfg] = {"emitted_by_TLC": total, "replayed": len(progs)}
            verdicts, st = validate(progs)
            rep.cov["states"] += st
            rep.cov["transitions"] += st
            judge(rep, verdicts, "TLC-enumerated")
        # 3. code -> spec
        for i, prof in enumerate(plan["profiles"]):
            progs = random_programs(prof, size["rand"] // len(plan["profiles"]), SEED + 17 * i)
            verdicts, st = validate(progs, executor=prof.get("executor", "eliot_exec.py"))
            rep.cov["states"] += st
            rep.cov["transitions"] += st
            judge(rep, verdicts, "random-program")
            if verdicts:
                rep.sample({"source": "random program", "ops": verdicts[0]["program"]["ops"][:25],
                            "first_events": verdicts[0]["trace"]["ev"][:6]})
        if plan.get("special"):
            verdicts, st = validate(plan["special"](tier))
            rep.cov["states"] += st
            rep.cov["transitions"] += st
            judge(rep, verdicts, "hand-built history")
        if plan.get("extra"):
            import checks_conc_extra
            getattr(checks_conc_extra, plan["extra"])(rep, tier)
        if plan.get("route"):
            # which logger receives a message when loggers are mixed; failure reports always reach the destinations (spec/Route.tla)
            import checks_route
            checks_route.run_route(rep, tier)
        if plan.get("fork"):
            # the same abstract programs with every context but the first a pre-forked worker PROCESS (checks_fork.py)
            import checks_fork
            checks_fork.run_fork(rep, tier)
        if plan.get("deferred"):
            # the Deferred face of the property (spec/Deferred.tla): end-message clauses for C03, context clauses for C04
            import checks_deferred
            checks_deferred.run_deferred(rep, tier)
        rep.cov["exhaustive"] = False
        rep.cov["explanation"] = ("TLC exhaustive within the listed constants for the model; implementation conformance is by "
                                  "trace validation of sampled executions")
    except MachineryFailure as e:
        print("MACHINERY-FAILURE %s: %s" % (prop, e))
        rep.finish()
        return 2
    return rep.finish()
