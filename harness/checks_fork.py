"""C06 across PROCESSES: abstract programs of Eliot.tla in which every context but the first is a pre-forked worker process.
The oracle is the specification: the same program is first executed with threads by eliot_exec.py and validated by TLC against
Trace_Eliot.tla (so its parsed forest equals the `Performed` forest of Eliot.tla); then fork_exec.py runs it with real forked
processes writing separate log files, and the forest the real Parser builds from the merged files must be the same, with no
position (task_uuid, task_level) used twice -- the specification's assumption 'task uuids are fresh' must hold across fork()."""
import json, os, random
from common import *
import engine_eliot


def gen_program(rng, nctx, length):
    ops = [{"op": "Spawn", "c": 1, "c2": c, "kind": "thread"} for c in range(2, nctx + 1)]
    stack = {c: [] for c in range(1, nctx + 1)}
    fresh = {c: [] for c in range(1, nctx + 1)}      # created, not yet entered
    ids, nacts = [], 0
    for _ in range(length):
        c = rng.randint(1, nctx)
        ch = ["StartTask", "StartAction", "Log", "Log"]
        if fresh[c]:
            ch += ["Enter"] * 4
        if stack[c]:
            ch += ["Exit"] * 2 + ["SerializeId"] * 2
        free = [i for i, u in enumerate(ids) if not u]
        if free:
            ch += ["ContinueTask"] * 3
        k = rng.choice(ch)
        if k in ("StartTask", "StartAction"):
            nacts += 1
            fresh[c].append(nacts)
            ops.append({"op": k, "c": c, "ty": rng.choice(["A", "E"])})
        elif k == "Log":
            ops.append({"op": "Log", "c": c, "ty": "m"})
        elif k == "Enter":
            a = fresh[c].pop(rng.randrange(len(fresh[c])))
            stack[c].append(a)
            ops.append({"op": "Enter", "c": c, "kind": "with", "a": a})
        elif k == "Exit":
            stack[c].pop()
            ops.append({"op": "Exit", "c": c, "o": rng.choice(["ok", "ok", "exc"]), "kind": "with"})
        elif k == "SerializeId":
            ids.append(False)
            ops.append({"op": "SerializeId", "c": c})
        else:
            i = rng.choice(free)
            ids[i] = True
            nacts += 1
            fresh[c].append(nacts)
            ops.append({"op": "ContinueTask", "c": c, "i": i + 1})
    for c in stack:
        while stack[c]:
            stack[c].pop()
            ops.append({"op": "Exit", "c": c, "o": "ok", "kind": "with"})
    return {"init": [1], "ndest": 1, "ops": ops, "wit": rng.randint(0, 999), "collide": False, "shuffle": 0, "reseed": False}


def execute(progs):
    here = os.path.dirname(os.path.abspath(__file__))
    p = repo_python([os.path.join(here, "fork_exec.py")], input_bytes=json.dumps(progs).encode(), timeout=1800)
    if p.returncode != 0:
        raise MachineryFailure("fork_exec failed: " + p.stderr.decode("utf-8", "replace")[-1500:])
    runs = json.loads(p.stdout)["runs"]
    for r, pr in zip(runs, progs):
        if r["error"]:
            raise MachineryFailure("fork_exec: %s (stderr %s)" % (r["error"], p.stderr.decode("utf-8", "replace")[-800:]))
    return runs


def _diff(threaded, forked):
    if forked["dups"]:
        return "position_used_twice", "merged logs of the processes use %s more than once" % json.dumps(forked["dups"][:2])
    if forked["parse_error"]:
        return "merged_logs_unparseable", "the real Parser raised %s on the merged logs" % forked["parse_error"]
    want = sorted(threaded, key=json.dumps)
    if forked["forest"] != want:
        return "forest_differs", "forest parsed from the merged logs of the processes %s differs from the performed forest %s" % (
            json.dumps(forked["forest"])[:300], json.dumps(want)[:300])
    return None


def run_fork(rep, tier):
    rng = random.Random(SEED + 61)
    n = 40 if tier == "quick" else 600
    progs = [gen_program(rng, rng.choice([2, 2, 3]), rng.randint(8, 30)) for _ in range(n)]
    verdicts, st = engine_eliot.validate(progs)
    rep.cov["states"] += st
    rep.cov["transitions"] += st
    engine_eliot.judge(rep, verdicts, "fork-family program (threads)")
    good = [v for v in verdicts if not v["clause"] and v["trace"]["has_parsed"]]
    if len(good) < n // 2:
        raise MachineryFailure("only %d of %d fork-family programs gave a validated thread-mode forest" % (len(good), n))
    runs = execute([v["program"] for v in good])
    remote = 0
    reported = set()
    for v, f in zip(good, runs):
        rep.cov["traces_validated_against_impl"] += 1
        nrem = sum(1 for o in v["program"]["ops"] if o["op"] == "ContinueTask")
        remote += 1 if nrem else 0
        rep.count_case(["fork", v["program"]["ops"]], nrem > 0)
        d = _diff(v["trace"]["parsed"], f)
        if d and d[0] not in reported:
            reported.add(d[0])
            rep.violation("pre-forked worker processes [%s]: %s" % d,
                          {"engine": "fork", "module": "checks_fork", "program": v["program"], "threaded_forest": v["trace"]["parsed"], "clause": d[0]})
    rep.cov["forked_process_programs"] = {"executed": len(good), "with_a_task_continued_in_another_process_or_context": remote}
    if remote < len(good) // 4:
        raise MachineryFailure("fork-family programs are vacuous: only %d of %d continue a task" % (remote, len(good)))


def replay(prop, obj, path):
    f = execute([obj["program"]])[0]
    d = _diff(obj["threaded_forest"], f)
    print("program: %s\nforked run: %s" % (json.dumps(obj["program"]["ops"]), json.dumps(f)[:1500]))
    if d:
        print("VIOLATION property=%s replay=%s\n  %s: %s" % (prop, path, d[0], d[1]))
        return 1
    return 0
