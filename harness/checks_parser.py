"""C09 (and the parser half of C01/C11): spec/Parser.tla + Trace_Parser.tla bound to the real eliot.parse.Parser."""
import random, itertools
from common import *
import engine_eliot

U0 = [(1, 1, [1], "start"), (2, 1, [2], "msg"), (3, 1, [3, 1], "start"), (4, 1, [3, 2], "msg"), (5, 1, [3, 3], "end"),
      (6, 1, [4, 1], "start"), (7, 1, [4, 2, 1], "start"), (8, 1, [4, 2, 2], "end"), (9, 1, [4, 3], "end"), (10, 1, [5], "end"),
      (11, 2, [1], "msg"), (12, 3, [1], "start"), (13, 3, [2], "end")]
U1 = [(1, 1, [1], "start"), (2, 1, [2, 1], "start"), (3, 1, [2, 2], "msg"), (4, 1, [2, 3], "end"), (5, 1, [3], "msg"),
      (6, 1, [4], "end"), (7, 2, [1], "start"), (8, 2, [2, 1], "start"), (9, 2, [2, 2], "end"), (10, 2, [3], "end"), (11, 3, [1], "msg")]

# a wide action: child actions at positions 2 and 20..22 (string prefixes /2 vs /20 are confusable), messages in between
U2 = [(1, 1, [1], "start"), (2, 1, [2, 1], "start"), (3, 1, [2, 2], "msg"), (4, 1, [2, 3], "end")]
U2 += [(5 + i, 1, [3 + i], "msg") for i in range(17)]                                   # positions 3..19
U2 += [(22, 1, [20, 1], "start"), (23, 1, [20, 2], "msg"), (24, 1, [20, 3], "end"), (25, 1, [21, 1], "start"), (26, 1, [21, 2], "end"),
       (27, 1, [22], "msg"), (28, 1, [23], "end"), (29, 2, [1], "start"), (30, 2, [2, 1], "start"), (31, 2, [2, 2], "end"), (32, 2, [3], "end")]

PROFILE = dict(feat={"task", "finish", "ctx", "alog", "remote", "tb", "spawn"}, nctx=2, ndest=1, init=[1], minlen=4, maxlen=16, close=0.8,
               w_fin_ctx=0.0)


def validate_cases(cases):
    d = mktemp("parser_")
    pin, pout = os.path.join(d, "cases.json"), os.path.join(d, "traces.json")
    json.dump(cases, open(pin, "w"))
    p = repo_python([os.path.join(HARNESS, "parser_exec.py"), pin, pout], timeout=3000, extra_path=[HARNESS])
    if p.returncode != 0:
        raise MachineryFailure("parser_exec failed: " + p.stderr.decode()[-2000:])
    traces = json.load(open(pout))["traces"]
    verdicts = []
    B = 4000
    states = 0
    for b in range(0, len(traces), B):
        chunk = traces[b:b + B]
        f = os.path.join(d, "chunk.json")
        json.dump({"traces": chunk}, open(f, "w"))
        r = run_tlc("Trace_Parser", "Trace_Parser.cfg", env={"TRACE_FILE": f}, timeout=3000)
        require_ok(r, "parser trace validation")
        states += r.distinct
        acc = {t[1]: t for t in printed_tuples(r.out, "ACC")}
        for i, t in enumerate(chunk):
            if i + 1 not in acc:
                raise MachineryFailure("no verdict for parser trace %d" % (i + 1))
            verdicts.append({"clause": acc[i + 1][2], "at": acc[i + 1][3], "trace": t})
    return verdicts, states


def run(prop, tier):
    rep = Report(prop, tier)
    rep.cov["rule"] = ("cases = (universe of messages of well-formed tasks, subset, arrival order) fed to the real Parser, its public surface "
                       "recorded after every add and validated by TLC against Parser.tla (transcription + declarative reference); "
                       "distinct = distinct (universe, order); non-trivial = at least 3 messages fed")
    rep.assumptions = ["universes are the messages of well-formed tasks (as emitted by the real library or by Eliot.tla)",
                       "message identity = (task_uuid, task_level); each message arrives at most once"]
    rng = random.Random(SEED)
    try:
        for which in ([1] if tier == "quick" else [1, 0]):
            cfg = engine_cfg(which)
            r = run_tlc("MC_Parser", cfg, timeout=1500)
            require_ok(r, "MC_Parser")
            rep.add_tlc("MC_Parser.cfg WhichU=%d" % which, r, {"universe": "U%d" % which, "messages": 11 if which else 13})
            if r.violated:
                rep.violation("TLC: %s violated on Parser.tla" % r.violated, {"engine": "parser", "tlc_tail": r.out[-5000:]})
        cases = []
        # (a) the universes TLC explored exhaustively, on the real parser: all permutations of small subsets, random larger
        for U in (U1, U0):
            uni = [{"id": i, "u": u, "lv": lv, "k": k} for (i, u, lv, k) in U]
            trials = [{"random": 150 if tier == "quick" else 3000, "seed": rng.randint(0, 10 ** 9)}]
            for _ in range(4 if tier == "quick" else 40):
                trials.append({"allperm": rng.sample([m["id"] for m in uni], 5 if tier == "quick" else 6)})
            cases.append({"universe": uni, "trials": trials})
        uni = [{"id": i, "u": u, "lv": lv, "k": k_} for (i, u, lv, k_) in U2]
        cases.append({"universe": uni, "trials": [{"random": 120 if tier == "quick" else 4000, "seed": rng.randint(0, 10 ** 9)}]})
        # (b) universes emitted by the real library for random programs (remote sub-tasks, failures, several tasks)
        progs = engine_eliot.random_programs(PROFILE, 60 if tier == "quick" else 1200, SEED + 5)
        for p in progs:
            cases.append({"program": p, "trials": [{"random": 12 if tier == "quick" else 40, "seed": rng.randint(0, 10 ** 9)}]})
        # (c) scale: more than a thousand tasks open at the same time (all starts, then a message each, then all ends, shuffled in blocks)
        ntasks = 1100 if tier == "quick" else 2500
        uni = []
        for u in range(1, ntasks + 1):
            uni += [{"id": 3 * u - 2, "u": u, "lv": [1], "k": "start"}, {"id": 3 * u - 1, "u": u, "lv": [2], "k": "msg"}, {"id": 3 * u, "u": u, "lv": [3], "k": "end"}]
        starts = [3 * u - 2 for u in range(1, ntasks + 1)]
        mids = [3 * u - 1 for u in range(1, ntasks + 1)]
        ends = [3 * u for u in range(1, ntasks + 1)]
        rng.shuffle(mids)
        rng.shuffle(ends)
        cases.append({"universe": uni, "light": True, "trials": [{"ids": starts + mids + ends}]})
        verdicts, states = validate_cases(cases)
        rep.cov["states"] += states
        rep.cov["transitions"] += states
        for v in verdicts:
            t = v["trace"]
            rep.count_case([t["universe"], t["order"]], len(t["order"]) >= 3)
            rep.cov["traces_validated_against_impl"] += 1
            if v["clause"]:
                rep.violation("real Parser diverges from Parser.tla: clause %s at add %s (order %s)" % (v["clause"], v["at"], t["order"]),
                              {"engine": "parser", "module": "checks_parser", "clause": v["clause"], "universe": t["universe"], "order": t["order"]})
        rep.sample({"universe": verdicts[0]["trace"]["universe"], "order": verdicts[0]["trace"]["order"]})
        rep.sample({"universe": verdicts[-1]["trace"]["universe"], "order": verdicts[-1]["trace"]["order"]})
        # (d) the constructor of the parser's nodes: WrittenAction.from_messages against spec/Written.tla
        import checks_written
        checks_written.run_written(rep, tier)
        rep.cov["exhaustive"] = False
    except MachineryFailure as e:
        print("MACHINERY-FAILURE %s: %s" % (prop, e))
        rep.finish()
        return 2
    return rep.finish()


def engine_cfg(which):
    d = mktemp("cfg_")
    path = os.path.join(d, "MC_Parser.cfg")
    open(path, "w").write(open(os.path.join(SPEC, "MC_Parser.cfg")).read().replace("WhichU = 1", "WhichU = %d" % which))
    return path


def replay(prop, obj, path):
    verdicts, _ = validate_cases([{"universe": obj["universe"], "trials": [{"ids": obj["order"]}]}])
    v = verdicts[0]
    print("order %s: clause now %r at add %s" % (obj["order"], v["clause"], v["at"]))
    if v["clause"]:
        print("VIOLATION property=%s replay=%s" % (prop, path))
        return 1
    return 0
