"""Logger routing (spec/Route.tla): TLC checks that every failed delivery is reported to the destinations and never to a
MemoryLogger, and that positions stay unique across loggers (the sibling whose reports follow the current action's logger must be
rejected); then every behaviour TLC emits is replayed on the real library (route_exec.py) and the contents of the three sinks are
compared up to a renaming of task uuids.  Also run by C04, which owns only the clause message_position (a message logged inside an
action's block is its child whatever logger it goes to).  Part of C08: a deviation in what the healthy DESTINATION receives, or in where a failure
report goes, contradicts C08; deviations that only concern what a MemoryLogger holds are information."""
import json, os
from common import *


def _behaviours(maxops, simulate=None, seed=0):
    d = mktemp("rt_")
    cfg = os.path.join(d, "beh.cfg")
    open(cfg, "w").write("SPECIFICATION Spec\nCONSTANTS MaxOps = %d\n MaxDepth = 3\n ReportToCurrent = FALSE\nCONSTRAINT Emit_\nCHECK_DEADLOCK FALSE\n" % maxops)
    if simulate:
        r = run_tlc("Route", cfg, workers=4, simulate="num=%d" % (simulate // 4), depth=maxops + 1, seed=seed, timeout=900)
    else:
        r = run_tlc("Route", cfg, timeout=1500)
    require_ok(r, "Route behaviours")
    out, seen = [], set()
    for t in printed_tuples(r.out, "RT"):
        key = json.dumps(t[1])
        if key in seen:
            continue
        seen.add(key)
        out.append({"ops": [list(o) for o in t[1]],
                    "sinks": {"D": [_m(x) for x in t[2]], "M1": [_m(x) for x in t[3]], "M2": [_m(x) for x in t[4]]}})
    return out, r


def _m(rec):
    return [rec["k"], rec["u"], list(rec["lv"])]


def canon(sinks):
    """rename task uuids by first appearance in D, M1, M2"""
    names = {0: 0}
    out = {}
    for s in ("D", "M1", "M2"):
        out[s] = []
        for k, u, lv in sinks[s]:
            if u not in names:
                names[u] = len(names)
            out[s].append([k, names[u], lv])
    return out


def execute(behs):
    here = os.path.dirname(os.path.abspath(__file__))
    p = repo_python([os.path.join(here, "route_exec.py")], input_bytes=json.dumps([b["ops"] for b in behs]).encode(), timeout=1800)
    if p.returncode != 0:
        raise MachineryFailure("route_exec failed: " + p.stderr.decode("utf-8", "replace")[-1500:])
    return json.loads(p.stdout)["runs"]


def _diff(b, g):
    """-> (owner-relevant key, text) or None"""
    if g["error"]:
        return "raised", "a logging call raised: %s" % g["error"][-300:]
    want, got = canon(b["sinks"]), canon({s: g[s] for s in ("D", "M1", "M2")})
    if want == got:
        return None
    kinds = lambda x: {s: [m[0] for m in x[s]] for s in x}
    if kinds(want) == kinds(got):
        # every sink got the right kinds of messages in the right order, but not at the specified positions: a message logged inside
        # an action is not its child (or a child of the wrong action)
        return "message_position", "positions (task, task_level) of the messages: specification %s, implementation %s" % (json.dumps(want), json.dumps(got))
    reps = lambda x: {s: sum(1 for m in x[s] if m[0] == "rep") for s in x}
    if reps(want) != reps(got):
        return "report_routing", "failure reports per sink: specification %s, implementation %s" % (reps(want), reps(got))
    if want["D"] != got["D"]:
        return "destination_stream", "the healthy destination received %s, specification %s" % (json.dumps(got["D"]), json.dumps(want["D"]))
    return "memory_logger_only", "MemoryLogger contents: specification %s, implementation %s" % (json.dumps(want), json.dumps(got))


def run_route(rep, tier):
    prop = rep.prop
    quick = tier == "quick"
    cfg = os.path.join(SPEC, "MC_Route.cfg")
    if quick:
        d = mktemp("cfg_")
        cfg2 = os.path.join(d, "MC_Route.cfg")
        open(cfg2, "w").write(open(cfg).read().replace("MaxOps = 5", "MaxOps = 4"))
        cfg = cfg2
    r = run_tlc("Route", cfg, timeout=1500)
    require_ok(r, "MC_Route")
    rep.add_tlc("Route.tla MC_Route.cfg", r, {"MaxOps": 4 if quick else 5, "MaxDepth": 3})
    if r.violated:
        rep.violation("Route.tla: invariant %s violated on the specification" % r.violated,
                      {"engine": "route", "module": "checks_route", "tlc_tail": r.out[-3000:]})
    rb = run_tlc("Route", os.path.join(SPEC, "MC_Route_broken.cfg"), timeout=900, only="R_ReportsReachDestinations")
    if rb.violated != "R_ReportsReachDestinations":
        raise MachineryFailure("the sibling of Route.tla whose reports follow the current action's logger was not rejected (%r)" % rb.violated)
    behs, _ = _behaviours(3 if quick else 4)
    sims, _ = _behaviours(8, simulate=1200 if quick else 30000, seed=SEED % 100000)
    allb = behs + sims
    got = execute(allb)
    seen = set()
    nrep = 0
    for b, g in zip(allb, got):
        rep.cov["traces_validated_against_impl"] += 1
        hasrep = any(m[0] == "rep" for s in b["sinks"].values() for m in s)
        nrep += hasrep
        rep.count_case(["route", b["ops"]], hasrep or any(b["sinks"][s] for s in ("M1", "M2")))
        d = _diff(b, g)
        if d and d[0] not in seen:
            seen.add(d[0])
            msg = "logger routing [%s]: %s; calls %s" % (d[0], d[1], json.dumps(b["ops"]))
            if d[0] == "memory_logger_only":
                print("NOTE %s: (information) %s" % (prop, msg[:400]))
                rep.cov.setdefault("information", []).append(msg[:300])
            elif prop != "C08" and d[0] != "message_position":
                print("NOTE %s: deviation owned by C08: %s" % (prop, msg[:300]))
            else:
                rep.violation(msg, {"engine": "route", "module": "checks_route", "beh": b, "key": d[0]})
    rep.cov["route_behaviours"] = {"exhaustive_calls<=%d" % (3 if quick else 4): len(behs), "simulated_8_calls": len(sims), "with_a_failure_report": nrep}
    if nrep < 20:
        raise MachineryFailure("Route.tla behaviours are vacuous: %d with a failure report" % nrep)
    rep.sample({"source": "Route.tla behaviour", "ops": allb[-1]["ops"], "predicted_sinks": allb[-1]["sinks"]})


def replay(prop, obj, path):
    if "beh" not in obj:
        print(obj.get("tlc_tail", ""))
        return 1
    b = obj["beh"]
    g = execute([b])[0]
    d = _diff(b, g)
    print("calls: %s\npredicted: %s\nobserved:  %s" % (json.dumps(b["ops"]), json.dumps(canon(b["sinks"])), json.dumps(g)))
    if d and d[0] != "memory_logger_only":
        print("VIOLATION property=%s replay=%s\n  %s" % (prop, path, d[1]))
        return 1
    return 0
