"""WrittenAction.from_messages (spec/Written.tla): TLC checks that the stepwise machine accepts exactly the declarative predicate and
that every well-formed triple is accepted; then every behaviour TLC emits (all triples for <= 1 child, all or a sample for 2
children) is replayed on the real class and outcome + public view are compared.  Part of C09 (the constructor of the parser's
nodes): a deviation on a WELL-FORMED triple contradicts C09 / C01; deviations on ill-formed triples are information (NOTE)."""
import json, os, random
from common import *


def _behaviours(maxkids):
    d = mktemp("wr_")
    cfg = os.path.join(d, "beh.cfg")
    open(cfg, "w").write("SPECIFICATION Spec\nCONSTANTS MaxKids = %d\nCONSTRAINT Emit\nCHECK_DEADLOCK FALSE\n" % maxkids)
    r = run_tlc("Written", cfg, timeout=1500)
    require_ok(r, "Written behaviours")
    pool = printed_tuples(r.out, "POOL")
    if not pool:
        raise MachineryFailure("Written.tla did not print its pool")
    behs = [{"case": [t[1], t[2], list(t[3])], "out": t[4], "view": _plain(t[5]), "wf": t[6]} for t in printed_tuples(r.out, "WR")]
    return pool[0][1], behs, r


def _plain(x):
    if isinstance(x, (list, tuple)):
        return [_plain(y) for y in x]
    return x


def execute(pool, cases):
    here = os.path.dirname(os.path.abspath(__file__))
    p = repo_python([os.path.join(here, "written_exec.py")], input_bytes=json.dumps({"pool": pool, "cases": cases}).encode(), timeout=1800)
    if p.returncode != 0:
        raise MachineryFailure("written_exec failed: " + p.stderr.decode("utf-8", "replace")[-1500:])
    return json.loads(p.stdout)["runs"]


def run_written(rep, tier):
    prop = rep.prop
    quick = tier == "quick"
    r = run_tlc("Written", os.path.join(SPEC, "MC_Written.cfg"), timeout=900)
    require_ok(r, "MC_Written")
    rep.add_tlc("Written.tla MC_Written.cfg", r, {"MaxKids": 2, "pool": 20})
    if r.violated:
        rep.violation("Written.tla: invariant %s violated on the specification" % r.violated,
                      {"engine": "written", "module": "checks_written", "tlc_tail": r.out[-3000:]})
    pool, behs, rb = _behaviours(1 if quick else 2)
    expect = 19 * 19 * (21 if quick else 421)
    if len(behs) != expect:
        raise MachineryFailure("Written.tla emitted %d behaviours, expected %d" % (len(behs), expect))
    if quick:
        # two children: a seeded sample of the triples TLC checked exhaustively in MC_Written, predicted by a one-off TLC run
        pool2, behs2, _ = _behaviours(2)
        rng = random.Random(SEED + 9)
        two = [b for b in behs2 if len(b["case"][2]) == 2]
        wf2 = [b for b in two if b["wf"] or b["out"] == "ok"]
        behs = behs + wf2 + rng.sample(two, 2500)
    got = execute(pool, [b["case"] for b in behs])
    outcomes = {}
    seen = set()
    for b, g in zip(behs, got):
        rep.cov["traces_validated_against_impl"] += 1
        rep.count_case(["written", b["case"]], b["out"] != "IndexError")
        outcomes[b["out"]] = outcomes.get(b["out"], 0) + 1
        if [b["out"], b["view"]] == g:
            continue
        key = (b["out"], g[0], bool(b["wf"]))
        if key in seen:
            continue
        seen.add(key)
        what = ("WrittenAction.from_messages(start=%s, children=%s, end=%s) [item numbers of Written.tla's Pool]: specification %s %s, "
                "implementation %s %s" % (b["case"][0], b["case"][2], b["case"][1], b["out"], json.dumps(b["view"]), g[0], json.dumps(g[1])))
        if b["wf"]:
            rep.violation("well-formed action rejected or mis-built by the parser's node constructor: " + what,
                          {"engine": "written", "module": "checks_written", "pool": pool, "beh": b})
        else:
            print("NOTE %s: (information, ill-formed input, outside every listed property) %s" % (prop, what[:400]))
            rep.cov.setdefault("information", []).append(what[:300])
    rep.cov["written_behaviours"] = {"replayed": len(behs), "by_predicted_outcome": outcomes,
                                    "well_formed": sum(1 for b in behs if b["wf"]),
                                    "tolerated_ill_formed": sum(1 for b in behs if b["out"] == "ok" and not b["wf"])}
    if not any(b["wf"] for b in behs) or len(outcomes) < 8:
        raise MachineryFailure("Written.tla behaviours are vacuous: outcomes %s" % outcomes)
    rep.sample({"source": "Written.tla behaviour", "case": behs[-1]["case"], "predicted": [behs[-1]["out"], behs[-1]["view"]]})


def replay(prop, obj, path):
    if "beh" not in obj:
        print(obj.get("tlc_tail", ""))
        return 1
    b = obj["beh"]
    g = execute(obj["pool"], [b["case"]])[0]
    print("case %s\npredicted: %s\nobserved:  %s" % (b["case"], json.dumps([b["out"], b["view"]]), json.dumps(g)))
    if g != [b["out"], b["view"]]:
        print("VIOLATION property=%s replay=%s" % (prop, path))
        return 1
    return 0
