"""Shared infrastructure: running TLC, parsing its output, evidence files, known findings, verdicts."""
import os, sys, re, json, time, subprocess, tempfile, shutil, hashlib

VERIF = os.path.dirname(os.path.dirname(os.path.abspath(__file__)))
SPEC = os.path.join(VERIF, "spec")
HARNESS = os.path.join(VERIF, "harness")
REPO = os.environ.get("VERIF_REPO", "/repo")
PY = "/venv/bin/python"
SEED = int(os.environ.get("VERIF_SEED", "20261002") or 0)
WORKERS = int(os.environ.get("VERIF_WORKERS", "16"))
TLA_JAR = "/opt/veriftools/tla/tla2tools.jar:/opt/veriftools/tla/CommunityModules-deps.jar"


class MachineryFailure(Exception):
    pass


_tmpdirs = []


def mktemp(prefix="verif_"):
    d = tempfile.mkdtemp(prefix=prefix)
    _tmpdirs.append(d)
    return d


def cleanup():
    for d in _tmpdirs:
        shutil.rmtree(d, ignore_errors=True)
    del _tmpdirs[:]


# ---------------------------------------------------------------------------------------
# TLC
class TLCResult:
    def __init__(self):
        self.out = ""
        self.generated = 0
        self.distinct = 0
        self.depth = 0
        self.violated = None      # name of violated invariant / property
        self.error = None         # other TLC error text
        self.rc = None
        self.wall = 0.0
        self.coverage = {}

    @property
    def transitions(self):
        return max(self.generated - 1, 0)


def run_tlc(module, cfg, workers=None, env=None, timeout=900, simulate=None, depth=None, seed=None,
            coverage=False, deque=False, extra=None, cwd=SPEC, only=None):
    """Run TLC on spec/<module>.tla with spec/<cfg> (or an absolute cfg path).
    only=<name>: check just that INVARIANT / PROPERTY of the cfg -- for siblings that MUST be rejected for a stated reason: with
    several workers TLC reports whichever violated invariant it meets first, and a broken sibling usually violates several."""
    if only:
        src = cfg if os.path.isabs(cfg) else os.path.join(cwd, cfg)
        lines = [ln for ln in open(src).read().split("\n")
                 if not re.match(r"\s*(INVARIANT|PROPERTY)\b", ln) or re.match(r"\s*(INVARIANT|PROPERTY)\s+%s\s*$" % re.escape(only), ln)]
        cfg = os.path.join(mktemp("cfg_"), os.path.basename(cfg))
        open(cfg, "w").write("\n".join(lines))
    meta = mktemp("tlcmeta_")
    java_opts = ["-XX:+UseParallelGC"]
    if deque:
        java_opts.append("-Dtlc2.tool.queue.IStateQueue=StateDeque")
    cmd = ["java"] + java_opts + ["-cp", TLA_JAR, "tlc2.TLC", "-metadir", meta, "-noGenerateSpecTE",
                                  "-workers", str(workers or WORKERS), "-config", cfg]
    if simulate:
        cmd += ["-simulate", simulate]
    if depth:
        cmd += ["-depth", str(depth)]
    if seed is not None:
        cmd += ["-seed", str(seed)]
    if coverage:
        cmd += ["-coverage", "1"]
    if extra:
        cmd += extra
    cmd.append(module if module.endswith(".tla") else module + ".tla")
    e = dict(os.environ)
    if env:
        e.update(env)
    t0 = time.time()
    try:
        p = subprocess.run(cmd, cwd=cwd, env=e, stdout=subprocess.PIPE, stderr=subprocess.STDOUT, timeout=timeout)
        out = p.stdout.decode("utf-8", "replace")
        rc = p.returncode
    except subprocess.TimeoutExpired as ex:
        out = (ex.stdout or b"").decode("utf-8", "replace")
        rc = -9
    r = TLCResult()
    r.out, r.rc, r.wall = out, rc, time.time() - t0
    shutil.rmtree(meta, ignore_errors=True)
    m = re.findall(r"(\d+) states generated, (\d+) distinct states found", out)
    if m:
        r.generated, r.distinct = int(m[-1][0]), int(m[-1][1])
    m = re.search(r"The number of states generated: (\d+)", out)
    if m and not r.generated:
        r.generated = r.distinct = int(m.group(1))
    m = re.search(r"depth of the complete state graph search is (\d+)", out)
    if m:
        r.depth = int(m.group(1))
    m = re.search(r"Error: Invariant (\S+) is violated", out)
    if m:
        r.violated = m.group(1)
    m = re.search(r"Error: Action property (\S+) is violated", out)
    if m:
        r.violated = m.group(1)
    if r.violated is None and re.search(r"Error: Temporal properties were violated", out):
        r.violated = "temporal"
    if r.violated is None and ("Error:" in out or rc not in (0,)):
        if rc == -9:
            r.error = "timeout after %ss" % timeout
        else:
            m = re.search(r"Error: (.*(?:\n.*){0,12})", out)
            r.error = m.group(1) if m else "TLC exit status %s" % rc
    if coverage:
        for m in re.finditer(r"<(\w+) line \d+, col \d+ to line \d+, col \d+ of module (\w+)>: (\d+):(\d+)", out):
            r.coverage[m.group(1)] = r.coverage.get(m.group(1), 0) + int(m.group(4))
    return r


def require_ok(r, what):
    if r.error:
        raise MachineryFailure("%s: TLC failed: %s\n%s" % (what, r.error, r.out[-3000:]))


# ---------------------------------------------------------------------------------------
# parser for TLA+ values as TLC prints them (records, sequences/tuples, sets, strings, ints, booleans, functions)
_ID = re.compile(r"[A-Za-z_][A-Za-z0-9_]*")
_INT = re.compile(r"-?\d+")
_BOOL = re.compile(r"TRUE\b|FALSE\b")


class _P:
    def __init__(self, s, i=0):
        self.s, self.i = s, i

    def ws(self):
        while self.i < len(self.s) and self.s[self.i] in " \t\r\n":
            self.i += 1

    def peek(self, t):
        self.ws()
        return self.s.startswith(t, self.i)

    def eat(self, t):
        self.ws()
        if not self.s.startswith(t, self.i):
            raise ValueError("expected %r at %d: %r" % (t, self.i, self.s[self.i:self.i + 40]))
        self.i += len(t)

    def value(self):
        self.ws()
        s = self.s
        c = s[self.i]
        if s.startswith("<<", self.i):
            self.i += 2
            items = []
            while not self.peek(">>"):
                items.append(self.value())
                if self.peek(","):
                    self.eat(",")
            self.eat(">>")
            return items
        if c == "{":
            self.i += 1
            items = []
            while not self.peek("}"):
                items.append(self.value())
                if self.peek(","):
                    self.eat(",")
            self.eat("}")
            return {"__set__": items}
        if c == "[":
            self.i += 1
            rec = {}
            while not self.peek("]"):
                self.ws()
                m = _ID.match(s, self.i)
                key = m.group(0)
                self.i += len(key)
                self.eat("|->")
                rec[key] = self.value()
                if self.peek(","):
                    self.eat(",")
            self.eat("]")
            return rec
        if c == "(":
            # function printed as (a :> x @@ b :> y)
            self.i += 1
            fn = {}
            while not self.peek(")"):
                k = self.value()
                self.eat(":>")
                fn[json.dumps(k)] = self.value()
                if self.peek("@@"):
                    self.eat("@@")
            self.eat(")")
            return {"__fn__": fn}
        if c == '"':
            j = self.i + 1
            buf = []
            while s[j] != '"':
                if s[j] == "\\":
                    j += 1
                buf.append(s[j])
                j += 1
            self.i = j + 1
            return "".join(buf)
        m = _INT.match(s, self.i)
        if m:
            self.i += len(m.group(0))
            return int(m.group(0))
        m = _BOOL.match(s, self.i)
        if m:
            self.i += len(m.group(0))
            return m.group(0) == "TRUE"
        m = _ID.match(s, self.i)
        if m:
            self.i += len(m.group(0))
            return {"__id__": m.group(0)}
        raise ValueError("cannot parse TLA+ value at %d: %r" % (self.i, s[self.i:self.i + 40]))


def parse_tla(text):
    return _P(text).value()


def printed_tuples(out, tag):
    """All values PrintT'ed as <<"tag", ...>> in TLC output (robust to line wrapping and worker interleaving)."""
    res = []
    pat = re.compile(r'<<\s*"%s"' % re.escape(tag))
    pos = 0
    while True:
        m = pat.search(out, pos)
        if not m:
            break
        p = _P(out, m.start())
        try:
            res.append(p.value())
            pos = p.i
        except Exception:
            pos = m.start() + 2
    return res


def last_state_var(text, var):
    """Value of variable `var` in the last state of a behaviour file written by `tlc -simulate file=`."""
    key = "/\\ %s = " % var
    i = text.rfind(key)
    if i < 0:
        return None
    return _P(text, i + len(key)).value()


# ---------------------------------------------------------------------------------------
# known findings, verdicts, evidence
def known_findings():
    path = os.path.join(VERIF, "known_findings.json")
    if not os.path.exists(path):
        return []
    return json.load(open(path))["findings"]


class Report:
    """Collects what a check did; prints VIOLATION / KNOWN-FINDING lines; writes the evidence file."""

    def __init__(self, prop, tier, level="model_checking"):
        self.prop, self.tier, self.level = prop, tier, level
        self.t0 = time.time()
        self.cov = {"states": 0, "transitions": 0, "traces_validated_against_impl": 0, "samples": [],
                    "evaluations": 0, "configs": [], "exhaustive": False, "model_drift": [],
                    "rule": "", "distinct_nontrivial": 0}
        self.assumptions = []
        self.violations = []
        self.known = []
        self._distinct = set()

    def add_tlc(self, name, r, constants=None, expect_violation=None):
        self.cov["states"] += r.distinct
        self.cov["transitions"] += r.transitions
        self.cov["configs"].append({"config": name, "distinct_states": r.distinct, "states_generated": r.generated,
                                    "depth": r.depth, "wall_s": round(r.wall, 2), "constants": constants or {},
                                    "result": ("violated:" + r.violated) if r.violated else "no error",
                                    "expected": ("violated:" + expect_violation) if expect_violation else "no error"})

    def sample(self, s, limit=4):
        if len(self.cov["samples"]) < limit:
            self.cov["samples"].append(s)

    def count_case(self, key, nontrivial=True):
        self.cov["evaluations"] += 1
        if nontrivial:
            self._distinct.add(hashlib.sha1(json.dumps(key, sort_keys=True, default=str).encode()).hexdigest())

    def violation(self, what, replay_obj):
        if len(self.violations) >= 5:          # enough witnesses; keep counting
            self.violations.append({"what": what, "replay": None})
            return
        rdir = os.environ.get("VERIF_REPLAY_DIR") or os.path.join(VERIF, "replays")
        os.makedirs(rdir, exist_ok=True)
        h = hashlib.sha1(json.dumps(replay_obj, sort_keys=True, default=str).encode()).hexdigest()[:12]
        path = os.path.join(rdir, "%s_%s.json" % (self.prop, h))
        replay_obj = dict(replay_obj)
        replay_obj["property"] = self.prop
        replay_obj["what"] = what
        json.dump(replay_obj, open(path, "w"), indent=1, default=str)
        self.violations.append({"what": what, "replay": path})
        print("VIOLATION property=%s replay=%s" % (self.prop, path))
        print("  " + what)

    def known_finding(self, fid, what):
        if (fid, what) not in self.known:
            self.known.append((fid, what))
            print("KNOWN-FINDING: property=%s %s (%s)" % (self.prop, what, fid))

    def finish(self):
        self.cov["distinct_nontrivial"] = len(self._distinct)
        self.cov["known_findings_seen"] = [{"id": f, "what": w} for f, w in self.known]
        ev = {"property_id": self.prop, "tier": self.tier, "seed": SEED, "level": self.level, "coverage": self.cov,
              "assumptions": self.assumptions, "wall_s": round(time.time() - self.t0, 2),
              "violations": len(self.violations)}
        evdir = os.environ.get("VERIF_EVIDENCE_DIR") or os.path.join(VERIF, "evidence")
        os.makedirs(evdir, exist_ok=True)
        json.dump(ev, open(os.path.join(evdir, "%s.json" % self.prop), "w"), indent=1, default=str)
        cleanup()
        print("%s %s: %d violation(s); %d TLC states, %d implementation traces validated, %d cases; %.1fs" % (
            self.prop, self.tier, len(self.violations), self.cov["states"], self.cov["traces_validated_against_impl"],
            self.cov["evaluations"], time.time() - self.t0))
        return 1 if self.violations else 0


def repo_python(args, input_bytes=None, timeout=600, extra_path=None, env=None):
    """Run a python subprocess that imports the repository under test from its working tree."""
    e = dict(os.environ)
    pp = [REPO] + (extra_path or [])
    e["PYTHONPATH"] = os.pathsep.join(pp)
    e["PYTHONHASHSEED"] = "0"
    e.pop("ELIOT_VERIF", None)
    if env:
        e.update(env)
    return subprocess.run([PY] + args, input=input_bytes, stdout=subprocess.PIPE, stderr=subprocess.PIPE,
                          timeout=timeout, env=e, cwd="/")
