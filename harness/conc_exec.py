"""
Line-level interleavings of the REAL code (runs in a subprocess whose PYTHONPATH is the repository under test).

usage: python conc_exec.py scenarios.json out.json
Each scenario is explored with harness/sched.py (all schedules with <= k pre-emptions, capped, plus random ones); one
history per schedule is written, in the vocabulary of the level-A specifications (spec/MemLogA.tla, spec/HandoverA.tla,
spec/OnceA.tla, spec/WriterA.tla, spec/FileConcA.tla).
"""
import sys, os, json, io, threading, time
sys.path.insert(0, os.path.dirname(os.path.abspath(__file__)))
import sched as S

import eliot
from eliot import MessageType, Field, MemoryLogger
from eliot import _output
from eliot._traceback import TRACEBACK_MESSAGE
from eliot._output import Destinations, Logger, FileDestination


class XBase(Exception):
    pass


class X1(XBase):
    pass


class X2(XBase):
    pass


def wrap(v):
    return {"ser": v}


def depth(v):
    n = 0
    while isinstance(v, dict) and set(v) == {"ser"}:
        v = v["ser"]
        n += 1
    return n


M1 = MessageType("M1", [Field("x", wrap, "x"), Field("id", lambda v: v, "id")], "")
M2 = MessageType("M2", [Field("x", wrap, "x"), Field("id", lambda v: v, "id")], "")
SER = {1: M1._serializer, 2: M2._serializer, 3: TRACEBACK_MESSAGE._serializer}


def base(i):
    return {"task_uuid": "u%d" % i, "task_level": [1], "timestamp": 1.0 + i, "id": i}


# ---------------------------------------------------------------------------------------
def run_memlog(sc, chooser):
    s = S.Sched(("eliot/_output.py",))
    _patch_locks(s)
    logger = MemoryLogger()
    if hasattr(logger, "_lock") and not isinstance(logger._lock, S.CoopLock):
        logger._lock = S.CoopLock(s)

    def make(ops):
        def body():
            for o in ops:
                ev = {"e": "inv", "op": o["op"], "id": o.get("id", 0), "tb": o.get("tb", 0), "classes": o.get("classes", []), "bad": bool(o.get("bad"))}
                s.event(**ev)
                r = []
                try:
                    if o["op"] == "write":
                        m = base(o["id"])
                        if o.get("tb"):
                            cls = {1: X1, 2: X2}[o["tb"]]
                            m.update({"message_type": "eliot:traceback", "reason": cls("r"), "traceback": "tb", "exception": cls})
                            logger.write(m, SER[3])
                        else:
                            m.update({"message_type": "M%d" % o["ser"], "x": 7})
                            if o.get("bad"):
                                del m["x"]                    # a declared field is missing: validate() will raise
                            logger.write(m, SER[o["ser"]])
                    elif o["op"] == "validate":
                        logger.validate()
                    elif o["op"] == "serialize":
                        r = [[d["id"], depth(d["x"]) if "x" in d else (0 if isinstance(d.get("reason"), BaseException) else 1)]
                             for d in logger.serialize()]
                    elif o["op"] == "flush":
                        cls = {(1,): X1, (2,): X2, (1, 2): XBase}[tuple(o["classes"])]
                        r = [d["id"] for d in logger.flush_tracebacks(cls)]
                    elif o["op"] == "reset":
                        logger.reset()
                except Exception as e:
                    r = [["raised", type(e).__name__]]
                s.event(e="res", r=r)
        return body

    for name, ops in sorted(sc["threads"].items()):
        s.spawn(name, make(ops))
    s.run(chooser)
    msgs = [[d["id"], depth(d["x"]) if "x" in d else (0 if (isinstance(d.get("reason"), BaseException) or "reason" not in d) else 1)] for d in logger.messages]
    pair = len(logger.messages) == len(logger.serializers)
    if pair:
        for d, ser in zip(logger.messages, logger.serializers):
            want = SER[3] if d.get("message_type") == "eliot:traceback" else SER[int(d["message_type"][1])]
            if ser is not want:
                pair = False
    errors = [repr(t.error) for t in s.threads.values() if t.error] + ([s.deadlock] if s.deadlock else [])
    return {"ev": s.log, "final": {"msgs": msgs, "tbs": [d["id"] for d in logger.tracebackMessages]},
            "pair_ok": pair, "errors": errors}, s.steps


# ---------------------------------------------------------------------------------------
class RecFile:
    """File whose write() is a scheduling point; records every call."""

    def __init__(self, s, text=False):
        self.s, self.text, self.calls = s, text, []
        if text:
            # like a real text file (TextIOWrapper) it has an underlying binary stream; the file the application handed over is THIS
            # object, with its own encoding: what reaches .buffer directly has by-passed it (recorded as a foreign write)
            self.buffer = _Underlying(self)

    def write(self, data):
        if self.text and isinstance(data, bytes):
            raise TypeError("text file")
        if not self.text and isinstance(data, str):
            raise TypeError("binary file")
        if len(data) == 0:
            return 0
        self.s.yield_point(("file.write", 0))
        st = self.s.me()
        self.calls.append(["write", st.name if st else "main", data if isinstance(data, str) else data.decode("utf-8", "replace")])
        return len(data)

    def flush(self):
        self.s.yield_point(("file.flush", 0))
        st = self.s.me()
        self.calls.append(["flush", st.name if st else "main", ""])


class _Underlying:
    def __init__(self, owner):
        self.owner = owner

    def write(self, data):
        st = self.owner.s.me()
        self.owner.calls.append(["write", st.name if st else "main", "<<written to .buffer, by-passing the text file>> " + repr(data[:60])])
        return len(data)

    def flush(self):
        pass


def run_filedest(sc, chooser):
    s = S.Sched(("eliot/_output.py",))
    f = RecFile(s, text=sc.get("text", False))
    dest = FileDestination(file=f)
    big = "B" * 9000

    def make(ids):
        def body():
            for i in ids:
                m = base(i)
                m.update({"message_type": "m", "pad": big if i % 2 else "s"})
                s.event(e="inv", id=i)
                try:
                    dest(m)
                    s.event(e="res", id=i, ok=True)
                except Exception as e:
                    s.event(e="res", id=i, ok=False)
        return body

    for name, ids in sorted(sc["threads"].items()):
        s.spawn(name, make(ids))
    s.run(chooser)
    # classify every write: whole line of message i / head / tail / other
    pieces = []
    for kind, t, data in f.calls:
        if kind == "flush":
            pieces.append({"t": t, "k": "flush", "id": 0})
            continue
        ident = 0
        whole = data.endswith("\n") and data.count("\n") == 1
        try:
            obj = json.loads(data)
            ident = obj.get("id", 0)
            k = "whole" if whole else "head"
        except Exception:
            k = "tail" if data == "\n" else "garbage"
        pieces.append({"t": t, "k": k, "id": ident})
    content = "".join(d for k, t, d in f.calls if k == "write")
    lines = content.split("\n")
    ids = []
    ok = lines[-1] == ""
    for ln in lines[:-1]:
        try:
            ids.append(json.loads(ln)["id"])
        except Exception:
            ok = False
    return {"ev": pieces, "final": {"ids": sorted(ids), "wellformed": ok,
                                    "expected": sorted(i for v in sc["threads"].values() for i in v)},
            "errors": [repr(t.error) for t in s.threads.values() if t.error] + ([s.deadlock] if s.deadlock else [])}, s.steps


# ---------------------------------------------------------------------------------------
def _patch_locks(s):
    """Every lock the output layer creates from now on is a cooperative one."""
    if hasattr(_output, "Lock"):
        _output.Lock = lambda: S.CoopLock(s)


def run_handover(sc, chooser):
    s = S.Sched(("eliot/_output.py",))
    _patch_locks(s)
    D = Destinations()
    buf = D._destinations[0]
    if hasattr(buf, "_lock") and not isinstance(buf._lock, S.CoopLock):
        buf._lock = S.CoopLock(s)
    dests = []
    for d in sc["dests"]:
        def dest(msg, d=d):
            s.yield_point(("dest", d))
            s.event(e="deliver", op="", d=d, id=msg["id"])
        dests.append(dest)

    def send(i):
        s.event(e="inv", op="send", id=i, d=0)
        D.send(dict(base(i), message_type="m"))
        s.event(e="res", op="send", id=i, d=0)

    for i in sc.get("pre", []):
        send(i)

    def logger(ids):
        def body():
            for i in ids:
                send(i)
        return body

    def adder():
        s.event(e="inv", op="add", id=0, d=0)
        D.add(*dests)
        s.event(e="res", op="add", id=0, d=0)

    for name, ids in sorted(sc["threads"].items()):
        s.spawn(name, logger(ids))
    s.spawn("A", adder)
    s.run(chooser)
    for i in sc.get("post", []):
        send(i)
    return {"ev": s.log, "dests": sc["dests"], "errors": [repr(t.error) for t in s.threads.values() if t.error] + ([s.deadlock] if s.deadlock else [])}, s.steps


def run_handover_cap(sc, chooser):
    """The hand-over with a FULL start-up buffer (>= 1000 buffered messages) and global fields set just before the first add():
    a logger thread races the adder.  Only a summary goes to TLC (HandoverCapA.tla): what each destination was offered, in order."""
    racing = set(i for ids in sc["threads"].values() for i in ids)

    def lf(frame):
        # the thousand buffered messages need no pre-emption points of their own inside the fan-out
        if frame.f_code.co_name in ("send", "_deliver", "_report", "_offer", "_offer_with_globals", "_report_failures"):
            m = frame.f_locals.get("message")
            return not isinstance(m, dict) or m.get("id") in racing
        return True
    s = S.Sched(("eliot/_output.py",), line_filter=lf)
    _patch_locks(s)
    D = Destinations()
    buf = D._destinations[0]
    if hasattr(buf, "_lock") and not isinstance(buf._lock, S.CoopLock):
        buf._lock = S.CoopLock(s)
    offered = {d: [] for d in sc["dests"]}
    gf_done = [False]
    inv_after_gf = set()
    dests = []
    for d in sc["dests"]:
        def dest(msg, d=d):
            if msg["id"] in racing:
                s.yield_point(("dest", d))
            offered[d].append([msg["id"], 1 if "g9" in msg else 0, 1 if gf_done[0] else 0, 1 if msg["id"] in inv_after_gf else 0])
        dests.append(dest)
    for i in sc["pre"]:
        D.send(dict(base(i), message_type="m"))

    def logger(ids):
        def body():
            for i in ids:
                if gf_done[0]:
                    inv_after_gf.add(i)
                D.send(dict(base(i), message_type="m"))
        return body

    def adder():
        if sc.get("gf"):
            D.addGlobalFields(g9=1)
            gf_done[0] = True
        D.add(*dests)

    for name, ids in sorted(sc["threads"].items()):
        s.spawn(name, logger(ids))
    s.spawn("A", adder)
    s.run(chooser)
    pre = list(sc["pre"])
    if pre != list(range(pre[0], pre[0] + len(pre))) if pre else False:
        raise RuntimeError("handover_cap: the buffered ids must be consecutive")
    return {"pre_lo": pre[0] if pre else 1, "pre_hi": pre[-1] if pre else 0, "late": sorted(racing), "offered": [offered[d] for d in sc["dests"]], "gf": 1 if sc.get("gf") else 0,
            "errors": [repr(t.error) for t in s.threads.values() if t.error] + ([s.deadlock] if s.deadlock else [])}, s.steps


def run_fanout(sc, chooser):
    """Several threads log through one Destinations whose destinations fail on chosen messages."""
    from eliot import log_message
    s = S.Sched(("eliot/_output.py",))
    _patch_locks(s)
    D = Destinations()
    Logger._destinations = D
    fail = {int(k): set(v) for k, v in sc.get("fail", {}).items()}      # dest -> ids of application messages it fails on

    def mk(d):
        def dest(msg):
            s.yield_point(("dest", d))
            rep = msg.get("message_type") == "eliot:destination_failure"
            key = "%s/%s" % (msg["task_uuid"], "/".join(map(str, msg["task_level"])))
            raised = (not rep) and msg.get("id") in fail.get(d, ())
            kind = {"eliot:destination_failure": "report", "eliot:traceback": "tb", "eliot:serialization_failure": "sf"}.get(msg.get("message_type"), "msg")
            s.event(e="deliver", d=d, key=key, kind=kind, raised=raised)
            if raised:
                raise RuntimeError("destination %d fails on message %s" % (d, msg.get("id")))
        return dest

    D.add(*[mk(d) for d in sc["dests"]])

    serfail = set(sc.get("serfail", ()))            # ids logged as a typed message whose serializer raises
    from eliot import MessageType, Field

    def _boom(v):
        raise ValueError("this serializer always fails")
    typed = MessageType("typed", [Field("id", _boom, "a field whose serializer raises")], "typed message")

    def logger(ids):
        def body():
            for i in ids:
                if i in serfail:
                    typed.log(id=i)
                else:
                    log_message(message_type="m", id=i)
        return body

    for name, ids in sorted(sc["threads"].items()):
        s.spawn(name, logger(ids))
    s.run(chooser)
    return {"ev": s.log, "dests": sc["dests"], "sent": sum(1 for v in sc["threads"].values() for i in v if i not in serfail), "serfails": len(serfail),
            "errors": [repr(t.error) for t in s.threads.values() if t.error] + ([s.deadlock] if s.deadlock else [])}, s.steps


def run_regrace(sc, chooser):
    """One thread adds destinations while another removes one; afterwards messages are logged: exactly the destinations whose
    add() returned and that were not removed must be offered them."""
    s = S.Sched(("eliot/_output.py",))
    _patch_locks(s)
    D = Destinations()
    got = {}

    def mk(d):
        def dest(msg):
            got.setdefault(d, []).append(msg["id"])
        return dest

    dests = {d: mk(d) for d in sc["initial"] + sc["add"]}
    D.add(*[dests[d] for d in sc["initial"]])

    def adder():
        for d in sc["add"]:
            D.add(dests[d])

    def remover():
        for d in sc["remove"]:
            D.remove(dests[d])

    s.spawn("A", adder)
    s.spawn("R", remover)
    s.run(chooser)
    for i in sc["post"]:
        D.send(dict(base(i), message_type="m"))
    expect = sorted(set(sc["initial"] + sc["add"]) - set(sc["remove"]))
    ev = [{"d": d, "ids": got.get(d, [])} for d in sorted(dests)]
    return {"ev": ev, "expect": expect, "post": sc["post"],
            "errors": [repr(t.error) for t in s.threads.values() if t.error] + ([s.deadlock] if s.deadlock else [])}, s.steps


def run_once(sc, chooser):
    from eliot import start_action, preserve_context, _action
    from eliot._action import TooManyCalls
    s = S.Sched(("eliot/_action.py",))
    D = Destinations()
    Logger._destinations = D
    got = []
    D.add(got.append)
    calls = []
    sentinel = object()
    boom = RuntimeError("f raises")

    def f(x):
        s.yield_point(("f", 0))
        calls.append(x)
        if sc.get("raises"):
            raise boom
        return sentinel

    box = {}

    def main_part():
        with start_action(action_type="A"):
            box["p"] = preserve_context(f)
    main_part()
    p = box["p"]

    def caller(n):
        def body():
            for k in range(n):
                s.event(e="inv", op="call")
                try:
                    r = p(7)
                    s.event(e="res", r="ran" if r is sentinel else "wrong_result")
                except TooManyCalls:
                    s.event(e="res", r="too_many")
                except BaseException as e:
                    s.event(e="res", r="ran" if e is boom else "other:" + type(e).__name__)
        return body

    for name, n in sorted(sc["threads"].items()):
        s.spawn(name, caller(n))
    s.run(chooser)
    keys = [(m["task_uuid"], tuple(m["task_level"])) for m in got]
    return {"ev": s.log, "f_calls": len(calls), "dup_levels": len(keys) - len(set(keys)),
            "remote_starts": sum(1 for m in got if m.get("action_type") == "eliot:remote_task" and m.get("action_status") == "started"),
            "errors": [repr(t.error) for t in s.threads.values() if t.error] + ([s.deadlock] if s.deadlock else [])}, s.steps


# ---------------------------------------------------------------------------------------
class _ThreadShim:
    """What eliot.logwriter sees as the `threading` module: Thread objects are scheduler-controlled threads."""

    def __init__(self, s):
        self.s = s
        self.n = 0
        shim = self

        class Thread(object):
            def __init__(self, target=None, name=None, args=(), kwargs=None, daemon=None):
                shim.n += 1
                self._name = "W%d" % shim.n
                self._target, self._args, self._kwargs = target, args, kwargs or {}

            def start(self):
                shim.s.spawn(self._name, lambda: self._target(*self._args, **self._kwargs))

            def join(self, timeout=None):
                shim.s.join(self._name)

            def is_alive(self):
                return shim.s.threads[self._name].status != "done"

            @property
            def name(self):
                return self._name

        self.Thread = Thread
        self.Lock = lambda: S.CoopLock(s)
        self.RLock = lambda: S.CoopLock(s)
        self.current_thread = threading.current_thread
        self.get_ident = threading.get_ident


class _Pool:
    def __init__(self, s):
        self.s, self.n = s, 0
        self.on_done = None

    def callInThread(self, f, *a, **kw):
        self.n += 1
        self.s.spawn("J%d" % self.n, lambda: f(*a, **kw))


class _Reactor:
    def __init__(self, pool):
        self.pool = pool

    def getThreadPool(self):
        return self.pool


def run_writer(sc, chooser):
    import eliot.logwriter as LW
    s = S.Sched(("eliot/logwriter.py",))
    LW.threading = _ThreadShim(s)
    pool = _Pool(s)
    fail = set(sc.get("fail", []))
    cyc = {"n": 0}

    def wrapped(msg):
        s.yield_point(("wrapped", 0))
        st = s.me()
        s.event(e="write", op="", id=msg["id"], cycle=cyc["n"], raised=msg["id"] in fail)
        if msg["id"] in fail:
            raise RuntimeError("wrapped destination fails")

    w = LW.ThreadedWriter(wrapped, _Reactor(pool))
    w._queue = S.CoopQueue(s)

    def producer(ids):
        def body():
            for i in ids:
                s.event(e="inv", op="offer", id=i, cycle=0)
                w(dict(base(i), message_type="m"))
                s.event(e="res", op="offer", id=i, cycle=0)
        return body

    def manager():
        for c in range(1, sc.get("cycles", 1) + 1):
            cyc["n"] = c
            s.event(e="inv", op="start", id=c, cycle=c)
            w.startService()
            s.event(e="res", op="start", id=c, cycle=c)
            for i in sc.get("inline", {}).get(str(c), []):
                s.event(e="inv", op="offer", id=i, cycle=0)
                w(dict(base(i), message_type="m"))
                s.event(e="res", op="offer", id=i, cycle=0)
            s.event(e="inv", op="stop", id=c, cycle=c)
            pool.on_done = lambda res, c=c: s.event(e="done", op="stop", id=c, cycle=c)
            r = w.stopService()
            s.event(e="res", op="stop", id=c, cycle=c)
            # the application waits for stopService's result before it goes on
            while not r.done:
                s.block_on(("join", "J%d" % pool.n))

    for name, ids in sorted(sc["threads"].items()):
        s.spawn(name, producer(ids))
    s.spawn("M", manager)
    s.run(chooser)
    return {"ev": s.log, "errors": [repr(t.error) for t in s.threads.values() if t.error] + ([s.deadlock] if s.deadlock else [])}, s.steps


def run_writer_stall(sc, chooser):
    """Free-running (no scheduler): the wrapped destination stalls on its first message while a producer offers many more.
    Logging must not block on slow output: the producer finishes while the destination is still stalled."""
    import importlib, queue as _queue
    import eliot.logwriter as LW
    importlib.reload(LW)                              # undo any shim installed by other scenarios

    class Pool:
        def callInThread(self, f, *a, **kw):
            threading.Thread(target=lambda: f(*a, **kw), daemon=True).start()

    class Reactor:
        def getThreadPool(self):
            return Pool()

    gate = threading.Event()
    written = []
    wthreads = set()

    def wrapped(msg):
        wthreads.add(threading.get_ident())
        if not written:
            gate.wait(30)
        written.append(msg["id"])

    w = LW.ThreadedWriter(wrapped, Reactor())
    w.startService()
    n = sc["n"]
    done = threading.Event()

    def producer():
        for i in range(1, n + 1):
            w(dict(base(i), message_type="m"))
        done.set()

    pt = threading.Thread(target=producer, daemon=True)
    pt.start()
    finished = done.wait(sc.get("patience_s", 8))
    gate.set()
    done.wait(30)
    r = w.stopService()
    t0 = time.time()
    while not r.done and time.time() - t0 < 30:
        time.sleep(0.01)
    return {"ev": [], "n": n, "producer_finished_while_stalled": bool(finished), "written_in_order": written == list(range(1, n + 1)),
            "written": len(written), "writer_threads": len(wthreads), "stop_completed": bool(r.done),
            "errors": []}, [([], "free-running", False)]


RUNNERS = {"handover_cap": run_handover_cap, "writer_stall": run_writer_stall, "regrace": run_regrace, "fanout": run_fanout, "writer": run_writer, "memlog": run_memlog, "filedest": run_filedest, "handover": run_handover, "once": run_once}


def main():
    scs = json.load(open(sys.argv[1]))
    out = []
    for sc in scs:
        runner = RUNNERS[sc["kind"]]
        hist = []

        def make_run(chooser):
            return runner(sc, chooser)

        if sc.get("fixed_schedule") is not None:
            fixed = sc["fixed_schedule"]

            def chooser(i, runnable, current, fixed=fixed):
                if i < len(fixed) and fixed[i] in runnable:
                    return fixed[i]
                return current if current is not None else runnable[0]
            result, steps = runner(sc, chooser)
            result["schedule"] = [s_[1] for s_ in steps]
            out.append({"scenario": sc, "runs": [result], "exhaustive": False})
            continue
        t0 = time.time()
        n = 0
        for choices, result in S.explore(make_run, sc.get("max_pre", 2), sc.get("cap", 300), sc.get("seed", 0), sc.get("random", 0), early=sc.get("early", False)):
            result["schedule"] = choices
            hist.append(result)
            n += 1
            if time.time() - t0 > sc.get("budget_s", 60):
                break
        out.append({"scenario": sc, "runs": hist, "exhaustive": getattr(S.explore, "last_exhaustive", False)})
    with open(sys.argv[2], "w") as fh:
        json.dump({"eliot_file": eliot.__file__, "results": out}, fh)
    # threads the code under test leaked (a writer thread waiting for ever on a queue nobody feeds) must not keep this process alive
    sys.stdout.flush()
    sys.stderr.flush()
    os._exit(0)


if __name__ == "__main__":
    main()
