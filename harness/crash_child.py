"""Child process of the crash runner: logs a program through a real FileDestination over a real buffered file and may
kill itself (SIGKILL) at a chosen point of a chosen destination call.  Every write()/flush() the file object receives and
every logging call that returned is reported on the acknowledgement pipe with os.write (unbuffered, survives the kill)."""
import sys, os, json, signal, time

spec = json.loads(sys.argv[1])
ack_fd = int(spec["ack_fd"])

from eliot._output import Destinations, Logger, FileDestination
import eliot_exec as X


def say(s):
    os.write(ack_fd, (s + "\n").encode())


def die():
    os.kill(os.getpid(), signal.SIGKILL)


class Proxy(object):
    """The file object handed to FileDestination; a real buffered file is behind it."""

    def __init__(self, real, text):
        self.real, self.text, self.n = real, text, 0

    def write(self, data):
        if self.text and isinstance(data, bytes):
            raise TypeError("write() argument must be str, not bytes")
        if not self.text and isinstance(data, str):
            raise TypeError("a bytes-like object is required, not 'str'")
        if len(data) == 0:
            return 0
        self.n += 1
        if spec.get("kill") == [self.n, "before_write"]:
            die()
        say("w")
        r = self.real.write(data)
        if spec.get("kill") == [self.n, "after_write"]:
            die()
        return r

    def flush(self):
        self.nf = getattr(self, "nf", 0) + 1
        if spec.get("flush_fault") == self.nf:
            # a transient I/O fault: the flush raises and nothing leaves the process's buffer
            import errno
            say("x")
            raise OSError(errno.ENOSPC, "No space left on device (injected, once)")
        say("F")                 # the flush begins ...
        self.real.flush()
        say("f")                 # ... and has returned: in between, the data may or may not have reached the kernel yet
        if spec.get("kill") == [self.n, "after_flush"]:
            die()


mode = spec["mode"]
real = open(spec["path"], "ab") if mode == "binary" else open(spec["path"], "a", encoding="utf-8", newline="\n")
proxy = Proxy(real, mode == "text")
prog = spec["program"]
env = X.Env(prog)
env.recording = False                      # no event trace here: the file and the pipe are the observations
D = Destinations()
Logger._destinations = D
D.add(FileDestination(file=proxy))
env.D = D
runner = X.Runner(env, 1)
env.runners[1] = runner
_real_finish = X.Runner.finish_op


def finish_and_ack(self, v):
    _real_finish(self, v)
    say("a")                               # this logging call has returned to the application
    if spec.get("kill") == [proxy.n, "after_return"]:
        die()
    if spec.get("sleep"):
        time.sleep(spec["sleep"])


X.Runner.finish_op = finish_and_ack
_real_next = X.Runner.next_op


def next_or_exit(self):
    if self.inbox.empty():
        # the program is over: leave at once (no unwinding of open blocks, which would log more messages)
        real.flush()
        say("end")
        os._exit(0)
    return _real_next(self)


X.Runner.next_op = next_or_exit
for op in prog["ops"]:
    runner.inbox.put(op)
runner.main()
