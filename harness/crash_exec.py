"""Parent side of the crash runner (runs with PYTHONPATH = repository under test + harness).
usage: python crash_exec.py cases.json out.json
case: {"program": ..., "mode": "binary"|"text", "kill": [n, phase] | null, "ext_kill_after_s": float | null, "sleep": float}
For each case: a reference run without crash gives the universe of messages; the crashing child is run, its pipe events and
the file it left are turned into a trace for spec/Trace_FileDest.tla, and the complete lines are given to the real Parser
(add by add, recorded for spec/Trace_Parser.tla)."""
import sys, os, json, subprocess, tempfile, time, signal
import eliot
import eliot_exec as X
import parser_exec as PX

HERE = os.path.dirname(os.path.abspath(__file__))


def run_child(case, path):
    r, w = os.pipe()
    os.set_inheritable(w, True)
    spec = {"program": case["program"], "mode": case["mode"], "kill": case.get("kill"), "path": path, "ack_fd": w,
            "sleep": case.get("sleep", 0), "flush_fault": case.get("flush_fault")}
    p = subprocess.Popen([sys.executable, os.path.join(HERE, "crash_child.py"), json.dumps(spec)], pass_fds=[w],
                         stdout=subprocess.DEVNULL, stderr=subprocess.PIPE, env=dict(os.environ))
    os.close(w)
    if case.get("ext_kill_after_s") is not None:
        time.sleep(case["ext_kill_after_s"])
        try:
            p.send_signal(signal.SIGKILL)
        except ProcessLookupError:
            pass
    data = b""
    while True:
        chunk = os.read(r, 65536)
        if not chunk:
            break
        data += chunk
    os.close(r)
    err = p.stderr.read().decode()[-1500:]
    rc = p.wait()
    ev = [x for x in data.decode().split("\n") if x]
    return ev, rc, err


def main():
    cases = json.load(open(sys.argv[1]))
    ftraces, ptraces, meta = [], [], []
    tmp = tempfile.mkdtemp(prefix="crash_")
    from concurrent.futures import ThreadPoolExecutor
    paths = [os.path.join(tmp, "log%d.json" % ci) for ci in range(len(cases))]
    with ThreadPoolExecutor(max_workers=int(os.environ.get("VERIF_WORKERS", "16"))) as ex:
        children = list(ex.map(lambda a: run_child(*a), zip(cases, paths)))
    refcache = {}
    for ci, case in enumerate(cases):
        # reference: the same program without a crash, in process
        key = json.dumps(case["program"], sort_keys=True)
        if key not in refcache:
            refcache[key] = PX.universe_of(dict(case["program"], init=[1], ndest=1))
        msgs, order = refcache[key]
        msgs = [dict(m) for m in msgs]
        universe = [{"id": m["id"], "u": m["u"], "lv": m["lv"], "k": m["k"]} for m in msgs]
        path = paths[ci]
        ev, rc, err = children[ci]
        ended = bool(ev) and ev[-1] == "end"
        if ended:
            ev = ev[:-1]
        raw = open(path, "rb").read() if os.path.exists(path) else b""
        os.unlink(path) if os.path.exists(path) else None
        parts = raw.split(b"\n")
        complete, fragment = parts[:-1], parts[-1]
        why = ""
        dicts = []
        for i, ln in enumerate(complete):
            try:
                d = json.loads(ln.decode("utf-8", "strict"))
            except Exception:
                why = "complete_line_is_not_json"
                break
            dicts.append(d)
        faulty = bool(case.get("flush_fault"))       # the injected fault is reported through the same file, inside the current action:
        #                                               the lines differ from the reference run; counts and JSON validity are checked
        # complete lines must be the reference messages, in order (same task structure: uuid renaming by first appearance)
        uo = {}
        if not why and not faulty:
            if len(dicts) > len(msgs):
                why = "more_lines_than_messages"
            for d, m in zip(dicts, msgs):
                u = uo.setdefault(d.get("task_uuid"), len(uo) + 1)
                if u != m["u"] or d.get("task_level") != m["lv"]:
                    why = "lines_are_not_a_prefix_of_the_program_output"
                    break
        if not why and fragment and not faulty:
            if b"\n" in fragment:
                why = "fragment"
            nxt = msgs[len(dicts)]["dict"] if len(dicts) < len(msgs) else None
            if nxt is None:
                why = "fragment_after_last_message"
        if rc not in (0, -9):
            why = why or ("child_failed_rc_%s" % rc)
        ftraces.append({"ev": ev, "complete": len(complete), "fragment": bool(fragment), "why": why})
        meta.append({"case": case, "rc": rc, "ended": ended, "stderr": err if rc not in (0, -9) else "", "n_messages": len(msgs)})
        # the real parser on what is there
        if not why and not faulty:
            ids = list(range(1, len(dicts) + 1))
            for m, d in zip(msgs, dicts):
                m["dict"] = d
            res = PX.run_trial(msgs, uo, ids, nu=len(order))
            res.pop("final_tasks")
            res.update({"universe": universe, "nu": len(order), "order": ids})
            ptraces.append(res)
        else:
            ptraces.append(None)
    json.dump({"eliot_file": eliot.__file__, "file_traces": ftraces, "parser_traces": ptraces, "meta": meta}, open(sys.argv[2], "w"))


if __name__ == "__main__":
    main()
