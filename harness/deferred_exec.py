"""Runs call histories of spec/Deferred.tla on the real eliot.twisted.DeferredContext (Twisted's Deferred is replaced by the
stand-in in harness/stubs, which implements the synchronous callback-chain semantics the specification models) and prints what an
observer sees, in the vocabulary of the specification's `obs` variable.  Observations are appended at the moment they happen (by
the callbacks themselves and by the logging destination), so their order is the real order."""
import sys, json, os

sys.path.insert(0, os.path.join(os.path.dirname(os.path.abspath(__file__)), "stubs"))

from eliot import start_action, current_action, add_destinations, remove_destination, log_message   # noqa
from eliot.twisted import DeferredContext, AlreadyFinished                                           # noqa
from twisted.internet.defer import Deferred                                                          # noqa
from twisted.python.failure import Failure                                                           # noqa

EXC = {}


def exc_class(k):
    if k not in EXC:
        EXC[k] = type("Exc%d" % k, (Exception,), {})
    return EXC[k]


def kind(r):
    if isinstance(r, Failure):
        n = type(r.value).__name__
        return ["fail", int(n[3:])] if n.startswith("Exc") and n[3:].isdigit() else ["fail", "?" + n]
    return ["ok", r]


def run(ops):
    obs, state = [], {"last": None, "starts": 0, "nend": 0}

    def dest(m):
        state["last"] = m
        if m.get("action_type") == "A" and m.get("action_status") == "started":
            state["starts"] += 1
        if m.get("action_type") == "A" and m.get("action_status") in ("succeeded", "failed"):
            state["nend"] += 1
            if m["action_status"] == "failed":
                cls = str(m.get("exception", "")).rsplit(".", 1)[-1]
                w = int(cls[3:]) if cls.startswith("Exc") and cls[3:].isdigit() else "?" + str(m.get("exception"))
                if m.get("reason") != "boom%s" % w:
                    w = "?reason:%r" % (m.get("reason"),)
                e = ["failed", w]
            else:
                e = ["succeeded"] if "exception" not in m and "reason" not in m else ["succeeded", "?with exception fields"]
            lvl = m["task_level"][0] if len(m["task_level"]) == 1 and m["task_uuid"] == A.task_uuid else -1
            obs.append(["end", e, lvl])

    add_destinations(dest)
    try:
        A = start_action(action_type="A")
        B = start_action(action_type="B")
        names = {id(A): "A", id(B): "B"}

        def who():
            c = current_action()
            return "none" if c is None else names.get(id(c), "other")

        d = Deferred()
        with A.context():
            dc = DeferredContext(d)
        cur = "A"

        def in_cur(f):
            def checked():
                before = who()
                try:
                    return f()
                finally:
                    if who() != before:
                        obs.append(["caller_context_changed", before, who()])
            if cur == "A":
                with A.context():
                    return checked()
            if cur == "B":
                with B.context():
                    return checked()
            return checked()

        def make(k, via, beh):
            def cb(result):
                level = 0
                if via == "ctx":
                    state["last"] = None
                    log_message(message_type="in_cb", k=k)
                    m = state["last"]
                    level = m["task_level"][0] if (m is not None and m.get("k") == k and m["task_uuid"] == A.task_uuid
                                                   and len(m["task_level"]) == 1) else -1
                obs.append(["cb", k, kind(result), who(), level])
                if beh == "pass":
                    return result
                if beh == "val":
                    return k
                raise exc_class(k)("boom%d" % k)
            return cb

        ncb = 0
        for op in ops:
            if op[0] == "SetCur":
                cur = op[1]
            elif op[0] == "AddCb":
                _, via, onok, onfail = op
                k = ncb + 1
                obs.append(["adding", k])
                try:
                    if via == "ctx":
                        if in_cur(lambda: dc.addCallbacks(make(k, via, onok), make(k, via, onfail))) is not dc:
                            obs.append(["bad_return", "addCallbacks"])
                    else:
                        in_cur(lambda: d.addCallbacks(make(k, via, onok), make(k, via, onfail)))
                    ncb += 1
                except AlreadyFinished:
                    obs.append(["already_finished"])
            elif op[0] == "AddFinish":
                obs.append(["finishing"])
                try:
                    if in_cur(dc.addActionFinish) is not d:
                        obs.append(["bad_return", "addActionFinish"])
                except AlreadyFinished:
                    obs.append(["already_finished"])
            elif op[0] == "Fire":
                obs.append(["fired", op[1]])
                if op[1] == "ok":
                    in_cur(lambda: d.callback(0))
                else:
                    in_cur(lambda: d.errback(Failure(exc_class(0)("boom0"))))
        return {"obs": obs, "res": ["none"] if not d.called else kind(d.result), "nend": state["nend"], "starts": state["starts"]}
    finally:
        remove_destination(dest)


def fixed_cases():
    """Cases outside the state machine: creation outside any action is refused."""
    out = {}
    try:
        DeferredContext(Deferred())
        out["create_outside_action"] = "accepted"
    except RuntimeError:
        out["create_outside_action"] = "RuntimeError"
    except BaseException as e:     # noqa
        out["create_outside_action"] = type(e).__name__
    return out


if __name__ == "__main__":
    progs = json.load(sys.stdin)
    out = []
    for p in progs:
        try:
            out.append(run(p))
        except BaseException as e:     # noqa
            out.append({"error": "%s: %s" % (type(e).__name__, e)})
    json.dump({"runs": out, "fixed": fixed_cases()}, sys.stdout)
