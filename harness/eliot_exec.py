"""
Executes abstract Eliot programs (sequences of the public calls of spec/Eliot.tla, with
fault masks for destinations and field serializers) against the REAL library and records
one event trace per program, in the vocabulary of spec/Trace_Eliot.tla.

Runs in a subprocess whose PYTHONPATH points at the repository under test
(VERIF_REPO, default /repo), so the current working tree is what is exercised.

usage: python eliot_exec.py programs.json traces.json
"""
import sys, json, io, threading, queue, contextvars, asyncio, traceback

import eliot
from eliot import (start_action, start_task, log_message, current_action, write_traceback,
                   Action, ActionType, MessageType, Field, register_exception_extractor,
                   FileDestination)
from eliot import _output
from eliot._output import Destinations, Logger
from eliot.parse import Parser

RESERVED = {"task_uuid", "task_level", "timestamp", "action_type", "action_status", "message_type"}
GLOBALS = {"g1": [{"gv": [1, "one"]}, "g1 second value"], "g2": [2.5, [2, 5]]}        # name -> values of version 1, 2
VAL = {
    "sa": {"k": [1, 2.5, "ü\U0001f600", None, True], "n": -0.0},
    "mf": ["multi\nline", {"a": {"b": []}}, 2 ** 53 + 1],
    "x": 7, "y": "why", "z": [0, False, ""],
    "e0": "from E0", "e1": ["from", "E1"], "e2": {"from": "E2"}, "d2": "from D2",
}
RESERVED_COLLISIONS = {"timestamp": "not-a-float", "task_level": "bogus", "task_uuid": 5}


class _BadStrObj(object):
    def __str__(self):
        raise RuntimeError("no str")

    def __repr__(self):
        raise RuntimeError("no repr")


class _BadReprOnly(object):
    def __repr__(self):
        raise ValueError("no repr")


def _deep(n):
    x = []
    for _ in range(n):
        x = [x]
    return x


def _selfref():
    x = []
    x.append(x)
    return x


HOSTILE = [lambda: _BadStrObj(), lambda: {1: "int key", (2, 3): "tuple key"}, lambda: 2 ** 70, lambda: float("nan"),
           lambda: b"\xff\xfebytes", lambda: "lone \ud800 surrogate", lambda: object(), lambda: _deep(3000),
           lambda: _selfref(), lambda: {"k": _BadReprOnly()}, lambda: float("inf"), lambda: {"s": {1, 2}},
           lambda: {"nested": [_BadStrObj()]}, lambda: -(2 ** 64), lambda: lambda z: z]


import copy as _copy
X_PRISTINE = None


class _Abort(BaseException):
    """Unwinds a context's open blocks when the program is over."""


class HarnessError(Exception):
    pass


# ---- exception witnesses -------------------------------------------------------------
class BadStr(Exception):
    def __str__(self):
        raise RuntimeError("str() of this exception raises")


class _StrAbort(BaseException):
    """what str() of BadStrBase raises: not an Exception subclass (like CancelledError / KeyboardInterrupt arriving inside __str__)"""


class BadStrBase(Exception):
    def __str__(self):
        raise _StrAbort("str() of this exception raises a BaseException")

    def __repr__(self):
        raise asyncio.CancelledError()


class BoolRaises(Exception):
    """An exception object whose truth value cannot be taken (an aggregate error whose __len__/__bool__ consults a closed resource)"""

    def __bool__(self):
        raise RuntimeError("the truth value of this exception cannot be taken")

    def __len__(self):
        raise RuntimeError("the length of this exception cannot be taken")


class FalsyExc(Exception):
    """An exception object that is false in a boolean context (e.g. an aggregate error with no sub-errors)."""

    def __bool__(self):
        return False


class EmptyLenExc(KeyboardInterrupt):
    def __len__(self):
        return 0


NoModuleExc = type("NoModuleExc", (Exception,), {"__module__": None})


class ExtRaise(OSError):
    """its extractor fails; a base class (OSError -> EnvironmentError) has a working extractor of its own (Eliot's errno one), which
    must NOT be consulted instead: the nearest registered class decides"""


class ExtRaiseInner(ExtRaise):
    """what the failing extractor raises: an exception the very same extractor is registered for"""


class EmptyStrBadRepr(Exception):
    def __str__(self):
        return ""

    def __repr__(self):
        raise RuntimeError("repr() of this exception raises")


class BadInit(Exception):
    """cannot be copied or pickled: its constructor needs two arguments, its args hold one"""

    def __init__(self, a, b):
        Exception.__init__(self, "only one")


class SerBaseErr(BaseException):
    """raised by a field serializer: not an Exception subclass (like CancelledError / GeneratorExit)"""


class Uncopyable(object):
    def __init__(self):
        self.lock = threading.Lock()
        self.gen = (i for i in range(3))


class SerErr(Exception):
    pass


class DestErr(Exception):
    pass


class DestErrBadStr(Exception):
    def __str__(self):
        raise ValueError("no text")


class ExtCross(Exception):
    """raised by ExtRaise's extractor; its own extractor raises an ExtRaise in turn (two failing extractors naming each other)"""


def _raising_extractor(e):
    n = len(str(e)) % 4
    if n == 0:
        return None             # not a dictionary at all: as good as a failure (nothing to add), never an error of the logging call
    if n == 1:
        raise ZeroDivisionError("extractor failed")
    if n == 2:
        raise ExtCross("the extractor fails with an exception whose own extractor fails with an ExtRaise")
    raise ExtRaiseInner("the extractor fails with an exception it is itself registered for")


def _cross_extractor(e):
    text = "extractor of ExtCross fails"
    raise ExtRaise(text + "." * ((2 - len(text)) % 4))      # (a text for which ExtRaise's extractor raises ExtCross again)


register_exception_extractor(ExtCross, _cross_extractor)


register_exception_extractor(ExtRaise, _raising_extractor)

EXC_WITNESSES = [lambda: ValueError("boom"), lambda: KeyboardInterrupt(), lambda: GeneratorExit(),
                 lambda: asyncio.CancelledError(), lambda: BadStr(), lambda: SystemExit(3),
                 lambda: KeyError("k"), lambda: FalsyExc("falsy"), lambda: EmptyLenExc(), lambda: NoModuleExc("nomod"),
                 lambda: EmptyStrBadRepr(), lambda: BadInit(1, 2), lambda: Exception(), lambda: BadStrBase(), lambda: BoolRaises("no truth value")]
DEST_ERRS = [lambda: DestErr("dest down"), lambda: DestErrBadStr(), lambda: TypeError("t"),
             lambda: NoModuleExc("nomod"), lambda: FalsyExc("f"), lambda: BadStr(), lambda: BadStrBase(), lambda: BoolRaises("no truth value")]


class Env:
    """One program execution."""

    def __init__(self, prog):
        self.prog = prog
        self.ev = []
        self.acts = []
        self.ids = []
        self.uuids = {}
        self.recording = True
        self.sercount = 0
        self.wit = prog.get("wit", 0)
        self.dmask = {int(k): v for k, v in prog.get("dmask", {}).items()}
        self.smask = prog.get("smask", [])
        self.dcount = {}
        self.D = Destinations()
        self.files = {}
        self.dest = {}
        self.offered = {}
        self.ndest = prog.get("ndest", 4)
        for d in range(1, self.ndest + 1):
            self.dest[d] = self.make_dest(d)
        self.lock = threading.Lock()
        self.done = queue.Queue()
        self.runners = {}
        self.error = None
        self.abort = False
        self.abort_exc = None
        # typed action / message types with harness-owned serializers
        # a fresh chain E2 < E1 < E0 < Exception per program (the extractor registry is process-global)
        self.E0 = type("E0", (Exception,), {})
        self.E1 = type("E1", (self.E0,), {})
        self.E2 = type("E2", (self.E1,), {})
        self.D1 = type("D1", (Exception,), {})
        self.D2 = type("D2", (self.D1,), {})
        self.M3 = type("M3", (self.E0, self.D2), {})
        self.hostile_n = self.wit
        self.T = ActionType("T", [Field("x", self.serializer, "x")], [Field("y", self.serializer, "y")], "typed action")
        self.M = MessageType("M", [Field("x", self.serializer, "x")], "typed message")
        from eliot import fields as _fields
        self.N = MessageType("N", _fields(n=int), "typed message whose field has the library's own serializer")

    # -- projection of real objects to the specification's vocabulary
    def utoken(self, u):
        if u not in self.uuids:
            self.uuids[u] = "U%d" % (len(self.uuids) + 1)
        return self.uuids[u]

    def act_index(self, a):
        if a is None:
            return 0
        for i, b in enumerate(self.acts):
            if b is a:
                return i + 1
        return -1

    def project(self, msg):
        why = ""
        u = msg.get("task_uuid")
        lv = msg.get("task_level")
        if not isinstance(u, str) or not isinstance(msg.get("timestamp"), float) or not (
                isinstance(lv, list) and lv and all(isinstance(i, int) and not isinstance(i, bool) and i > 0 for i in lv)):
            why = "required_keys"
            lv = lv if isinstance(lv, list) and all(isinstance(i, int) for i in lv) else [0]
            u = str(u)
        if "action_type" in msg:
            ty = msg["action_type"]
            if ty == "":
                ty = "E"
            st = msg.get("action_status", "")
            k = "start" if st == "started" else ("end" if st in ("succeeded", "failed") else "?")
            if "message_type" in msg or k == "?":
                why = why or "required_keys"
        elif "message_type" in msg:
            ty, st, k = msg["message_type"], "", "msg"
            if ty == "M" and isinstance(msg.get("x"), dict) and isinstance(msg["x"].get("ser"), Uncopyable):
                ty = "Mh"
            if "action_status" in msg:
                why = why or "required_keys"
        else:
            ty, st, k = "?", "", "?"
            why = why or "required_keys"
        rep = {"eliot:destination_failure": "dest", "eliot:traceback": "tb",
               "eliot:serialization_failure": "sf"}.get(ty, "") if k == "msg" else ""
        names = [n for n in msg if n not in RESERVED]
        if not all(isinstance(n, str) for n in names):
            why = why or "field_names"
            names = [str(n) for n in names]
        g = []
        for n in sorted(n for n in names if n in GLOBALS):
            ver = [i + 1 for i, val in enumerate(GLOBALS[n]) if _same(msg[n], val)]
            g.append([n, ver[0] if ver else 0])
        f = sorted(n for n in names if n not in GLOBALS)
        # values
        if not why:
            typed = ty in ("T", "M", "Mh")
            for n in names:
                v = msg[n]
                if n in GLOBALS:
                    if not any(_same(v, val) for val in GLOBALS[n]):
                        why = "global_field_value"
                elif n == "x" and ty == "Mh":
                    pass
                elif n in ("x", "y") and typed:
                    if _same(v, {"ser": {"ser": VAL[n]}}) or _same(v, {"ser": {"ser": None}}):
                        why = "serialized_twice"
                    elif not _same(v, {"ser": VAL[n]}) and not (n == "x" and _same(v, {"ser": None})):
                        why = "serialized_value"
                elif n in ("hv", "hz", "result"):
                    pass
                elif n == "n":
                    if v != 3 and v is not None:
                        why = "field_value"
                elif n in VAL:
                    if not _same(v, VAL[n]):
                        why = "field_value"
                elif n == "exception":
                    if not (isinstance(v, str) and "." in v) or (k == "end" and v == "bogus.Name"):
                        why = "exception_name"
                elif n == "reason" and k == "end":
                    if not isinstance(v, str) or v == "from the extractor":
                        why = "exception_text"
                elif n in ("reason", "traceback", "message", "log_level", "logger"):
                    if not isinstance(v, str):
                        why = "text_field"
                if why:
                    break
        kind = "report" if rep == "dest" else (rep if rep else k)
        if not why and getattr(self, "pending_why", ""):
            why, self.pending_why = self.pending_why, ""
        return {"u": self.utoken(u), "lv": lv, "k": k, "ty": ty if isinstance(ty, str) else str(ty), "st": st,
                "f": f, "g": g, "rep": rep, "why": why, "kind": kind}

    # -- harness-owned destinations, serializers
    def make_dest(self, d):
        env = self
        # the file destination writes to a binary file, or (every third program) to a text-mode file: the other JSON path
        fileobj = (io.StringIO() if getattr(self, "wit", 0) % 3 == 2 else io.BytesIO()) if d == 1 else None
        real = FileDestination(file=fileobj) if d == 1 else None
        if fileobj is not None:
            self.files[d] = fileobj
        self.offered[d] = []

        def dest(message):
            n = env.dcount.get(d, 0)
            env.dcount[d] = n + 1
            mask = env.dmask.get(d, [])
            fail = mask[n] if n < len(mask) else 0
            proj = env.project(message) if env.recording else None
            raised = bool(fail)
            err = None
            if fail == 2:
                err = env.abort_exc = [KeyboardInterrupt, SystemExit, GeneratorExit][(env.wit + n) % 3]()
            elif fail:
                err = DEST_ERRS[(env.wit + n) % len(DEST_ERRS)]()
            elif real is not None:
                try:
                    real(message)
                except Exception as e:          # genuine JSON failure: a destination failure like any other
                    raised, err = True, e
                    hostile = "hv" in message or "hz" in message or (isinstance(message.get("x"), dict) and isinstance(message["x"].get("ser"), Uncopyable))
                    if proj is not None and not hostile and not proj["why"]:
                        # every other value this harness logs is JSON-native or a documented rich type: it must be written
                        proj["why"] = "file_rejected_native_message"
            if env.recording:
                env.ev.append({"e": "deliver", "d": d, "raised": raised, "abort": fail == 2, "m": proj})
                env.offered[d].append((dict(message), raised))
            if err is not None:
                raise err

        dest.__name__ = "dest%d" % d
        return dest

    def serializer(self, v):
        n = self.sercount
        self.sercount += 1
        fail = bool(self.smask[n]) if n < len(self.smask) else False
        fail = bool(fail)
        if self.recording:
            self.ev.append({"e": "ser", "fail": fail})
        if fail:
            k = (n + self.wit) % 5
            if k == 0:
                raise SerBaseErr("serializer %d fails with a non-Exception" % n)
            if k == 1:
                raise StopIteration("serializer %d ran out" % n)      # e.g. next(iter(x)) on an empty input: an exception like any other
            if k in (2, 3):
                # the very same exception INSTANCE as the last time (a cached error, a failed Future's result()): reported again
                if getattr(self, "cached_ser_err", None) is None:
                    self.cached_ser_err = SerErr("serializer fails with a cached exception instance")
                raise self.cached_ser_err
            raise SerErr("serializer %d fails" % n)
        return {"ser": v}

    def freeze(self):
        """The program is over: stop recording and keep what the files hold NOW (unwinding open blocks logs more)."""
        self.recording = False
        if getattr(self, "snapshot", None) is None:
            self.snapshot = {d: (f.getvalue() if isinstance(f, io.BytesIO) else f.getvalue().encode("utf-8")) for d, f in self.files.items()}

    def xval(self):
        """The value logged for a declared field: usually 7, every fourth time None (a present field whose value is None)."""
        self.xcount = getattr(self, "xcount", 0) + 1
        return None if (self.xcount + self.wit) % 4 == 0 else VAL["x"]

    def collide(self):
        """Occasionally the application uses field names Eliot reserves; Eliot's own values must win."""
        self.wit += 1
        if self.prog.get("collide") and self.wit % 3 == 0:
            k = sorted(RESERVED_COLLISIONS)[self.wit % len(RESERVED_COLLISIONS)]
            return {k: RESERVED_COLLISIONS[k]}
        return {}

    def make_exc(self, o):
        self.wit += 1
        if o == "exc":
            return EXC_WITNESSES[self.wit % len(EXC_WITNESSES)]()
        if o in ("x0", "x1", "x2"):
            return {"x0": self.E0, "x1": self.E1, "x2": self.E2}[o]("instance of " + o)
        if o == "x3":
            return self.M3("instance of M3(E0, D2)")
        if o == "extraise":
            return ExtRaise("extractor will fail" + "!" * (self.wit % 4))
        raise HarnessError("unknown outcome %r" % (o,))


def X_PRISTINE_COPY(name):
    return _copy.deepcopy(VAL[name])


def _init_pristine():
    global X_PRISTINE
    X_PRISTINE = _copy.deepcopy(VAL)


def _same(a, b):
    """Equality that distinguishes types and the sign of zero (True != 1, -0.0 != 0.0)."""
    if type(a) is not type(b):
        return False
    if isinstance(a, dict):
        return a.keys() == b.keys() and all(_same(a[k], b[k]) for k in a)
    if isinstance(a, list):
        return len(a) == len(b) and all(_same(x, y) for x, y in zip(a, b))
    if isinstance(a, float):
        return a == b and str(a) == str(b)
    return a == b


class _Unrelated(Exception):
    pass


class Runner:
    """One execution context (a thread; for kind 'task' started inside a copy of the creator's context,
    which is exactly what asyncio does when it creates a Task)."""

    def __init__(self, env, c):
        self.env, self.c = env, c
        self.inbox = queue.Queue()
        self.thread = None
        self.cur_op = None

    def start(self, kind):
        target = self.main
        if kind == "task":
            ctx = contextvars.copy_context()
            target = lambda: ctx.run(self.main)
        self.thread = threading.Thread(target=target, name="ctx%d" % self.c, daemon=True)
        self.thread.start()

    def main(self):
        try:
            if (self.env.wit + self.c) % 3 == 1:
                # the whole context runs inside an `except` clause: an unrelated exception is "being handled" (sys.exc_info() is
                # not empty) while actions start, succeed and finish -- none of which may depend on it
                try:
                    raise _Unrelated("an unrelated exception is being handled while the program runs")
                except _Unrelated:
                    ex = self.run_block()
            else:
                ex = self.run_block()
            raise HarnessError("Exit without an open block: %r" % (ex,))
        except _Abort:
            pass
        except BaseException as e:
            if self.env.recording and not self.env.abort:     # while unwinding after the end, anything may happen
                self.env.error = "".join(traceback.format_exception(type(e), e, e.__traceback__))
        finally:
            self.env.done.put(("exit", self.c))

    # -- event recording
    def begin_op(self, op):
        self.cur_op = op
        e = dict(op)
        e["e"] = "call"
        e["pre"] = self.env.act_index(current_action())
        if self.env.recording:
            self.env.ev.append(e)

    def finish_op(self, v):
        if v == "raised":
            # the specification never predicts this: the trace is rejected at this event; stop the program here, the
            # objects later calls would need may not exist
            self.env.abort = True
        if self.env.recording:
            self.env.ev.append({"e": "ret", "c": self.c, "v": v, "cur": self.env.act_index(current_action())})
        self.env.done.put(("op", self.c))

    def next_op(self):
        op = self.inbox.get()
        if op is None:
            self.env.recording = False
            raise _Abort()
        return op

    def run_block(self):
        while True:
            op = self.next_op()
            if "a" in op and (op["a"] > len(self.env.acts) or self.env.acts[op["a"] - 1] is None):
                # the call that should have returned this action was aborted by a non-Exception from a destination:
                # the program holds no such object; it ends here
                self.env.abort = True
                self.env.freeze()
                self.env.done.put(("op", self.c))
                raise _Abort()
            if op["op"] == "Exit":
                return op
            if op["op"] == "Enter":
                self.do_enter(op)
            else:
                self.do_simple(op)

    # -- scoping constructs, with real `with` statements / run()
    def do_enter(self, op):
        env = self.env
        a = env.acts[op["a"] - 1]
        kind = op["kind"]
        st = {"entered": False, "exiting": False, "exc": None}
        sentinel = object()

        def body():
            st["entered"] = True
            self.finish_op("ok")
            ex = self.run_block()
            if ex.get("kind", kind) != kind:
                raise HarnessError("Exit kind mismatch")
            self.begin_op(ex)
            st["exiting"] = True
            if ex["o"] != "ok":
                st["exc"] = env.make_exc(ex["o"])
                raise st["exc"]
            return sentinel

        self.begin_op(op)
        try:
            if kind == "with":
                with a as got:
                    if got is not a:
                        raise HarnessError("with-target is not the action")
                    body()
            elif kind == "ctx":
                with a.context() as got:
                    if got is not a:
                        raise HarnessError("context() target is not the action")
                    body()
            elif kind == "run":
                r = a.run(body)
                if r is not sentinel:
                    st["wrongret"] = True
            else:
                raise HarnessError("unknown block kind")
        except (_Abort, HarnessError):
            raise
        except BaseException as e:
            if not st["entered"]:
                self.finish_op("raised")
                raise _Abort()
            if not st["exiting"] and e is env.abort_exc:
                raise HarnessError("abort escaped from a block body")
            if not st["exiting"]:
                raise
            self.finish_op("app" if e is st["exc"] else ("abort" if e is env.abort_exc else "raised"))
        else:
            self.finish_op("wrongret" if st.get("wrongret") else "ok")

    # -- everything else
    def do_simple(self, op):
        env = self.env
        name = op["op"]
        self.begin_op(op)
        v = "ok"
        if env.prog.get("reseed") and (env.wit + len(env.ev)) % 4 == 0:
            import random as _random
            _random.seed(20261002)            # applications re-seed the global generator (per test, per experiment, ...)
        try:
            if name == "StartAction":
                if op["ty"] == "T":
                    a = env.T(x=env.xval())
                elif op["ty"] == "E":
                    a = start_action(sa=VAL["sa"])                      # the default action type: ""
                else:
                    a = start_action(action_type=op["ty"], sa=VAL["sa"], **env.collide())
                env.acts.append(a)
            elif name == "StartTask":
                if op["ty"] == "T":
                    a = env.T.as_task(x=env.xval())
                elif op["ty"] == "E":
                    a = start_task(sa=VAL["sa"])
                else:
                    a = start_task(action_type=op["ty"], sa=VAL["sa"])
                env.acts.append(a)
            elif name == "Finish":
                a = env.acts[op["a"] - 1]
                r = a.finish(None if op["o"] == "ok" else env.make_exc(op["o"]))
                if r is not None:
                    v = "wrongret"
            elif name == "Log":
                env.style = getattr(env, "style", env.wit) + 1
                if op["ty"] == "M":
                    # the two spellings of a typed message
                    if env.style % 2:
                        env.M.log(x=env.xval())
                    else:
                        # the Message object stays the caller's: writing it must not change what it holds
                        mobj = env.M(x=env.xval())
                        before = mobj.contents()
                        mobj.write()
                        if not _same(mobj.contents(), before):
                            v = "mutated"
                elif op["ty"] == "N":
                    env.N.log(n=(None if env.xval() is None else 3))
                elif op["ty"] == "N0":
                    env.N.log()
                elif op["ty"] == "Mh":
                    env.M.log(x=Uncopyable())
                elif op["ty"] == "h":
                    env.hostile_n += 1
                    log_message(message_type="h", hv=HOSTILE[env.hostile_n % len(HOSTILE)]())
                else:
                    # every public way of logging a message in the current context
                    from eliot import Message
                    style = env.style % 6
                    if style == 5:
                        # the public constructor, handed a dictionary its owner goes on using before the message is written
                        d = {"message_type": op["ty"], "mf": X_PRISTINE_COPY("mf")}
                        mobj = Message(d)
                        d["mf"] = "changed after the Message was made"
                        d["intruder"] = 1
                        d.pop("message_type")
                        mobj.write()
                    elif style == 0:
                        Message.log(message_type=op["ty"], mf=VAL["mf"])
                    elif style == 1:
                        mobj = Message.new(message_type=op["ty"]).bind(mf=VAL["mf"])
                        before = mobj.contents()
                        mobj.write()
                        if not _same(mobj.contents(), before):
                            v = "mutated"
                    elif style == 2 and current_action() is not None:
                        current_action().log(message_type=op["ty"], mf=VAL["mf"])
                    elif style == 3:
                        import logging
                        # (not the stdlib bridge: that has its own message type) -- the positional form
                        log_message(op["ty"], mf=VAL["mf"])
                    else:
                        log_message(message_type=op["ty"], mf=VAL["mf"], **env.collide())
            elif name == "ActionLog":
                from eliot import Message
                if getattr(env, "style", 0) % 2:
                    Message.new(message_type=op["ty"], mf=VAL["mf"]).write(action=env.acts[op["a"] - 1])
                else:
                    env.acts[op["a"] - 1].log(message_type=op["ty"], mf=VAL["mf"], **env.collide())
            elif name == "AddSuccess":
                if op["f"] == "hz":
                    env.hostile_n += 1
                    env.acts[op["a"] - 1].add_success_fields(hz=HOSTILE[env.hostile_n % len(HOSTILE)]())
                else:
                    env.acts[op["a"] - 1].add_success_fields(**{op["f"]: VAL[op["f"]]})
            elif name == "StdlibLog":
                import logging
                from eliot.stdlib import EliotHandler
                lg = logging.getLogger("verif.stdlib")
                if not any(isinstance(h, EliotHandler) for h in lg.handlers):
                    lg.addHandler(EliotHandler())
                    lg.propagate = False
                    lg.setLevel(logging.DEBUG)
                if op["withexc"]:
                    try:
                        raise RuntimeError("for the stdlib logger")
                    except RuntimeError:
                        lg.exception("something %s", "failed")
                else:
                    lg.warning("plain %s", "record")
            elif name == "LogCall":
                # a function decorated with log_call (action type "LC"), whose body logs one message
                res = ["the result", len(env.ev)]          # JSON-native, and checked by identity
                boom = env.make_exc("exc") if op["o"] != "ok" else None

                def lc_body(x, y=VAL["y"]):
                    log_message(message_type="m", mf=VAL["mf"])
                    if boom is not None:
                        raise boom
                    return res
                lc = eliot.log_call(action_type="LC")(lc_body)
                env.acts.append(None)                  # the action lives inside the wrapper: the program has no handle on it
                try:
                    r = lc(VAL["x"])
                    if r is not res:
                        v = "wrongret"
                except BaseException as e:
                    if boom is not None and e is boom:
                        v = "app"
                    else:
                        raise
            elif name == "RawWrite":
                import uuid, time, copy
                d = {"task_uuid": str(uuid.uuid4()), "task_level": [1], "timestamp": time.time(), "message_type": "m", "mf": copy.deepcopy(VAL["mf"])}
                before = copy.deepcopy(d)
                Logger().write(d)
                if not _same(d, before):
                    v = "mutated"
            elif name == "WriteTraceback":
                try:
                    raise env.make_exc(op.get("o", "exc"))          # any exception class, hostile ones included
                except BaseException:
                    write_traceback()
            elif name == "LeaveElsewhere":
                # a generator suspended inside a block of action a, advanced by ANOTHER thread (so the block was entered in that
                # thread's context), is closed here.  Whether the library refuses (ValueError from ContextVar.reset) or completes
                # the leave is not judged; this context's current action is (the `cur` of the ret event).
                a = env.acts[op["a"] - 1]
                kind = op["kind"]

                def suspended():
                    if kind == "with":
                        with a:
                            yield
                    else:
                        with a.context():
                            yield
                gen = suspended()
                others = [x for x in env.acts if x is not None and x is not a]
                inside = others[(env.wit + len(env.ev)) % len(others)] if others and (env.wit + len(env.ev)) % 3 else None
                t = threading.Thread(target=(lambda: inside.run(next, gen)) if inside is not None else (lambda: next(gen)))
                t.start()
                t.join()
                was = env.recording
                env.recording = False         # what the implementation logs while it refuses / completes is not compared
                try:
                    try:
                        gen.close()
                        v = "completed"
                    except ValueError:
                        v = "refused"
                finally:
                    env.recording = was
            elif name == "SerializeId":
                tid = current_action().serialize_task_id()
                if not isinstance(tid, bytes):
                    v = "wrongret"
                env.ids.append(tid)
            elif name == "ContinueTask":
                tid = env.ids[op["i"] - 1]
                if (op["i"] + env.wit) % 2:
                    tid = tid.decode("ascii")
                env.acts.append(Action.continue_task(task_id=tid, sa=VAL["sa"]))
            elif name == "Preserve":
                from eliot import preserve_context
                sentinel = object()

                def f(a, k=None, _s=sentinel, **kw):
                    log_message(message_type="m", mf=VAL["mf"])
                    if kw and kw != {"task_id": "a keyword of the application", "f": 5}:
                        return ("keywords were changed", kw)
                    return (_s, a, k)
                # the callable handed over is a plain function, a functools.partial or an object with __call__ (no __qualname__ ...)
                shape = (env.wit + len(env.ids)) % 3
                target = f
                if shape == 1:
                    import functools
                    target = functools.partial(f)
                elif shape == 2:
                    class _Callable(object):
                        def __call__(self, *a, **kw):
                            return f(*a, **kw)
                    target = _Callable()
                pres = preserve_context(target)
                if current_action() is None and pres is not target:
                    v = "wrongret"
                env.ids.append([pres, sentinel, current_action() is not None, False])
            elif name == "CallPreserved":
                from eliot._action import TooManyCalls
                entry = env.ids[op["i"] - 1]
                pres, sentinel, had_ctx, called = entry
                arg = object()
                fresh = had_ctx and not called
                entry[3] = True
                if fresh:
                    env.acts.append(None)          # the continued action lives inside the callable: the program has no handle on it
                try:
                    if (env.wit + op["i"]) % 2:
                        r = pres(arg, k=op["i"])
                    else:
                        # keywords of the application's own, named like things the library uses internally
                        r = pres(arg, k=op["i"], task_id="a keyword of the application", f=5)
                    if not (isinstance(r, tuple) and r[0] is sentinel and r[1] is arg and r[2] == op["i"]):
                        v = "wrongret"
                except TooManyCalls:
                    v = "toomany"
            elif name == "ForeignContinue":
                # this process continues a task that was started (and whose id was serialized) by ANOTHER process: its log holds no
                # root start message for that task
                env.acts.append(Action.continue_task(task_id="verif-foreign-%d@/%d" % (op["k"], 1 + op["k"]), sa=VAL["sa"]))
            elif name == "Spawn":
                r = Runner(env, op["c2"])
                env.runners[op["c2"]] = r
                r.start(op["kind"])
            elif name == "AddDests":
                env.D.add(*[env.dest[d] for d in sorted(op["S"])])
            elif name == "RemoveDest":
                env.D.remove(env.dest[op["d"]])
            elif name == "Register":
                k = op["k"]
                cls = {"E0": env.E0, "E1": env.E1, "E2": env.E2, "D2": env.D2}[k]
                fld = k.lower()
                # extractors may well return names Eliot itself uses; for a failed action the framework's own values win
                extra = {"reason": "from the extractor"}
                if k in ("E2", "D2"):
                    extra.update({"exception": "bogus.Name", "action_status": "recovered"})
                if (env.wit + len(k) + ord(k[-1])) % 2:
                    register_exception_extractor(cls, lambda e, fld=fld, extra=extra: dict(extra, **{fld: VAL[fld]}))
                else:
                    # an extractor that hands out a dictionary it KEEPS (an attribute of the exception, a cache): the library
                    # may read it, not write its own fields into it
                    import copy as _copy
                    kept = dict(extra, **{fld: _copy.deepcopy(VAL[fld])})
                    pristine = _copy.deepcopy(kept)

                    def keeping(e, kept=kept, pristine=pristine):
                        if not _same(kept, pristine):
                            env.pending_why = "extractor_dict_modified"
                        return kept
                    register_exception_extractor(cls, keeping)
            elif name == "AddGlobal":
                env.D.addGlobalFields(**{op["f"]: GLOBALS[op["f"]][op.get("v", 1) - 1]})
            else:
                raise HarnessError("unknown op %r" % (name,))
        except (_Abort, HarnessError):
            raise
        except BaseException as e:
            v = "abort" if e is env.abort_exc else "raised"
            if v == "abort" and name in ("StartAction", "StartTask", "ContinueTask"):
                env.acts.append(None)
            if v == "abort" and name == "SerializeId":
                env.abort = True
        self.finish_op(v)


def forest_of(env):
    """Parse the JSON file written by destination 1 with the real parser; canonical nested lists."""
    if 1 not in env.files:
        return None, "", ""
    data = env.snapshot[1]
    offered = env.offered[1]
    healthy = 1 in env.prog.get("init", []) and all(not r for (_, r) in offered)
    if not healthy or any(o["op"] == "RemoveDest" and o["d"] == 1 for o in env.prog["ops"]):
        return None, "", ""
    filewhy = ""
    lines = data.split(b"\n")
    if lines[-1] != b"":
        filewhy = "no_trailing_newline"
    lines = lines[:-1]
    decoded = []
    try:
        for ln in lines:
            decoded.append(json.loads(ln.decode("utf-8", "strict")))
    except Exception as e:
        return None, "undecodable_line", ""
    if len(decoded) != len(offered):
        filewhy = filewhy or "line_count"
    else:
        for dmsg, (omsg, _) in zip(decoded, offered):
            if "hv" in omsg or "hz" in omsg:
                continue                    # hostile values: their encoding is C10's subject (json.tla), not this engine's
            if not _same(dmsg, omsg):
                filewhy = filewhy or "line_differs_from_message"
                break
    order = []
    for m in decoded:
        if m.get("task_uuid") not in order:
            order.append(m.get("task_uuid"))
    try:
        tasks = list(Parser.parse_stream(decoded))
    except Exception as e:
        return None, filewhy, type(e).__name__

    def proj(node):
        from eliot.parse import WrittenAction
        if isinstance(node, WrittenAction):
            return ["act", ("E" if node.action_type == "" else node.action_type) if node.action_type is not None else "?",
                    node.status or "?", [proj(ch) for ch in node.children]]
        return ["msg", node.contents.get("message_type", "?"), "", []]

    if env.prog.get("shuffle"):
        # both sides' logs merged in any order must parse to the same trees (C06 / C09)
        import random as _r
        rng = _r.Random(env.prog.get("wit", 0))
        for _ in range(env.prog["shuffle"]):
            perm = list(decoded)
            rng.shuffle(perm)
            try:
                other = list(Parser.parse_stream(perm))
            except Exception as e:
                return None, filewhy, "shuffled_" + type(e).__name__
            if sorted((t.root().task_uuid for t in other)) != sorted((t.root().task_uuid for t in tasks)) or \
                    {t.root().task_uuid: t for t in other} != {t.root().task_uuid: t for t in tasks}:
                return None, filewhy, "merge_order_dependent"
    roots = {}
    try:
        for t in tasks:
            r = t.root()
            if r.task_uuid in roots:
                return None, filewhy, "duplicate_task"
            roots[r.task_uuid] = proj(r)
    except Exception as e:
        return None, filewhy, "root_" + type(e).__name__
    return [roots[u] for u in order if u in roots], filewhy, ""


_init_pristine()


def execute_env(prog):
    """Run a program and return the Env (for callers that need the delivered message dicts)."""
    return execute(prog, want_env=True)


def execute(prog, want_env=False):
    env = Env(prog)
    Logger._destinations = env.D
    init = prog.get("init", [])
    if init:
        env.D.add(*[env.dest[d] for d in init])
    main = Runner(env, 1)
    env.runners[1] = main
    main.start("thread")
    for op in prog["ops"]:
        r = env.runners.get(op["c"])
        if r is None:
            env.error = "op for unborn context %r" % (op,)
            break
        r.inbox.put(op)
        try:
            what, c = env.done.get(timeout=30)
        except queue.Empty:
            env.error = "timeout waiting for %r" % (op,)
            break
        if env.abort:
            break
        if what == "exit" or env.error:
            env.error = env.error or "context %d ended early" % c
            break
    env.freeze()
    for r in env.runners.values():
        r.inbox.put(None)
    for r in env.runners.values():
        if r.thread is not None:
            r.thread.join(timeout=10)
    if not _same(VAL, X_PRISTINE):
        env.error = env.error or "HARNESS: shared witness values were modified by the library (caller data mutated)"
    if want_env:
        return env
    parsed, filewhy, perr = forest_of(env)
    return {"init": init, "ev": env.ev, "has_parsed": parsed is not None, "parsed": parsed or [], "file": filewhy,
            "parse_error": perr, "error": env.error or ""}


def main():
    progs = json.load(open(sys.argv[1]))
    out = []
    import warnings
    warnings.simplefilter("ignore")
    for p in progs:
        out.append(execute(p))
    json.dump({"eliot_file": eliot.__file__, "traces": out}, open(sys.argv[2], "w"))


if __name__ == "__main__":
    main()
