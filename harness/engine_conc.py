"""Engine 3: line-level interleavings of the real code (harness/sched.py, conc_exec.py) validated against level-A TLA+ specs."""
from common import *


def run_scenarios(scs, extra_path=None, timeout=3000):
    d = mktemp("conc_")
    pin, pout = os.path.join(d, "sc.json"), os.path.join(d, "out.json")
    json.dump(scs, open(pin, "w"))
    p = repo_python([os.path.join(HARNESS, "conc_exec.py"), pin, pout], timeout=timeout, extra_path=extra_path)
    if p.returncode != 0 or not os.path.exists(pout):
        raise MachineryFailure("conc_exec failed: " + p.stderr.decode()[-3000:])
    res = json.load(open(pout))
    if not os.path.realpath(res["eliot_file"]).startswith(os.path.realpath(REPO)):
        raise MachineryFailure("executed %s, not the tree under %s" % (res["eliot_file"], REPO))
    return res["results"]


def tlc_accepts(module, cfg, traces, tag="ACC", batch=3000, deque=False):
    """Validate histories with a level-A trace spec; returns (list of verdict tuples or None per trace, states)."""
    d = mktemp("lvA_")
    out = [None] * len(traces)
    states = 0
    for b in range(0, len(traces), batch):
        chunk = traces[b:b + batch]
        f = os.path.join(d, "t.json")
        json.dump({"traces": chunk}, open(f, "w"))
        r = run_tlc(module, cfg, env={"TRACE_FILE": f}, timeout=3000)
        require_ok(r, module + " validation")
        states += r.distinct
        for tup in printed_tuples(r.out, tag):
            out[b + tup[1] - 1] = tup
    return out, states


LEVEL_A = {"handover_cap": ("HandoverCapA", "HandoverCapA.cfg"), "memlog": ("MemLogA", "MemLogA.cfg"), "filedest": ("FileConcA", "FileConcA_loose.cfg"), "handover": ("HandoverA", "HandoverA.cfg"),
           "once": ("OnceA", "OnceA.cfg"), "writer": ("WriterA", "WriterA.cfg"), "fanout": ("FanoutA", "FanoutA.cfg"), "regrace": ("RegA", "RegA.cfg"), "writer_stall": ("StallA", "StallA.cfg")}


def replay(prop, obj, path):
    """Re-execute a recorded (scenario, schedule) on the current tree and evaluate it again with the level-A specification."""
    sc = dict(obj["scenario"])
    sc["fixed_schedule"] = obj["schedule"]
    extra = [os.path.join(HARNESS, "stubs")] if sc["kind"] in ("writer", "writer_stall") else None
    res = run_scenarios([sc], extra_path=extra)
    h = res[0]["runs"][0]
    module, cfg = LEVEL_A[sc["kind"]]
    if sc["kind"] == "filedest" and prop == "C10":
        cfg = "FileConcA.cfg"
    acc, _ = tlc_accepts(module, cfg, [h])
    a = acc[0]
    bad = []
    if h.get("errors"):
        bad.append("errors: %s" % h["errors"][:2])
    if sc["kind"] == "memlog":
        if not h.get("pair_ok", True):
            bad.append("messages/serializers out of step")
        if a is None:
            bad.append("history not linearizable")
    elif sc["kind"] == "once" and prop == "C02":
        if h.get("dup_levels"):
            bad.append("duplicate task_level")
    elif a is None:
        bad.append("no verdict")
    elif a[2]:
        bad.append(a[2])
    print("scenario: %s" % json.dumps(obj["scenario"]))
    print("schedule replayed: %d steps (same as recorded: %s)" % (len(h["schedule"]), h["schedule"] == obj["schedule"]))
    print("history: %s" % json.dumps(h.get("ev"))[:2500])
    cleanup()
    if bad:
        print("VIOLATION property=%s replay=%s" % (prop, path))
        print("  " + "; ".join(bad))
        return 1
    print("the property holds on this schedule now")
    return 0
