"""Engine 3: line-level interleavings of the real code (harness/sched.py, conc_exec.py) validated against level-A TLA+ specs."""
from common import *


def run_scenarios(scs, extra_path=None, timeout=3000):
    d = mktemp("conc_")
    pin, pout = os.path.join(d, "sc.json"), os.path.join(d, "out.json")
    json.dump(scs, open(pin, "w"))
    p = repo_python([os.path.join(HARNESS, "conc_exec.py"), pin, pout], timeout=timeout, extra_path=extra_path)
    if p.returncode != 0 or not os.path.exists(pout):
        raise MachineryFailure("conc_exec failed: " + p.stderr.decode()[-3000:])
    res = json.load(open(pout))
    if not os.path.realpath(res["eliot_file"]).startswith(os.path.realpath(REPO)):
        raise MachineryFailure("executed %s, not the tree under %s" % (res["eliot_file"], REPO))
    return res["results"]


def tlc_accepts(module, cfg, traces, tag="ACC", batch=3000, deque=False):
    """Validate histories with a level-A trace spec; returns (list of verdict tuples or None per trace, states)."""
    d = mktemp("lvA_")
    out = [None] * len(traces)
    states = 0
    for b in range(0, len(traces), batch):
        chunk = traces[b:b + batch]
        f = os.path.join(d, "t.json")
        json.dump({"traces": chunk}, open(f, "w"))
        r = run_tlc(module, cfg, env={"TRACE_FILE": f}, timeout=3000)
        require_ok(r, module + " validation")
        states += r.distinct
        for tup in printed_tuples(r.out, tag):
            out[b + tup[1] - 1] = tup
    return out, states
