"""Abstract programs of Eliot.tla (subset: StartTask, StartAction, Enter/Exit with `with`, Log, SerializeId, ContinueTask) executed
by REAL PROCESSES: context 1 is this process, every other context a worker forked from it BEFORE the first operation (a pre-forked
worker pool, each process logging to its own file through a real FileDestination).  stdin: programs; stdout: per program the
canonical forest the real Parser builds from the merged files, and the positions (task_uuid, task_level) used more than once."""
import sys, os, json, io, tempfile, traceback
import eliot
from eliot import start_action, start_task, log_message, current_action, Action
from eliot._output import Destinations, Logger, FileDestination
from eliot.parse import Parser, WrittenAction

SA = {"k": [1, "two"]}
MF = "a field"


class Boom(Exception):
    pass


class Proc:
    def __init__(self, path):
        self.path = path
        self.acts = {}
        self.file = None

    def setup(self):
        Logger._destinations = Destinations()
        self.file = open(self.path, "wb")
        Logger._destinations.add(FileDestination(file=self.file))

    def do(self, op, ids):
        """-> reply dict; Enter is handled by the caller's block structure"""
        name = op["op"]
        if name in ("StartTask", "StartAction"):
            f = start_task if name == "StartTask" else start_action
            a = f(sa=SA) if op["ty"] == "E" else f(action_type=op["ty"], sa=SA)
            self.acts[op["n"]] = a
        elif name == "Log":
            log_message(message_type=op["ty"], mf=MF)
        elif name == "SerializeId":
            return {"id": current_action().serialize_task_id().decode("ascii")}
        elif name == "ContinueTask":
            tid = ids[op["i"] - 1]
            self.acts[op["n"]] = Action.continue_task(task_id=tid if op["i"] % 2 else tid.encode("ascii"), sa=SA)
        else:
            raise RuntimeError("unsupported op %r" % (op,))
        return {}


def serve(proc, recv, send):
    """Run the operations of one context as they arrive; `with` blocks are real and nest by recursion."""
    def block():
        while True:
            op = recv()
            if op is None:
                raise SystemExit(0)
            if op["op"] == "Exit":
                return op
            if op["op"] == "Enter":
                try:
                    with proc.acts[op["a"]]:
                        send({})
                        ex = block()
                        if ex["o"] != "ok":
                            raise Boom("the body failed")
                except Boom:
                    pass
                send({})
            else:
                send(proc.do(op, op.get("ids", [])))
    try:
        block()
        raise RuntimeError("Exit without an open block")
    except SystemExit:
        pass
    finally:
        if proc.file is not None:
            proc.file.close()


def proj(node):
    if isinstance(node, WrittenAction):
        return ["act", ("E" if node.action_type == "" else node.action_type) if node.action_type is not None else "?",
                node.status or "?", [proj(ch) for ch in node.children]]
    return ["msg", node.contents.get("message_type", "?"), "", []]


def run_program(prog):
    d = tempfile.mkdtemp(prefix="forkexec_")
    ctxs = sorted({op["c"] for op in prog["ops"]})
    workers = {}
    # number the created actions globally, in program order (the `a` of Enter refers to these numbers)
    n = 0
    for op in prog["ops"]:
        if op["op"] in ("StartTask", "StartAction", "ContinueTask"):
            n += 1
            op["n"] = n
    for c in ctxs:
        if c == 1:
            continue
        p2c, c2p = os.pipe(), os.pipe()
        pid = os.fork()
        if pid == 0:
            status = 1
            try:
                os.close(p2c[1]); os.close(c2p[0])
                rf, wf = os.fdopen(p2c[0], "r"), os.fdopen(c2p[1], "w")
                proc = Proc(os.path.join(d, "ctx%d.log" % c))
                proc.setup()

                def recv():
                    line = rf.readline()
                    return json.loads(line) if line.strip() else None

                def send(x):
                    wf.write(json.dumps(x) + "\n"); wf.flush()
                serve(proc, recv, send)
                status = 0
            except BaseException:
                traceback.print_exc()
            finally:
                os._exit(status)
        os.close(p2c[0]); os.close(c2p[1])
        workers[c] = (pid, os.fdopen(p2c[1], "w"), os.fdopen(c2p[0], "r"))
    # context 1: this process, served through an in-memory queue so that the same block interpreter is used
    import threading, queue
    q_in, q_out = queue.Queue(), queue.Queue()
    me = Proc(os.path.join(d, "ctx1.log"))
    me.setup()
    err = []

    def local():
        try:
            serve(me, q_in.get, q_out.put)
        except BaseException:
            err.append(traceback.format_exc())
            q_out.put({"error": 1})
    t = threading.Thread(target=local)
    t.start()
    ids = []
    error = ""
    for op in prog["ops"]:
        op = dict(op)
        if op["op"] == "Spawn":
            continue
        if op["op"] == "ContinueTask":
            op["ids"] = ids
        if op["c"] == 1:
            q_in.put(op)
            r = q_out.get()
        else:
            _, w, r_ = workers[op["c"]]
            w.write(json.dumps(op) + "\n"); w.flush()
            line = r_.readline()
            r = json.loads(line) if line.strip() else {"error": 1}
        if "error" in r:
            error = "context %d failed at %r %s" % (op["c"], op, err)
            break
        if "id" in r:
            ids.append(r["id"])
    q_in.put(None)
    t.join()
    for c, (pid, w, r_) in workers.items():
        w.write("\n"); w.flush(); w.close()
        _, st = os.waitpid(pid, 0)
        if st != 0 and not error:
            error = "worker %d exit status %r" % (c, st)
    msgs = []
    for c in ctxs:
        with open(os.path.join(d, "ctx%d.log" % c), "rb") as f:
            for line in f.read().split(b"\n"):
                if line:
                    msgs.append(json.loads(line))
    import shutil
    shutil.rmtree(d, ignore_errors=True)
    seen, dups = set(), []
    for m in msgs:
        key = (m["task_uuid"], tuple(m["task_level"]))
        if key in seen:
            dups.append([m["task_uuid"], m["task_level"]])
        seen.add(key)
    try:
        tasks = list(Parser.parse_stream(msgs))
        forest = sorted((proj(t.root()) for t in tasks), key=json.dumps)
        perr = ""
    except Exception as e:
        forest, perr = [], type(e).__name__
    return {"forest": forest, "dups": dups[:5], "parse_error": perr, "error": error, "messages": len(msgs)}


def main():
    progs = json.load(sys.stdin)
    out = [run_program(p) for p in progs]
    json.dump({"eliot_file": eliot.__file__, "runs": out}, sys.stdout)


if __name__ == "__main__":
    main()
