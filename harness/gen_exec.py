"""
Executes generator programs (spec/Gen.tla vocabulary) against the REAL eliot_friendly_generator_function and records the
event trace validated by spec/Trace_Gen.tla.   usage: python gen_exec.py programs.json traces.json
program: {"bodies": [[steps of g1], [g2], [g3]], "ops": [{"op": "DEnter"|"DExit"|"Create"|"Resume", "d": d, "g": g, "how": ...}]}
"""
import sys, json, threading, queue, traceback
import eliot
from eliot import start_action, log_message, current_action
from eliot._generators import eliot_friendly_generator_function
from eliot._output import Destinations, Logger


class Thrown(Exception):
    pass


class ThrownBase(BaseException):
    """thrown into generators too: not an Exception subclass (like KeyboardInterrupt / CancelledError)"""


class Env:
    def __init__(self, prog):
        self.prog = prog
        self.bodies = prog["bodies"]
        self.ev = []
        self.acts = []
        self.gens = {}
        self.last_yield = {}
        self.received = {}
        self.caught = {}
        self.sent = {}
        self.thrown = {}
        self.retval = {}
        self.saw_exit = {}
        self.msgs = []
        self.final = ""
        self.error = None
        self.D = Destinations()
        self.D.add(self.msgs.append)

    def idx(self, a):
        if a is None:
            return 0
        for i, b in enumerate(self.acts):
            if b is a:
                return i + 1
        return -1

    def bev(self, g, step):
        self.ev.append({"e": "body", "g": g, "step": step, "cur": self.idx(current_action())})

    def gen(self, g):
        env = self

        @eliot_friendly_generator_function
        def body():
            stack = []
            try:
                for i, s in enumerate(env.bodies[g - 1]):
                    env.bev(g, s)
                    if s == "enter":
                        a = start_action(action_type="g%d" % g)
                        env.acts.append(a)
                        a.__enter__()
                        stack.append(a)
                    elif s == "exit":
                        if stack:
                            stack.pop().__exit__(None, None, None)
                    elif s == "log":
                        log_message(message_type="body", g=g, cur=env.idx(current_action()))
                    elif s in ("yield", "ycatch"):
                        y = object()
                        env.last_yield[g] = y
                        try:
                            r = yield y
                            env.received[g] = r
                        except GeneratorExit:
                            env.saw_exit[g] = True
                            raise
                        except (Thrown, ThrownBase) as e:
                            env.caught[g] = e
                            if s != "ycatch":
                                raise
                    elif s == "sub":
                        if g < len(env.bodies):
                            if (g + 1) not in env.gens:
                                env.gens[g + 1] = env.gen(g + 1)
                            try:
                                next(env.gens[g + 1])
                            except StopIteration:
                                pass
                env.bev(g, "return")
                while stack:
                    stack.pop().__exit__(None, None, None)
                r = object()
                env.retval[g] = r
                return r
            except BaseException as e:
                tb = e.__traceback__
                while stack:
                    stack.pop().__exit__(type(e), e, tb)
                raise

        return body()


class Driver:
    def __init__(self, env, d):
        self.env, self.d = env, d
        self.inbox = queue.Queue()
        self.done = queue.Queue()
        self.stack = []
        self.t = threading.Thread(target=self.main, daemon=True)
        self.t.start()

    def main(self):
        env = self.env
        while True:
            op = self.inbox.get()
            if op is None:
                return
            try:
                self.do(op)
            except BaseException as e:
                env.error = "".join(traceback.format_exception(type(e), e, e.__traceback__))
            self.done.put(1)

    def do(self, op):
        env, d = self.env, self.d
        name = op["op"]
        g = op.get("g", 0)
        how = op.get("how", "")
        # operations the generator protocol does not allow at this point are skipped (decided on the REAL generator's state)
        import inspect
        if name == "Create" and g in env.gens:
            return
        if name == "DExit" and not self.stack:
            return
        if name == "Resume":
            if g not in env.gens:
                return
            state = inspect.getgeneratorstate(env.gens[g])
            if state not in ("GEN_CREATED", "GEN_SUSPENDED") or (state == "GEN_CREATED" and how == "send"):
                return
        env.ev.append({"e": "call", "d": d, "op": name, "g": g, "how": how, "pre": env.idx(current_action())})
        out, why = "ok", ""
        if name == "DEnter":
            a = start_action(action_type="d%d" % d)
            env.acts.append(a)
            a.__enter__()
            self.stack.append(a)
        elif name == "DExit":
            self.stack.pop().__exit__(None, None, None)
        elif name == "Create":
            env.gens[g] = env.gen(g)
        elif name == "Resume":
            it = env.gens[g]
            try:
                if how == "next":
                    v = next(it)
                elif how == "send":
                    env.nsend = getattr(env, "nsend", 0) + 1
                    s = object() if env.nsend % 3 else ValueError("an exception instance sent as an ordinary value")
                    env.sent[g] = s
                    v = it.send(s)
                elif how == "throw":
                    env.nthrow = getattr(env, "nthrow", 0) + 1
                    e = (Thrown if env.nthrow % 2 else ThrownBase)("thrown into g%d" % g)
                    env.thrown[g] = e
                    env.caught.pop(g, None)
                    v = it.throw(e)
                elif how == "close":
                    v = it.close()
                    out = "closed"
                    if v is not None:
                        why = "close_returned_value"
                if how != "close":
                    out = "yield"
                    if v is not env.last_yield.get(g):
                        why = "yielded_value_altered"
                    if how == "send" and env.received.get(g) is not env.sent[g]:
                        why = why or "sent_value_altered"
                    if how == "throw" and env.caught.get(g) is not env.thrown[g]:
                        why = why or "thrown_exception_altered"
            except StopIteration as e:
                out = "stop"
                if e.value is not env.retval.get(g):
                    why = "return_value_altered"
                if how == "send" and env.received.get(g) is not env.sent[g]:
                    why = why or "sent_value_altered"
            except (Thrown, ThrownBase) as e:
                out = "raised"
                if e is not env.thrown.get(g):
                    why = "thrown_exception_altered"
            except BaseException as e:
                out = "error:" + type(e).__name__
        env.ev.append({"e": "ret", "d": d, "op": name, "out": out, "post": env.idx(current_action()), "why": why})


def execute(prog):
    env = Env(prog)
    Logger._destinations = env.D
    drivers = {}
    for op in prog["ops"]:
        d = op["d"]
        if d not in drivers:
            drivers[d] = Driver(env, d)
        drivers[d].inbox.put(op)
        drivers[d].done.get(timeout=30)
        if env.error:
            break
    for dr in drivers.values():
        dr.inbox.put(None)
    # every message logged by a body must sit directly under the action that was current in the body (uuid + level prefix)
    for m in env.msgs:
        if m.get("message_type") == "body":
            cur = m["cur"]
            if cur == 0:
                if m["task_level"] != [1]:
                    env.final = env.final or "body_message_not_its_own_task"
            else:
                a = env.acts[cur - 1]
                if m["task_uuid"] != a.task_uuid or m["task_level"][:-1] != a._task_level.as_list():
                    env.final = env.final or "body_message_attributed_to_wrong_action"
    # which actions got an end message, and with which status (every action is finished at most once, in its own context)
    ended = []                      # (computed while the generators are still alive: finalising them would log more)
    for i, a in enumerate(env.acts):
        ends = [m for m in env.msgs if m.get("task_uuid") == a.task_uuid and m.get("action_status") in ("succeeded", "failed")
                and m["task_level"][:-1] == a._task_level.as_list()]
        for m in ends:
            ended.append([i + 1, "ok" if m["action_status"] == "succeeded" else "failed"])
    bodies = [list(b) for b in prog["bodies"]]
    while len(bodies) < 3:
        bodies.append([])
    return {"bodies": bodies, "ev": env.ev, "final": env.final, "ended": ended, "error": env.error or ""}


def main():
    progs = json.load(open(sys.argv[1]))
    import warnings
    warnings.simplefilter("ignore")
    json.dump({"eliot_file": eliot.__file__, "traces": [execute(p) for p in progs]}, open(sys.argv[2], "w"))


if __name__ == "__main__":
    main()
