"""./check <property> quick|thorough   |   ./check <property> --replay <path>"""
import sys, os, json
sys.path.insert(0, os.path.dirname(os.path.abspath(__file__)))
from common import *

ELIOT = {"C01", "C02", "C03", "C04", "C05", "C06", "C07", "C08", "C12", "C13"}


def main(argv):
    if len(argv) < 2:
        print(__doc__)
        return 2
    prop = argv[0]
    if argv[1] == "--replay":
        import replay
        return replay.replay(prop, argv[2])
    tier = os.environ.get("VERIF_TIER") or argv[1]
    if tier not in ("quick", "thorough"):
        tier = "quick"
    if prop in ELIOT:
        import checks_eliot
        return checks_eliot.run(prop, tier)
    if prop == "C09":
        import checks_parser
        return checks_parser.run(prop, tier)
    import importlib
    try:
        mod = importlib.import_module("checks_" + prop.lower())
    except ImportError:
        print("no check for %s" % prop)
        return 2
    return mod.run(prop, tier)


if __name__ == "__main__":
    try:
        rc = main(sys.argv[1:])
    except MachineryFailure as e:
        print("MACHINERY-FAILURE: %s" % e)
        rc = 2
    finally:
        cleanup()
    sys.exit(rc)
