"""Regenerates MANIFEST.json from the table below (claimed checks) and properties.jsonl (everything else -> not_applicable)."""
import json, os
V = os.path.dirname(os.path.dirname(os.path.abspath(__file__)))

E1_NOTE = ("Trusted base: TLC, the TLA+ transcription in spec/Eliot.tla (bound to the code by trace validation: every recorded execution "
           "must be a behaviour of the specification, every clause evaluated on every step), the harness destinations/serializers and "
           "the projection in harness/eliot_exec.py. Exhaustive only inside the stated constants; beyond them sampled (TLC -simulate "
           "behaviours replayed into the code, seeded random programs).")

CLAIMED = {
 "C01": dict(tech="TLA+ spec (Eliot.tla) + TLC invariant C01_RoundTrip (decode(stream) = performed forest) + trace validation of real executions incl. real FileDestination -> json.loads -> real Parser vs the spec's forest",
             text="TLC proves, for every bounded program, that the emitted stream decodes (by task_uuid/task_level alone) to exactly the performed forest; every sampled real execution (TLC-generated and random programs over with/finish/run/context/typed/log/traceback/start_task/remote) is validated step by step against the spec and its JSON file, parsed by the real parser, must equal the spec's forest.", ref="6 C01, 3.1"),
 "C02": dict(tech="TLA+ spec + TLC invariants C02_Unique/Contiguous/StartAtOne/EndIsLast/Enclosed/EmissionOrder over fault masks and interleavings + trace validation (task_uuid renaming, task_level compared per delivery)",
             text="Model checking of uniqueness/contiguity/ordering over all bounded programs x destination-failure masks x call-boundary interleavings; conformance of the real library by TLC trace validation with every delivered message's (uuid, level) compared with the specification's prediction.", ref="6 C02"),
 "C03": dict(tech="TLA+ spec + TLC invariants C03_OneStartOneEnd/StatusTruthful/FieldPlacement + trace validation with real exceptions (BaseException-only, str() raising, extractor at class/base/raising) raised inside real with-blocks, identity of propagated exception; Deferred.tla (DeferredContext.addActionFinish: one truthful end, result passed on) with every TLC behaviour replayed on the real class",
             text="Model checking over all exit kinds at every nesting level and repeated finish; real executions raise witness exceptions inside real `with` statements and are validated event by event (status, fields, propagation).", ref="6 C03"),
 "C04": dict(tech="TLA+ spec + TLC invariant C04_Inside and action property C04_Restore over all nestings of with/context()/run() + trace validation comparing current_action() before/after every call; Deferred.tla (callbacks run inside the action, AlreadyFinished guard, caller context untouched) replayed on the real DeferredContext; Route.tla behaviours replayed: a message logged inside an action's block takes its position from that action whatever logger it is written to (clause message_position)",
             text="Exhaustive nestings (bounded depth) of the three scoping constructs with every exit kind on the model; on the code current_action() is read before and after every call of TLC-generated and random deep nestings and compared with the spec.", ref="6 C04"),
 "C05": dict(tech="TLA+ spec + TLC action property C05_NoLeak over all call-boundary interleavings of 3-4 contexts (threads and context-copying tasks) + trace validation on real threads driven by TLC/random schedules",
             text="All interleavings of bounded multi-context programs on the model; schedules (as data) are forced on real threads, with current_action() read inside each context before and after each of its steps.", ref="6 C05"),
 "C07": dict(tech="TLA+ spec + TLC invariant C07_NeverRaises over all subsets of raising destinations/serializers/extractors + trace validation with injected faults and hostile witnesses; every public call wrapped",
             text="Every fault subset within bounds on the model; on the code each call's outcome (returned / application exception / anything else) is recorded and compared.", ref="6 C07"),
 "C08": dict(tech="TLA+ spec + TLC invariants C08_OnceEachInOrder (vs a denotational ghost) and C08_OneReportPerFailure over all failure masks + per-destination delivery sequences validated by TLC; concurrent fan-out (FanoutA.tla); destinations that call back into the library while they are called (ReentrantA.tla); logger routing with mixed loggers (Route.tla: every behaviour TLC emits replayed, failure reports must reach the destinations)",
             text="All failure masks over bounded call sequences for 2-3 destinations on the model; per-destination offered sequences of real executions (up to 4 destinations) validated delivery by delivery.", ref="6 C08"),
 "C13": dict(tech="TLA+ spec + TLC invariants C13_FailedNotDelivered/FailureReports over all failing-serializer subsets and missing declared fields + trace validation with symbolic serializers (exactly-once detectable) on typed actions/messages; bounded-pre-emption schedules of threads failing to serialize through one Logger judged by TLC (FanoutA.tla)",
             text="All subsets of failing serializers for start/success/stand-alone typed messages on the model; on the code harness serializers wrap values so double application is visible, placement of eliot:traceback / eliot:serialization_failure compared with the spec.", ref="6 C13"),
}

ENABLED = {"C09", "C16", "C06", "C19", "C18", "C15", "C20", "C14", "C11", "C17", "C10"}


def main():
    props = [json.loads(l) for l in open(os.path.join(V, "properties.jsonl"))]
    old = json.load(open(os.path.join(V, "MANIFEST.json")))
    extra_path = os.path.join(V, "harness", "manifest_extra.json")
    extra = json.load(open(extra_path)) if os.path.exists(extra_path) else {"claimed": {}, "not_applicable": {}}
    claimed = dict(CLAIMED)
    claimed.update(extra["claimed"])
    import glob
    for f in sorted(glob.glob(os.path.join(V, "harness", "manifest_c*.json"))):      # fragments of the other engines
        frag = json.load(open(f))
        if os.path.basename(f)[len("manifest_"):-len(".json")].upper() not in ENABLED:
            continue                       # fragment of a check that is still being built / reviewed
        claimed.update(frag.get("claimed", {}))
        extra.setdefault("engines", []).extend(frag.get("engines", []))
    checks, na = [], []
    for p in props:
        pid = p["id"]
        if pid in claimed:
            c = claimed[pid]
            checks.append({"property_id": pid, "quick_cmd": "./check %s quick" % pid, "thorough_cmd": "./check %s thorough" % pid,
                           "evidence_file": "evidence/%s.json" % pid, "replay_cmd_template": "./check %s --replay {path}" % pid,
                           "engine": c.get("engine", "eliot-tla"),
                           "level_claimed": {"category": c.get("category", "model_checking"), "text": c["text"], "design_ref": "DESIGN.md section " + c["ref"]},
                           "level_note": c.get("note", E1_NOTE), "technique": c["tech"]})
        else:
            na.append({"property_id": pid, "reason": extra["not_applicable"].get(pid, "check not built yet (framework under construction); will be claimed when its TLA+ module and conformance harness are committed")})
    old["checks"] = checks
    old["not_applicable"] = na
    old["engines"] = [{"name": "eliot-tla", "path": "spec/Eliot.tla, spec/Trace_Eliot.tla, harness/engine_eliot.py, harness/eliot_exec.py",
                       "serves_properties": sorted(k for k, v in claimed.items() if v.get("engine", "eliot-tla") == "eliot-tla"),
                       "kind_free_text": "TLA+ specification of actions/contexts/output; TLC exhaustive + simulation; executions of the real library validated by TLC against the trace specification"}] + extra.get("engines", [])
    json.dump(old, open(os.path.join(V, "MANIFEST.json"), "w"), indent=1)
    print("claimed:", [c["property_id"] for c in checks], "not claimed:", [n["property_id"] for n in na])

if __name__ == "__main__":
    main()
