"""
Feeds the REAL eliot.parse.Parser with subsets / orders of the messages of real executions and records, after every
add, its public surface, in the vocabulary of spec/Trace_Parser.tla.

usage: python parser_exec.py cases.json traces.json
  cases: [{"program": <program for eliot_exec>, "trials": [{"ids": [message ids in arrival order]} | {"random": n, "seed": s}]}]
"""
import sys, json, random, itertools
import eliot_exec
from eliot.parse import Parser, Task, WrittenAction, WrittenMessage


def universe_of(prog):
    env_trace = eliot_exec.execute_env(prog)
    env = env_trace
    msgs = []
    order = {}
    for (m, raised) in env.offered[1]:
        m = json.loads(json.dumps(m, default=str))
        u = order.setdefault(m["task_uuid"], len(order) + 1)
        k = "msg"
        if "action_type" in m:
            k = "start" if m["action_status"] == "started" else "end"
        msgs.append({"id": len(msgs) + 1, "u": u, "lv": m["task_level"], "k": k, "dict": m})
    return msgs, order


def tree(node):
    if isinstance(node, WrittenAction):
        kids = []
        for ch in node.children:
            if isinstance(ch, WrittenAction):
                kids.append(tree(ch))
            else:
                kids.append(["msg", ch.task_level.as_list()[-1]])
        return ["act", node.start_message is not None,
                node.end_message.task_level.as_list()[-1] if node.end_message is not None else 0, kids]
    return ["msgroot"]


def run_trial(msgs, order, ids, nu=None, light=False):
    byid = {m["id"]: m for m in msgs}
    nu = nu or len(order)
    uid = order
    parser = Parser()
    adds = []
    for i in ids:
        m = byid[i]
        try:
            done, parser = parser.add(m["dict"])
            err = ""
        except Exception as e:
            adds.append({"id": i, "done": [], "obs": [], "err": type(e).__name__})
            break
        obs = [] if light else [["none"]] * nu
        obs = list(obs)
        why = ""
        try:
            retained = [] if light else parser.incomplete_tasks()
        except Exception as e:
            adds.append({"id": i, "done": [], "obs": [], "err": "incomplete_tasks_" + type(e).__name__})
            break
        try:
            for t in retained:
                r = t.root()
                if t.is_complete():
                    why = "retained_task_is_complete"
                obs[uid[r.task_uuid] - 1] = tree(r)
            dn = []
            for t in done:
                if not t.is_complete():
                    why = "returned_task_not_complete"
                dn.append(uid[t.root().task_uuid])
        except Exception as e:
            # a task the parser holds cannot even be asked for its root / rendered: an observation, not a harness failure
            adds.append({"id": i, "done": [], "obs": [], "err": "task_unreadable_" + type(e).__name__})
            break
        adds.append({"id": i, "done": dn, "obs": obs, "err": "", "why": why})
    try:
        incomplete = [uid[t.root().task_uuid] for t in parser.incomplete_tasks()]
    except Exception as e:
        incomplete = []
        if not (adds and adds[-1]["err"]):
            adds.append({"id": ids[-1] if ids else 0, "done": [], "obs": [], "err": "incomplete_tasks_" + type(e).__name__})
    # parse_stream must agree with add-by-add: completed ones as they complete, the rest at the end
    why = next((a.get("why") for a in adds if a.get("why")), "")
    if not why and not (adds and adds[-1]["err"]):
        try:
            streamed = [uid[t.root().task_uuid] for t in Parser.parse_stream(byid[i]["dict"] for i in ids)]
            expect = [u for a in adds for u in a["done"]]
            if streamed[:len(expect)] != expect or sorted(streamed[len(expect):]) != sorted(incomplete) or len(set(streamed)) != len(streamed):
                why = "parse_stream_disagrees"
        except Exception as e:
            why = "parse_stream_raised_" + type(e).__name__
    return {"adds": [{k: a[k] for k in ("id", "done", "obs", "err")} for a in adds], "incomplete": incomplete, "why": why,
            "final_tasks": parser, "light": light}


def main():
    cases = json.load(open(sys.argv[1]))
    out = []
    for case in cases:
        if "universe" in case:
            msgs, order = [], {}
            for m in case["universe"]:
                d = {"task_uuid": "uuid-%d" % m["u"], "task_level": m["lv"], "timestamp": 1.5 + m["id"]}
                if m["k"] == "msg":
                    d["message_type"] = "m"
                else:
                    d["action_type"] = "A"
                    d["action_status"] = "started" if m["k"] == "start" else ("failed" if m["id"] % 2 else "succeeded")
                order.setdefault(d["task_uuid"], m["u"])
                msgs.append(dict(m, dict=d))
        else:
            msgs, order = universe_of(case["program"])
        if not msgs:
            continue
        universe = [{"id": m["id"], "u": m["u"], "lv": m["lv"], "k": m["k"]} for m in msgs]
        seen_state = {}
        for tr in case["trials"]:
            if "ids" in tr:
                trials = [tr["ids"]]
            elif "allperm" in tr:
                sub = tr["allperm"]
                trials = [list(p) for p in itertools.permutations(sub)]
            else:
                rng = random.Random(tr["seed"])
                trials = []
                for _ in range(tr["random"]):
                    k = rng.randint(1, len(msgs)) if rng.random() < 0.6 else len(msgs)
                    ids = rng.sample([m["id"] for m in msgs], k)
                    trials.append(ids)
                    # the same subset in a second order: the parser's state must be EQUAL
                    ids2 = list(ids)
                    rng.shuffle(ids2)
                    trials.append(ids2)
            for ids in trials:
                ids = [i for i in ids if 1 <= i <= len(msgs)]
                res = run_trial(msgs, order, ids, light=case.get("light", False))
                parser = res.pop("final_tasks")
                key = tuple(sorted(ids))
                if not (res["adds"] and res["adds"][-1]["err"]):
                    if key in seen_state:
                        if not (seen_state[key] == parser._tasks):
                            res["why"] = res["why"] or "state_differs_across_orders"
                    else:
                        seen_state[key] = parser._tasks
                res.update({"universe": universe, "nu": len(order), "order": ids})
                out.append(res)
    json.dump({"traces": out}, open(sys.argv[2], "w"))


if __name__ == "__main__":
    main()
