"""Destinations that call back into the library while they are being called (C08 / C12): they log a message of their own, register
another destination, or remove a LATER destination -- during the hand-over of the start-up buffer by the first add_destinations()
and during ordinary delivery.  Sequential (no threads).  Prints one history per scenario for spec/ReentrantA.tla:
  dests: per destination (in registration order) [name, registered_at, removed_at | 0, [[seq, id], ...]]
  logged: [[seq_invoked, seq_returned, id], ...] for every message logged, seq = global event counter; add_inv / add_res likewise."""
import sys, json, itertools

from eliot._output import Destinations


def run(sc):
    D = Destinations()
    seq = [0]
    logged, dests, errors = [], [], []

    def tick():
        seq[0] += 1
        return seq[0]

    def send(i):
        a = tick()
        try:
            D.send({"id": i, "message_type": "m", "task_uuid": "u", "task_level": [1], "timestamp": 1.0})
        except BaseException as e:       # noqa
            errors.append("send(%d): %s: %s" % (i, type(e).__name__, e))
        logged.append([a, tick(), i])

    class Recorder(object):
        def __init__(self, name, behaviour=None):
            self.name, self.behaviour, self.rec = name, behaviour or {}, [name, 0, 0, []]
            self.done = set()
            dests.append(self.rec)

        def __call__(self, msg):
            i = msg["id"]
            self.rec[3].append([tick(), i])
            b = self.behaviour
            if i in b.get("logs_on", ()) and i not in self.done:
                self.done.add(i)
                send(10000 + i)
            if b.get("removes") and i == b["removes"][0] and "rm" not in self.done:
                self.done.add("rm")
                victim = by_name[b["removes"][1]]
                D.remove(victim)
                victim.rec[2] = tick()
            if b.get("adds_on") == i and "add" not in self.done:
                self.done.add("add")
                extra = Recorder("X")
                by_name["X"] = extra
                D.add(extra)
                extra.rec[1] = tick()

    class EqualRecorder(Recorder, list):
        """a destination in the style of Eliot's own tests: a list subclass -- two of them are EQUAL (both stay empty lists)"""
        __hash__ = object.__hash__

    by_name = {}
    for i in range(sc["n_pre"]):
        send(100 + i)
    first = []
    for name, beh in sc["dests"]:
        r = (EqualRecorder if sc.get("equal_pair") else Recorder)(name, beh)
        by_name[name] = r
        first.append(r)
    add_inv = tick()
    try:
        D.add(*first)
    except BaseException as e:           # noqa
        errors.append("add_destinations: %s: %s" % (type(e).__name__, e))
    add_res = tick()
    for r in first:
        r.rec[1] = add_res
    for i in range(1, sc["n_post"] + 1):
        send(i)
    return {"n_pre": sc["n_pre"], "pre_lo": 100, "n_post": sc["n_post"], "add_inv": add_inv, "add_res": add_res, "dests": dests,
            "logged": logged, "errors": errors, "equal_pair": 1 if sc.get("equal_pair") else 0}


def scenarios(thorough):
    out = []
    pres = [0, 2, 999, 1000, 1001] if not thorough else [0, 1, 2, 5, 998, 999, 1000, 1001, 1500]
    for n_pre in pres:
        trig_sets = [[]]
        if n_pre:
            trig_sets += [[100], [100 + n_pre - 1], [100, 100 + n_pre // 2, 100 + n_pre - 1]]
        trig_sets += [[1], [2]]
        if n_pre:
            trig_sets += [[100, 1]]
        for trig in trig_sets:
            for order in (0, 1):
                L = ["L", {"logs_on": trig}]
                P = ["P", {}]
                out.append({"n_pre": n_pre, "n_post": 3, "dests": [L, P] if order == 0 else [P, L], "equal_pair": True})
        # a destination removes a LATER one while it is called (ordinary delivery and during the hand-over)
        for on in ([1] + ([100] if n_pre else [])):
            out.append({"n_pre": n_pre, "n_post": 3, "dests": [["R", {"removes": [on, "Q"]}], ["P", {}], ["Q", {}], ["S", {}]]})
        # a destination registers another one while it is called
        for on in ([2] + ([100] if n_pre else [])):
            out.append({"n_pre": n_pre, "n_post": 3, "dests": [["A", {"adds_on": on}], ["P", {}]]})
    return out


if __name__ == "__main__":
    scs = scenarios(len(sys.argv) > 1 and sys.argv[1] == "thorough")
    json.dump([dict(run(sc), scenario=sc) for sc in scs], sys.stdout)
