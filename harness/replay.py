"""Re-execute the case stored in a replay file against the current tree: exit 1 if the clause still fails."""
import json
from common import *


def replay(prop, path):
    obj = json.load(open(path))
    eng = obj.get("engine")
    if eng == "eliot":
        if "program" not in obj:
            print("replay holds a specification-level counterexample (TLC output), nothing to execute:\n" + obj.get("tlc_tail", "")[-3000:])
            return 1
        import engine_eliot
        verdicts, _ = engine_eliot.validate([obj["program"]])
        v = verdicts[0]
        print("program: %s" % json.dumps(obj["program"]["ops"]))
        print("recorded clause: %s at event %s; now: %r at event %s (deviations %s)" % (obj.get("clause"), obj.get("at"), v["clause"], v["at"], v["dev"]))
        for i, e in enumerate(v["trace"]["ev"][: (v["at"] if v["clause"] else 0) + 1], 1):
            print("  %3d %s" % (i, json.dumps(e)))
        if v["clause"]:
            print("VIOLATION property=%s replay=%s" % (prop, path))
            return 1
        return 0
    import importlib
    mod = importlib.import_module(obj.get("module", "checks_" + str(eng)))
    return mod.replay(prop, obj, path)
