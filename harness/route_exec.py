"""Replays behaviours of spec/Route.tla on the real library: which sink (a healthy destination, two MemoryLoggers) receives which message.
stdin: [[op, ...], ...] behaviours (lists of calls);  stdout: {"runs": [{"D": [...], "M1": [...], "M2": [...], "error": ""}]}"""
import sys, json, traceback
import eliot
from eliot import start_action, log_message, Message, MemoryLogger, MessageType, Field
from eliot import _output
from eliot._output import Destinations, Logger


class Flaky(object):
    def __init__(self):
        self.failnext = False

    def __call__(self, message):
        if self.failnext:
            self.failnext = False
            raise RuntimeError("the flaky destination is down")


def _boom(v):
    raise ValueError("this serializer always fails")


TYPED = MessageType("typed", [Field("x", _boom, "a field whose serializer raises")], "a typed message")
KIND = {"eliot:destination_failure": "rep", "eliot:traceback": "tb", "eliot:serialization_failure": "sf", "m": "msg", "to": "to", "raw": "raw", "alog": "alog"}


def project(m):
    if "action_status" in m:
        k = {"started": "start", "succeeded": "end", "failed": "end"}.get(m["action_status"], "?")
    else:
        k = KIND.get(m.get("message_type"), "?" + str(m.get("message_type")))
    return [k, m.get("task_uuid", 0), list(m.get("task_level", []))]


def main():
    import warnings
    warnings.simplefilter("ignore")
    behs = json.load(sys.stdin)
    out = []
    for ops in behs:
        out.append(run_snapshot(ops))
    json.dump({"eliot_file": eliot.__file__, "runs": out}, sys.stdout)


def run_snapshot(ops):
    D = Destinations()
    Logger._destinations = D
    flaky, healthy = Flaky(), []
    D.add(flaky, healthy.append)
    lg = {"def": _output._DEFAULT_LOGGER, "L": Logger(), "M1": MemoryLogger(), "M2": MemoryLogger()}
    stack, style, err = [], 0, ""
    try:
        for op in ops:
            name = op[0]
            style += 1
            if name == "Start":
                x = None if op[1] == "def" else lg[op[1]]
                a = start_action(x, "A") if style % 2 else start_action(logger=x, action_type="A", sa=1)
                a.__enter__()
                stack.append(a)
            elif name == "Exit":
                stack.pop().__exit__(None, None, None)
            elif name == "Log":
                if style % 3 == 0:
                    log_message(message_type="m", f=1)
                elif style % 3 == 1:
                    Message.log(message_type="m", f=1)
                else:
                    Message.new(message_type="m", f=1).write()
            elif name == "WriteTo":
                if style % 2:
                    Message.new(message_type="to", f=1).write(lg[op[1]])
                else:
                    Message.new(message_type="to").bind(f=1).write(logger=lg[op[1]])
            elif name == "RawWrite":
                lg[op[1]].write({"message_type": "raw", "f": 1})
            elif name == "SerFail":
                TYPED(x=1).write(lg[op[1]])
            elif name == "ActLog":
                if style % 2:
                    stack[op[1] - 1].log(message_type="alog", f=1)
                else:
                    Message.new(message_type="alog", f=1).write(action=stack[op[1] - 1])
            elif name == "TbTo":
                try:
                    raise KeyError("for write_traceback")
                except KeyError:
                    if op[1] == "def":
                        eliot.write_traceback()
                    else:
                        eliot.write_traceback(lg[op[1]]) if style % 2 else eliot.write_traceback(logger=lg[op[1]])
            elif name == "SetFail":
                flaky.failnext = True
            else:
                raise RuntimeError("unknown op %r" % (op,))
    except BaseException:
        err = traceback.format_exc()[-600:]
    snap = {"D": [project(m) for m in healthy], "M1": [project(m) for m in lg["M1"].messages],
            "M2": [project(m) for m in lg["M2"].messages], "error": err}
    while stack:
        try:
            stack.pop().__exit__(None, None, None)
        except BaseException:
            pass
    return snap


if __name__ == "__main__":
    main()
