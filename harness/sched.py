"""
Deterministic thread scheduler: schedules are data.

Controlled threads run under sys.settrace; before every source line of the traced files (and at every explicit
yield_point() in harness-owned objects) the thread parks and the controller decides who runs next.  Blocking
primitives are replaced, on the instances under test, by cooperative ones (CoopLock, CoopQueue) so that "blocked" is a
scheduler state.  Exploration: all schedules with at most k pre-emptions (stateless DFS, re-executing from the start),
capped, then seeded random schedules.
"""
import sys, threading, random, collections


class Deadlock(Exception):
    pass


class TState:
    def __init__(self, name, fn):
        self.name, self.fn = name, fn
        self.status = "new"          # new | parked | running | blocked | done
        self.go = False
        self.label = None
        self.waiting_on = None
        self.error = None
        self.thread = None
        self.stuck = False
        self.timed = False           # blocked in a wait that has a timeout: the scheduler may let it expire
        self.expired = False
        self.fresh = True            # another thread has taken a step since this one's last expiry


class Sched:
    def __init__(self, traced_suffixes, line_filter=None):
        self.traced = tuple(traced_suffixes)
        self.line_filter = line_filter
        self.cv = threading.Condition()
        self.threads = collections.OrderedDict()
        self.by_ident = {}
        self.steps = []              # [(runnable names, chosen, was_preemption)]
        self.log = []                # history events appended by harness operations, in global order
        self.spawned_during_run = []
        self.deadlock = ""
        self.uncontrolled_blocking = False
        self.expiries = 0

    # ---- called from controlled threads
    def me(self):
        return self.by_ident.get(threading.get_ident())

    def _tracer(self, frame, event, arg):
        if event == "call":
            fn = frame.f_code.co_filename
            if fn.endswith(self.traced):
                return self._tracer
            return None
        if event == "line":
            if self.line_filter is None or self.line_filter(frame):
                self.yield_point((frame.f_code.co_name, frame.f_lineno))
        return self._tracer

    def yield_point(self, label=None):
        st = self.me()
        if st is None:
            return
        with self.cv:
            st.label = label
            st.status = "parked"
            st.go = False
            self.cv.notify_all()
            while not st.go:
                self.cv.wait()
            st.status = "running"

    def block_on(self, obj, timed=False):
        """Park until obj is signalled (wake(obj)).  With timed=True the wait has a timeout: when the wait would expire is a
        scheduling decision (no real time passes); returns False if the scheduler let it expire, True if it was signalled."""
        st = self.me()
        if st is None:
            raise RuntimeError("blocking primitive used outside a controlled thread")
        with self.cv:
            st.status = "blocked"
            st.waiting_on = obj
            st.timed = timed
            st.expired = False
            st.go = False
            self.cv.notify_all()
            while not st.go:
                self.cv.wait()
            st.status = "running"
            st.timed = False
            expired, st.expired = st.expired, False
            return not expired

    def wake(self, obj):
        with self.cv:
            for st in self.threads.values():
                if st.status == "blocked" and (st.waiting_on is obj or (isinstance(obj, tuple) and st.waiting_on == obj)):
                    st.status = "parked"
                    st.waiting_on = None
            self.cv.notify_all()

    def event(self, **kw):
        st = self.me()
        kw["t"] = st.name if st else "main"
        self.log.append(kw)

    # ---- thread management
    def spawn(self, name, fn):
        st = TState(name, fn)
        self.threads[name] = st

        def run():
            self.by_ident[threading.get_ident()] = st
            with self.cv:
                st.status = "parked"
                st.label = ("start", 0)
                self.cv.notify_all()
                while not st.go:
                    self.cv.wait()
                st.status = "running"
            sys.settrace(self._tracer)
            try:
                fn()
            except BaseException as e:          # noqa
                st.error = e
            finally:
                sys.settrace(None)
                with self.cv:
                    st.status = "done"
                    self.cv.notify_all()
                self.wake(("join", name))

        st.thread = threading.Thread(target=run, name=name, daemon=True)
        st.thread.start()
        with self.cv:
            while st.status == "new":
                self.cv.wait()
        return st

    def join(self, name):
        """Cooperative join, callable from a controlled thread."""
        while self.threads[name].status != "done":
            self.block_on(("join", name))

    # ---- controller
    def run(self, chooser, max_steps=20000):
        """chooser(step_index, runnable_names, current_name) -> name"""
        current = None
        n = 0
        while True:
            with self.cv:
                waited = 0
                while any(t.status in ("running", "new") and not t.stuck for t in self.threads.values()):
                    if not self.cv.wait(timeout=0.25):
                        waited += 1
                        busy = [t for t in self.threads.values() if t.status in ("running", "new") and not t.stuck]
                        others = [t for t in self.threads.values() if t.status == "parked"]
                        if others and waited >= 2:
                            # a thread neither parks nor finishes: it waits on a primitive the harness does not control (a real
                            # lock held by a parked thread, ...).  Let the others run; it will park by itself once it gets on.
                            for t in busy:
                                t.stuck = True
                            self.uncontrolled_blocking = True
                        elif waited >= 80:
                            self.deadlock = "threads neither park nor finish: %s" % [(t.name, t.status, t.label) for t in busy]
                            return
                for t in self.threads.values():
                    if t.stuck and t.status not in ("running", "new"):
                        t.stuck = False
                live = [t for t in self.threads.values() if t.status != "done"]
                if not live:
                    return
                runnable = [t.name for t in live if t.status == "parked"]
                # waits with a timeout may expire whenever the scheduler says so -- but a thread that has just had an expiry
                # gets the next one only after somebody else has made a step (a polling loop must not starve the others), or
                # when nobody else can run; the total number of expiries per execution is bounded
                timed = [t.name for t in live if t.status == "blocked" and t.timed]
                if self.expiries < 40:
                    runnable += [n for n in timed if self.threads[n].fresh]
                    if not runnable:
                        runnable += timed[:1]
                elif timed and not runnable and not any(t.stuck for t in live):
                    self.deadlock = "threads keep polling with a timeout and nothing else can run: %s" % timed
                    return
                if not runnable and any(t.stuck for t in live):
                    # only uncontrolled waiters are left: give them time, then call it a deadlock
                    if self.cv.wait(timeout=0.25):
                        continue
                    idle_rounds = getattr(self, "_idle_rounds", 0) + 1
                    self._idle_rounds = idle_rounds
                    if idle_rounds < 40:
                        continue
                    self.deadlock = "threads blocked on uncontrolled primitives for ever: %s" % [(t.name, t.label) for t in live]
                    return
                self._idle_rounds = 0
                if not runnable:
                    # every live thread waits for something nobody will provide: an outcome of the code under test, not an error
                    self.deadlock = "all live threads blocked: %s" % [(t.name, str(t.waiting_on)[:60]) for t in live]
                    return
                choice = chooser(n, runnable, current if current in runnable else None)
                if choice not in runnable:
                    choice = runnable[0]
                self.steps.append((list(runnable), choice, current in runnable and choice != current))
                current = choice
                st = self.threads[choice]
                if st.status == "blocked":           # a timed wait: it expires now
                    st.expired = True
                    st.waiting_on = None
                    st.fresh = False
                    self.expiries += 1
                for t in self.threads.values():
                    if t is not st:
                        t.fresh = True
                st.go = True
                st.status = "running"
                self.cv.notify_all()
            n += 1
            if n > max_steps:
                raise Deadlock("schedule too long")


class CoopLock:
    """threading.Lock replacement whose blocking is visible to the scheduler."""

    def __init__(self, sched):
        self.s, self.held = sched, False

    def acquire(self, blocking=True, timeout=-1):
        self.s.yield_point(("lock.acquire", 0))
        while True:
            if not self.held:
                self.held = True
                return True
            if not blocking:
                return False
            if not self.s.block_on(self, timed=(timeout is not None and timeout >= 0)):
                return False

    def release(self):
        self.held = False
        self.s.wake(self)

    def locked(self):
        return self.held

    def __enter__(self):
        self.acquire()
        return self

    def __exit__(self, *a):
        self.release()


class CoopQueue:
    """queue.SimpleQueue replacement (put/get) with scheduler-visible blocking."""

    def __init__(self, sched, lifo=False):
        self.s, self.items = sched, collections.deque()

    def put(self, x, block=True, timeout=None):
        self.s.yield_point(("queue.put", 0))
        self.items.append(x)
        self.s.wake(self)

    def get(self, block=True, timeout=None):
        self.s.yield_point(("queue.get", 0))
        while not self.items:
            if not block or not self.s.block_on(self, timed=timeout is not None):
                import queue as _q
                raise _q.Empty()
        return self.items.popleft()

    def get_nowait(self):
        self.s.yield_point(("queue.get_nowait", 0))
        if not self.items:
            import queue as _q
            raise _q.Empty()
        return self.items.popleft()

    def put_nowait(self, x):
        self.put(x)

    def empty(self):
        self.s.yield_point(("queue.empty", 0))
        return not self.items

    def qsize(self):
        return len(self.items)


# ---------------------------------------------------------------------------------------
def explore(make_run, max_preemptions, cap, seed, extra_random=0, early=False):
    """
    make_run(chooser) -> (result, steps) executes the scenario once under `chooser` and returns the scheduler's steps.
    Enumerates all schedules with <= max_preemptions pre-emptions (DFS over choice prefixes), up to `cap` executions,
    then `extra_random` random schedules.  Yields (choices, result).
    """
    rng = random.Random(seed)
    stack = [[]]
    seen = set()
    count = 0
    exhaustive = True
    while stack:
        if count >= cap:
            exhaustive = False
            break
        prefix = stack.pop(0) if early else stack.pop()      # early: breadth-first, pre-emptions at the earliest steps first

        def chooser(i, runnable, current, prefix=prefix):
            if i < len(prefix) and prefix[i] in runnable:
                return prefix[i]
            return current if current is not None else runnable[0]

        result, steps = make_run(chooser)
        choices = [s[1] for s in steps]
        key = tuple(choices)
        if key in seen:
            continue
        seen.add(key)
        count += 1
        yield choices, result
        # alternatives
        pre = 0
        prev = None
        for i, (runnable, chosen, was_pre) in enumerate(steps):
            if i >= len(prefix):
                for alt in runnable:
                    if alt == chosen:
                        continue
                    cost = pre + (1 if (prev in runnable and alt != prev) else 0)
                    if cost <= max_preemptions:
                        stack.append(choices[:i] + [alt])
            if was_pre:
                pre += 1
            prev = chosen
    for _ in range(extra_random):
        def chooser(i, runnable, current):
            if current is not None and rng.random() < 0.6:
                return current
            return rng.choice(runnable)

        result, steps = make_run(chooser)
        choices = [s[1] for s in steps]
        key = tuple(choices)
        if key in seen:
            continue
        seen.add(key)
        yield choices, result
    explore.last_exhaustive = exhaustive and not extra_random
