"""Offline setup: parse every TLA+ module with SANY; make sure the repository imports; nothing is built or fetched."""
import os, sys, glob, subprocess
sys.path.insert(0, os.path.dirname(os.path.abspath(__file__)))
from common import *

def main():
    bad = 0
    for f in sorted(glob.glob(os.path.join(SPEC, "*.tla"))):
        p = subprocess.run(["java", "-cp", TLA_JAR, "tla2sany.SANY", os.path.basename(f)], cwd=SPEC,
                           stdout=subprocess.PIPE, stderr=subprocess.STDOUT)
        out = p.stdout.decode()
        ok = p.returncode == 0 and "Semantic errors" not in out and "***Parse Error***" not in out and "Fatal errors" not in out
        print("%-28s %s" % (os.path.basename(f), "ok" if ok else "FAILED"))
        if not ok:
            print(out[-1500:])
            bad += 1
    p = repo_python(["-c", "import eliot, eliot.parse, eliot.testing, eliot.prettyprint, eliot.filter; print(eliot.__file__)"])
    print("repository import:", p.stdout.decode().strip() or p.stderr.decode()[-500:])
    if p.returncode != 0:
        bad += 1
    return 1 if bad else 0

if __name__ == "__main__":
    sys.exit(main())
