"""Minimal stand-in for twisted.application.service (Twisted is not installed in this sandbox): what eliot.logwriter uses."""


class Service(object):
    running = 0
    name = None
    parent = None

    def startService(self):
        self.running = 1

    def stopService(self):
        self.running = 0

    def setName(self, name):
        self.name = name
