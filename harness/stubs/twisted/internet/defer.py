"""Stand-in for twisted.internet.defer.Deferred with Twisted's synchronous callback-chain semantics: callbacks run in order
as soon as a result is available; a callback's return value (or a Failure built from what it raised) is the next input;
callbacks added after firing run at once."""
from twisted.python.failure import Failure


class AlreadyCalledError(Exception):
    pass


def _passthru(x):
    return x


class Deferred(object):
    def __init__(self):
        self.callbacks = []
        self.called = False
        self.result = None
        self._running = False

    def addCallbacks(self, callback, errback=None, callbackArgs=None, callbackKeywords=None, errbackArgs=None, errbackKeywords=None):
        self.callbacks.append(((callback, callbackArgs or (), callbackKeywords or {}),
                               (errback or _passthru, errbackArgs or (), errbackKeywords or {})))
        if self.called:
            self._run()
        return self

    def addCallback(self, callback, *a, **kw):
        return self.addCallbacks(callback, callbackArgs=a, callbackKeywords=kw)

    def addErrback(self, errback, *a, **kw):
        return self.addCallbacks(_passthru, errback, errbackArgs=a, errbackKeywords=kw)

    def addBoth(self, callback, *a, **kw):
        return self.addCallbacks(callback, callback, a, kw, a, kw)

    def callback(self, result):
        if self.called:
            raise AlreadyCalledError()
        self.called, self.result = True, result
        self._run()

    def errback(self, fail):
        if not isinstance(fail, Failure):
            fail = Failure(fail)
        self.callback(fail)

    def _run(self):
        if self._running:
            return
        self._running = True
        try:
            while self.callbacks:
                cb, eb = self.callbacks.pop(0)
                f, a, kw = eb if isinstance(self.result, Failure) else cb
                try:
                    self.result = f(self.result, *a, **kw)
                except BaseException as e:       # noqa
                    self.result = Failure(e, type(e), e.__traceback__)
        finally:
            self._running = False


def inlineCallbacks(f):
    raise NotImplementedError("inlineCallbacks is not provided by the stand-in")


def succeed(result):
    d = Deferred()
    d.callback(result)
    return d


def fail(f):
    d = Deferred()
    d.errback(f)
    return d
