"""Minimal stand-in for twisted.internet.threads.deferToThreadPool: runs the function on a thread obtained from the
given pool object (harness-controlled) and returns an object that records completion."""


class Result(object):
    def __init__(self):
        self.done = False
        self.value = None
        self.error = None
        self.callbacks = []

    def addCallback(self, f, *a, **kw):
        self.callbacks.append(f)
        if self.done and self.error is None:
            self.value = f(self.value, *a, **kw)
        return self

    addBoth = addCallback


def deferToThreadPool(reactor, threadpool, f, *args, **kwargs):
    res = Result()

    def run():
        try:
            res.value = f(*args, **kwargs)
        except BaseException as e:      # noqa
            res.error = e
        res.done = True
        for cb in res.callbacks:
            res.value = cb(res.value)
        hook = getattr(threadpool, "on_done", None)
        if hook is not None:
            hook(res)

    threadpool.callInThread(run)
    return res
