"""Stand-in for twisted.logger (only what eliot.twisted touches at import / in TwistedDestination)."""


class Logger(object):
    def __init__(self, namespace=None):
        self.namespace = namespace
        self.events = []

    def info(self, format=None, **kw):
        self.events.append(("info", format, kw))

    def critical(self, format=None, **kw):
        self.events.append(("critical", format, kw))
