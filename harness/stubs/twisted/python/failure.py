"""Stand-in for twisted.python.failure.Failure: wraps an exception."""
import sys, traceback


class Failure(BaseException):
    def __init__(self, exc_value=None, exc_type=None, exc_tb=None):
        if exc_value is None:
            exc_type, exc_value, exc_tb = sys.exc_info()
        self.value = exc_value
        self.type = exc_type or type(exc_value)
        self.tb = exc_tb

    def check(self, *types):
        for t in types:
            if isinstance(self.value, t):
                return t
        return None

    def trap(self, *types):
        if not self.check(*types):
            raise self
        return self.check(*types)

    def getBriefTraceback(self):
        return "".join(traceback.format_exception_only(self.type, self.value))

    def raiseException(self):
        raise self.value
