"""Replays behaviours of spec/Written.tla on the real eliot._action.WrittenAction.from_messages.
stdin: {"pool": [...items...], "cases": [[s, e, [kids...]], ...]}   stdout: {"runs": [[out, view], ...]}"""
import sys, json
from eliot._action import WrittenAction
from eliot._message import WrittenMessage


def build(pool):
    objs = [None]
    for i, it in enumerate(pool, 1):
        if it["kind"] == "msg":
            d = {"task_uuid": "task-%d" % it["u"], "task_level": list(it["lv"]), "timestamp": float(i), "v": it["v"]}
            if it["at"] != "none":
                d["action_type"] = it["at"]
            if it["st"] != "none":
                d["action_status"] = it["st"]
            if it["st"] == "failed":
                d["exception"] = "E"
                d["reason"] = "R"
            objs.append(WrittenMessage.from_dict(d))
        else:
            st = WrittenMessage.from_dict({"task_uuid": "task-%d" % it["u"], "task_level": list(it["lv"]) + [1], "timestamp": float(i),
                                           "action_type": "S", "action_status": "started"})
            objs.append(WrittenAction.from_messages(start_message=st))
    return objs


def index_of(objs, x):
    if x is None:
        return 0
    for i in range(1, len(objs)):
        if objs[i] is x:
            return i
    for i in range(1, len(objs)):
        if type(objs[i]) is type(x) and objs[i] == x:
            return i
    return -1


def prop(f):
    try:
        r = f()
    except KeyError:
        return "KeyError"
    except Exception as ex:
        return "raised:" + type(ex).__name__
    return "None" if r is None else r


def run(objs, case):
    s, e, kids = case
    try:
        a = WrittenAction.from_messages(start_message=objs[s] if s else None, children=[objs[c] for c in kids],
                                        end_message=objs[e] if e else None)
    except Exception as ex:
        return [type(ex).__name__, []]
    except BaseException as ex:
        return ["base:" + type(ex).__name__, []]
    if not isinstance(a, WrittenAction):
        return ["not-an-action", []]
    si, ei = index_of(objs, a.start_message), index_of(objs, a.end_message)
    if si and a.start_time != float(si) or (not si and a.start_time is not None):
        si = -2
    if ei and a.end_time != float(ei) or (not ei and a.end_time is not None):
        ei = -2
    exc, reason = a.exception, a.reason
    mark = "None" if (exc is None and reason is None) else ("exc" if (exc == "E" and reason == "R") else "bad")
    tu = a.task_uuid
    u = int(tu.split("-")[1]) if isinstance(tu, str) and tu.startswith("task-") else -1
    view = [list(a.task_level.level), u, prop(lambda: a.action_type), prop(lambda: a.status),
            [index_of(objs, c) for c in a.children], si, ei, mark]
    return ["ok", view]


def main():
    job = json.load(sys.stdin)
    objs = build(job["pool"])
    json.dump({"runs": [run(objs, c) for c in job["cases"]]}, sys.stdout)


if __name__ == "__main__":
    main()
