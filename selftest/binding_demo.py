#!/venv/bin/python
"""Demonstrates that the trace specifications bind: a recorded execution is accepted; the same trace with one recorded field
corrupted, or one event removed, is rejected with the clause that owns the field."""
import sys, os, json, copy
sys.path.insert(0, "/verif/harness")
from common import *
import engine_eliot as E

prog = {"init": [1, 2], "ndest": 2, "dmask": {"2": [0, 1]}, "wit": 1, "collide": False, "ops": [
    {"op": "StartAction", "c": 1, "ty": "A"}, {"op": "Enter", "c": 1, "kind": "with", "a": 1}, {"op": "Log", "c": 1, "ty": "m"},
    {"op": "StartAction", "c": 1, "ty": "T"}, {"op": "Enter", "c": 1, "kind": "with", "a": 2}, {"op": "AddSuccess", "c": 1, "a": 2, "f": "y"},
    {"op": "Exit", "c": 1, "o": "ok", "kind": "with"}, {"op": "Exit", "c": 1, "o": "exc", "kind": "with"}]}
traces, path = E.execute([prog])
good = traces[0]


def corrupt(fn):
    t = copy.deepcopy(good)
    fn(t)
    return t


def set_level(t):
    e = [x for x in t["ev"] if x["e"] == "deliver"][3]
    e["m"]["lv"] = e["m"]["lv"][:-1] + [e["m"]["lv"][-1] + 1]


def drop_delivery(t):
    i = [k for k, x in enumerate(t["ev"]) if x["e"] == "deliver"][2]
    del t["ev"][i]


def wrong_cur(t):
    e = [x for x in t["ev"] if x["e"] == "ret"][1]
    e["cur"] = 0


def swallow(t):
    e = [x for x in t["ev"] if x["e"] == "ret"][-1]
    e["v"] = "ok"


def status(t):
    e = [x for x in t["ev"] if x["e"] == "deliver" and x["m"]["k"] == "end"][-1]
    e["m"]["st"] = "succeeded"


cases = [("unchanged", good, ""), ("task_level of one delivery +1", corrupt(set_level), "task_level"), ("one delivery removed", corrupt(drop_delivery), ("missing_delivery", "task_level")),
         ("current_action() after entering the block reported as None", corrupt(wrong_cur), "current_action_after"),
         ("propagated exception reported as swallowed", corrupt(swallow), "exception_not_propagated"), ("failed end reported as succeeded", corrupt(status), "status")]
d = mktemp("bind_")
f = os.path.join(d, "t.json")
json.dump({"traces": [c[1] for c in cases]}, open(f, "w"))
r = run_tlc("Trace_Eliot", "Trace_Eliot.cfg", env={"TRACE_FILE": f}, timeout=600)
acc = {t[1]: t for t in printed_tuples(r.out, "ACC")}
ok = True
for i, (name, _, expect) in enumerate(cases):
    clause = acc[i + 1][2]
    good_ = (clause == "" if not expect else clause.startswith(expect if isinstance(expect, tuple) else (expect,)))
    ok &= good_
    print("%-62s -> %-40s %s" % (name, clause or "(accepted)", "as expected" if good_ else "UNEXPECTED"))
cleanup()
sys.exit(0 if ok else 1)
