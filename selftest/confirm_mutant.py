#!/venv/bin/python
"""Confirm a seeded change and file it under /verif/seeded/<name>/.
usage: confirm_mutant.py <name e.g. C03A> <property> <dir with patch.diff demo.py notes.md> <check ids to run...>
Works in a scratch worktree outside /repo and /verif, removed afterwards."""
import sys, os, subprocess, json, shutil, re, time

name, prop, src = sys.argv[1:4]
checks = sys.argv[4:] or [prop]
WT = "/tmp/wt/confirm_%s" % name
BASE = json.load(open("/root/.vp/BASELINE.json"))
ALWAYS_FAIL = set(BASE["always_fail"])
FLAKE = {"eliot.tests.test_testing.CaptureLoggingTests::test_global_cleanup"}


def sh(cmd, **kw):
    return subprocess.run(cmd, shell=True, stdout=subprocess.PIPE, stderr=subprocess.STDOUT, **kw)


def main():
    meta = {"name": name, "breaks_property": prop, "source_dir": src, "confirmed_at": time.strftime("%Y-%m-%d %H:%M:%S")}
    sh("git -C /repo worktree remove --force %s" % WT)
    r = sh("git -C /repo worktree add --detach %s HEAD" % WT)
    head = sh("git -C /repo rev-parse --short HEAD").stdout.decode().strip()
    meta["repo_head"] = head
    try:
        env = dict(os.environ, PYTHONPATH=WT)
        demo = os.path.join(src, "demo.py")
        r0 = sh("cd %s && /venv/bin/python %s" % (WT, demo), env=env, timeout=600)
        meta["demo_on_clean_tree_exit"] = r0.returncode
        ap = sh("git -C %s apply %s" % (WT, os.path.join(src, "patch.diff")))
        meta["patch_applies_to_head"] = ap.returncode == 0
        if ap.returncode != 0:
            meta["apply_error"] = ap.stdout.decode()[-500:]
            return meta
        r1 = sh("cd %s && /venv/bin/python %s" % (WT, demo), env=env, timeout=600)
        meta["demo_on_changed_tree_exit"] = r1.returncode
        meta["demo_tail"] = r1.stdout.decode()[-600:]
        t = sh("cd %s && /venv/bin/python -m pytest -q -p no:cacheprovider --timeout=900 -n 4 --continue-on-collection-errors -rf eliot/tests 2>&1 | tail -40" % WT, env=env, timeout=3000)
        out = t.stdout.decode()
        failed = set()
        for m in re.finditer(r"FAILED (eliot/tests/\S+?)::(\S+?)::(\S+?)(?: |$)", out, re.M):
            failed.add("%s.%s::%s" % (m.group(1)[:-3].replace("/", "."), m.group(2), m.group(3)))
        summ = re.findall(r"(\d+) failed, (\d+) passed", out)
        meta["suite_summary"] = out.strip().split("\n")[-1]
        extra = failed - ALWAYS_FAIL - FLAKE
        # tests that depend on which test ran first in their xdist worker (the first add_destinations of a process delivers the
        # buffered backlog) fail now and then under -n 4 on the unmodified tree too: re-run each new failure alone
        flaky = set()
        for tid in sorted(extra):
            mod, rest = tid.rsplit(".", 1)[0], tid
            path = tid.split("::")[0]
            parts = path.split(".")
            node = "/".join(parts[:-1]) + ".py::" + parts[-1] + "::" + tid.split("::")[1]
            rr = sh("cd %s && /venv/bin/python -m pytest -q -p no:cacheprovider --timeout=300 '%s' 2>&1 | tail -3" % (WT, node), env=env, timeout=900)
            if re.search(r"\b1 passed", rr.stdout.decode()):
                flaky.add(tid)
        meta["suite_failures_passing_alone"] = sorted(flaky)
        extra = extra - flaky
        meta["suite_new_failures"] = sorted(extra)
        meta["suite_passes"] = bool(summ) and not extra and int(summ[-1][1]) >= 403
        det = {}
        for c in checks:
            e = dict(os.environ, VERIF_REPO=WT, VERIF_EVIDENCE_DIR="/tmp/mut_evidence", VERIF_REPLAY_DIR="/tmp/mut_replays")
            rc = sh("/verif/check %s quick" % c, env=e, timeout=3000)
            o = rc.stdout.decode()
            first = ""
            mm = re.search(r"VIOLATION property=\S+ replay=\S+\n\s*(.*)", o)
            if mm:
                first = mm.group(1)[:300]
            det[c] = {"exit": rc.returncode, "first_violation": first}
        meta["checks_run"] = det
        meta["detected_by"] = sorted(c for c, v in det.items() if v["exit"] == 1)
    finally:
        sh("git -C /repo worktree remove --force %s" % WT)
    return meta


meta = main()
ok = meta.get("patch_applies_to_head") and meta.get("demo_on_clean_tree_exit") == 0 and meta.get("demo_on_changed_tree_exit", 0) != 0 and meta.get("suite_passes")
meta["valid_seed"] = bool(ok)
notes = os.path.join(src, "notes.md")
if os.path.exists(notes):
    txt = open(notes).read()
    meta["needs_to_manifest"] = txt[:1500]
dst = "/verif/seeded/%s" % name
os.makedirs(dst, exist_ok=True)
shutil.copy(os.path.join(src, "patch.diff"), dst)
shutil.copy(os.path.join(src, "demo.py"), dst)
if os.path.exists(notes):
    shutil.copy(notes, dst)
meta["what_was_run"] = ("scratch worktree of /repo HEAD: demo.py on the clean tree (exit 0 expected), git apply patch.diff, demo.py again (non-zero expected), "
                        "full test suite with -n 4 (only the 19 always-failing baseline tests, and possibly the order-dependent flake test_global_cleanup, may fail; any other failure is re-run alone and counts only if it fails alone too), "
                        "then ./check <ids> quick with VERIF_REPO pointing at the changed tree")
json.dump(meta, open(os.path.join(dst, "meta.json"), "w"), indent=1)
print(name, "valid" if ok else "INVALID", "detected_by", meta.get("detected_by"), meta.get("suite_summary"))
