#!/venv/bin/python
"""Regression of the checks against every confirmed seeded change: for each seeded/<name>/ whose meta says valid_seed, apply the
patch in a scratch worktree (never /repo), run the quick checks that are recorded as detecting it, and report any that no longer do.
usage: kill_matrix.py [jobs] [name-prefix ...]   -> writes selftest/KILL_MATRIX.txt; exit 1 if a seeded change is no longer detected."""
import sys, os, json, glob, subprocess, concurrent.futures as cf

V = os.path.dirname(os.path.dirname(os.path.abspath(__file__)))
jobs = int(sys.argv[1]) if len(sys.argv) > 1 and sys.argv[1].isdigit() else 3
prefixes = [a for a in sys.argv[1:] if not a.isdigit()]


def sh(cmd, **kw):
    return subprocess.run(cmd, shell=True, stdout=subprocess.PIPE, stderr=subprocess.STDOUT, **kw)


def one(args):
    slot, name, checks = args
    wt = "/tmp/wt/km_%d" % slot
    patch = os.path.join(V, "seeded", name, "patch.diff")
    sh("git -C %s checkout -q -- . && git -C %s clean -fdq" % (wt, wt))
    ap = sh("git -C %s apply %s" % (wt, patch))
    if ap.returncode != 0:
        return name, {"apply": "FAILED"}
    res = {}
    for c in checks:
        e = dict(os.environ, VERIF_REPO=wt, VERIF_EVIDENCE_DIR="/tmp/km_evidence_%d" % slot, VERIF_REPLAY_DIR="/tmp/km_replays_%d" % slot)
        r = sh("%s/check %s quick" % (V, c), env=e, timeout=3000)
        res[c] = r.returncode
        if r.returncode == 1:
            break
    sh("git -C %s checkout -q -- . && git -C %s clean -fdq" % (wt, wt))
    return name, res


def main():
    todo = []
    for f in sorted(glob.glob(os.path.join(V, "seeded", "*", "meta.json"))):
        m = json.load(open(f))
        if not m.get("valid_seed"):
            continue
        if prefixes and not any(m["name"].startswith(p) for p in prefixes):
            continue
        checks = m.get("detected_by") or [m["breaks_property"]]
        todo.append((m["name"], checks))
    for s in range(jobs):
        sh("git -C /repo worktree remove --force /tmp/wt/km_%d" % s)
        sh("git -C /repo worktree add --detach /tmp/wt/km_%d HEAD" % s)
    out, bad = [], []
    try:
        with cf.ThreadPoolExecutor(max_workers=jobs) as ex:
            # a slot is a worktree: items are dealt round-robin to slots, each slot runs sequentially
            def run_slot(s):
                return [one((s, n, c)) for (n, c) in todo[s::jobs]]
            for chunk in ex.map(run_slot, range(jobs)):
                for name, res in chunk:
                    det = [c for c, rc in res.items() if rc == 1]
                    line = "%s %s %s" % (name, "detected_by=" + ",".join(det) if det else "NOT-DETECTED", res)
                    out.append(line)
                    if not det:
                        bad.append(name)
    finally:
        for s in range(jobs):
            sh("git -C /repo worktree remove --force /tmp/wt/km_%d" % s)
    out.sort()
    head = sh("git -C /repo rev-parse --short HEAD").stdout.decode().strip()
    vhead = sh("git -C %s rev-parse --short HEAD" % V).stdout.decode().strip()
    seed = os.environ.get("VERIF_SEED")
    name = "KILL_MATRIX.txt" if not seed else "KILL_MATRIX_seed%s.txt" % seed
    open(os.path.join(V, "selftest", name), "w").write(
        "repo %s, verif %s: %d seeded changes, %d not detected %s\n" % (head, vhead, len(out), len(bad), bad) + "\n".join(out) + "\n")
    print("\n".join(out[-200:]))
    print("not detected:", bad)
    return 1 if bad else 0


sys.exit(main())
