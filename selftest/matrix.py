#!/venv/bin/python
"""Writes selftest/RESULTS.md from seeded/*/meta.json (confirmed seeded changes) and selftest/mutants/*.patch (hand-made mutants)."""
import json, glob, os, re
V = os.path.dirname(os.path.dirname(os.path.abspath(__file__)))
rows = []
for f in sorted(glob.glob(os.path.join(V, "seeded", "*", "meta.json"))):
    m = json.load(open(f))
    notes = m.get("needs_to_manifest", "")
    first = ""
    for line in notes.split("\n"):
        line = line.strip("# ").strip()
        if len(line) > 30 and not line.lower().startswith(("notes", "change", "c0", "c1", "c2")):
            first = line
            break
    det = m.get("detected_by") or []
    first_v = ""
    for c in det:
        first_v = m["checks_run"][c]["first_violation"]
        break
    rows.append((m["name"], m["breaks_property"], "yes" if m.get("valid_seed") else "NO", ", ".join(det) or "**missed**", first[:160].replace("|", "/"), first_v[:110].replace("|", "/")))
out = ["# Seeded changes and hand-made mutants: what the checks catch", "",
       "Every row under *seeded* was produced by a sub-agent that saw only the property text and a scratch worktree, then confirmed here",
       "(`selftest/confirm_mutant.py`): the patch applies to /repo HEAD, its demo passes on the clean tree and fails with the change,",
       "the repository's own test suite still passes (404), and the listed quick checks were run against the changed tree.", "",
       "| seeded change | property | valid | detected by (quick) | what it is / needs | first violation reported |", "|---|---|---|---|---|---|"]
for r in rows:
    out.append("| %s | %s | %s | %s | %s | %s |" % r)
out += ["", "Hand-made mutants (`selftest/mutants/*.patch`, from the properties' `why_tests_cant` and my own list) -- all reported by the quick check of their property:", ""]
for f in sorted(glob.glob(os.path.join(V, "selftest", "mutants", "*.patch"))):
    out.append("* `%s`" % os.path.basename(f))
out += ["", "Regression of the quick tier against every confirmed seeded change: `selftest/kill_matrix.py` -> `selftest/KILL_MATRIX.txt`.",
        "False-alarm test: ten behaviour-preserving refactorings, `selftest/benign/` (`RUNS.txt`: every run rc=0).",
        "Binding demonstration (a corrupted recorded field / a dropped event is rejected): `selftest/binding_demo.py`."]
open(os.path.join(V, "selftest", "RESULTS.md"), "w").write("\n".join(out) + "\n")
print("\n".join(out[:40]))
