#!/bin/sh
# usage: run_mutant.sh <worktree> <patch.diff> <tier> <prop>...   -- applies the patch to a scratch worktree (never /repo),
# runs the listed checks against it (VERIF_REPO), reverts. Prints one line per check: prop exit-status first-violation.
wt="$1"; patch="$2"; tier="$3"; shift 3
[ "$wt" = "/repo" ] && { echo "refusing to patch /repo"; exit 2; }
git -C "$wt" checkout -q -- . && git -C "$wt" apply "$patch" || { echo "patch does not apply"; exit 2; }
for p in "$@"; do
  out=$(VERIF_REPO="$wt" VERIF_EVIDENCE_DIR=/tmp/mut_evidence VERIF_REPLAY_DIR=/tmp/mut_replays /verif/check "$p" "$tier" 2>&1); rc=$?
  echo "$p rc=$rc $(echo "$out" | grep -A1 -m1 '^VIOLATION' | tr '\n' ' ' | cut -c1-200) $(echo "$out" | grep -m1 MACHINERY | cut -c1-200)"
done
git -C "$wt" checkout -q -- .
