#!/bin/sh
# Offline setup: nothing is compiled or downloaded. Parse every TLA+ module with SANY.
cd "$(dirname "$0")" || exit 2
exec /venv/bin/python harness/setup_check.py
