------------------------------ MODULE Deferred ------------------------------
(***************************************************************************)
(* eliot.twisted.DeferredContext: "a Deferred equivalent of Action.context *)
(* and Action.finish".  Growth of the specification beyond the listed      *)
(* properties; what it decides is the Deferred face of C03 (exactly one,   *)
(* truthful end message) and C04 (callbacks run inside the action, the     *)
(* caller's context is untouched).                                         *)
(*                                                                         *)
(* A Deferred is a queue of callback pairs and a current result; as soon   *)
(* as a result is there, queued pairs run in order, each replacing the     *)
(* result by what it returns (or by the failure it raises).  Pairs added   *)
(* after firing run at once.  DeferredContext(d), created inside action A, *)
(* wraps every pair added through it in A.run(...), and addActionFinish()  *)
(* appends the pair that finishes A with the result seen at that point of  *)
(* the chain and passes that result on unchanged.                          *)
(*                                                                         *)
(* One named action per step of the code: the public calls (SetCur,        *)
(* AddCb, AddFinish, Fire) and the internal RunCb, one per callback run.   *)
(* Guard = FALSE is a broken sibling (no AlreadyFinished check): TLC must  *)
(* find a callback running inside the finished action.                     *)
(***************************************************************************)
EXTENDS Naturals, Sequences, FiniteSets, TLC
CONSTANTS MaxOps,      \* public calls per behaviour
          MaxCbs,      \* callback pairs per behaviour
          Guard        \* TRUE: the code (AlreadyFinished is raised)
VARIABLES pend,        \* queued pairs: [k, via, onok, onfail]
          res,         \* <<"none">> | <<"ok", who>> | <<"fail", who>>    who = 0: fired by the caller; k: produced by pair k
          fin,         \* addActionFinish() has been called
          ended,       \* <<"no">> | <<"succeeded">> | <<"failed", who>>
          nend,        \* end messages emitted for A
          nch,         \* A's children emitted so far (the start message is the first)
          cur,         \* the caller's context: "none" | "A" | "B"
          running,     \* the chain is being run inside a public call
          ncb,         \* pairs added so far
          obs,         \* what an observer of the real code sees, in order
          hist         \* the public calls
vars == <<pend, res, fin, ended, nend, nch, cur, running, ncb, obs, hist>>
Behs == {"pass", "val", "raise"}   \* pass the input on / return a new value (an errback doing so swallows the failure) / raise
Vias == {"ctx", "raw"}
Curs == {"none", "A", "B"}

Init == /\ pend = <<>> /\ res = <<"none">> /\ fin = FALSE /\ ended = <<"no">> /\ nend = 0 /\ nch = 1
        /\ cur = "A" /\ running = FALSE /\ ncb = 0 /\ obs = <<>> /\ hist = <<>>
Idle == ~running
CanCall == Idle /\ Len(hist) < MaxOps

\* the caller moves to another context between calls (leaves A's block, enters another action's, comes back)
SetCur(c) == /\ CanCall /\ c # cur /\ cur' = c /\ hist' = Append(hist, <<"SetCur", c>>)
             /\ UNCHANGED <<pend, res, fin, ended, nend, nch, running, ncb, obs>>
\* DeferredContext.addCallbacks / d.addCallbacks
AddCb(via, onok, onfail) ==
    /\ CanCall /\ ncb < MaxCbs
    /\ hist' = Append(hist, <<"AddCb", via, onok, onfail>>)
    /\ IF via = "ctx" /\ fin /\ Guard
       THEN /\ obs' = obs \o << <<"adding", ncb + 1>>, <<"already_finished">> >>
            /\ UNCHANGED <<pend, res, fin, ended, nend, nch, cur, running, ncb>>
       ELSE /\ ncb' = ncb + 1
            /\ pend' = Append(pend, [k |-> ncb + 1, via |-> via, onok |-> onok, onfail |-> onfail])
            /\ running' = (res # <<"none">>)
            /\ obs' = Append(obs, <<"adding", ncb + 1>>)
            /\ UNCHANGED <<res, fin, ended, nend, nch, cur>>
\* DeferredContext.addActionFinish
AddFinish == /\ CanCall
             /\ hist' = Append(hist, <<"AddFinish">>)
             /\ IF fin THEN /\ obs' = obs \o << <<"finishing">>, <<"already_finished">> >>
                            /\ UNCHANGED <<pend, res, fin, ended, nend, nch, cur, running, ncb>>
                ELSE /\ fin' = TRUE
                     /\ pend' = Append(pend, [k |-> 0, via |-> "done", onok |-> "pass", onfail |-> "pass"])
                     /\ running' = (res # <<"none">>)
                     /\ obs' = Append(obs, <<"finishing">>)
                     /\ UNCHANGED <<res, ended, nend, nch, cur, ncb>>
\* d.callback(value) / d.errback(failure)
Fire(r) == /\ CanCall /\ res = <<"none">>
           /\ res' = <<r, 0>> /\ running' = TRUE
           /\ hist' = Append(hist, <<"Fire", r>>) /\ obs' = Append(obs, <<"fired", r>>)
           /\ UNCHANGED <<pend, fin, ended, nend, nch, cur, ncb>>
\* one pair of the chain runs
Out(p, in) == LET b == IF in[1] = "ok" THEN p.onok ELSE p.onfail IN
              CASE b = "pass" -> in
                [] b = "val" -> <<"ok", p.k>>
                [] b = "raise" -> <<"fail", p.k>>
RunCb == /\ running
         /\ IF pend = <<>> THEN running' = FALSE /\ UNCHANGED <<pend, res, fin, ended, nend, nch, cur, ncb, obs, hist>>
            ELSE LET p == Head(pend) IN
                 /\ pend' = Tail(pend) /\ UNCHANGED <<fin, cur, ncb, hist, running>>
                 /\ CASE p.via = "done" ->
                           /\ ended' = IF res[1] = "ok" THEN <<"succeeded">> ELSE <<"failed", res[2]>>
                           /\ nend' = nend + 1 /\ nch' = nch + 1 /\ res' = res
                           /\ obs' = Append(obs, <<"end", ended', nch + 1>>)
                      [] p.via = "ctx" ->
                           \* runs inside A.run(): current action is A whatever the caller's context; its message is A's next child
                           /\ res' = Out(p, res) /\ nch' = nch + 1
                           /\ obs' = Append(obs, <<"cb", p.k, res, "A", nch + 1>>)
                           /\ UNCHANGED <<ended, nend>>
                      [] p.via = "raw" ->
                           /\ res' = Out(p, res)
                           /\ obs' = Append(obs, <<"cb", p.k, res, cur, 0>>)
                           /\ UNCHANGED <<ended, nend, nch>>
Next == RunCb \/ AddFinish \/ (\E r \in {"ok", "fail"} : Fire(r)) \/ (\E c \in Curs : SetCur(c))
        \/ \E v \in Vias, a \in Behs, b \in Behs : AddCb(v, a, b)
Spec == Init /\ [][Next]_vars

Range(s) == {s[i] : i \in DOMAIN s}
\* ---- the Deferred face of C03
D_AtMostOneEnd == nend <= 1 /\ (nend = 1 <=> ended # <<"no">>)
\* the end message exists exactly when the finishing pair has run, i.e. addActionFinish was called, the Deferred fired, and every
\* pair added before it has run
D_EndIff == Idle => ((ended # <<"no">>) <=> (fin /\ res # <<"none">>))
\* truthful: the status and exception of the end message are the result at that point of the chain, and that result is passed on
D_Truthful == [][ (ended = <<"no">> /\ ended' # <<"no">>) =>
                    /\ res' = res
                    /\ ended' = IF res[1] = "ok" THEN <<"succeeded">> ELSE <<"failed", res[2]>> ]_vars
\* ---- the Deferred face of C04
\* no callback ever runs inside A after A's end message: every obs <<"cb", k, in, "A", level>> with level > 0 precedes the end
D_NoCtxAfterEnd == \A i, j \in DOMAIN obs : (obs[i][1] = "end" /\ obs[j][1] = "cb" /\ obs[j][5] > 0) => j < i
\* the caller's context is never changed by a call (cur changes only in SetCur)
D_CallerUntouched == [][cur' # cur => Len(hist') = Len(hist) + 1 /\ hist'[Len(hist')][1] = "SetCur"]_vars
\* children of A are numbered contiguously: levels observed are 2, 3, ... in order
Levels == SelectSeq([i \in DOMAIN obs |-> IF obs[i][1] = "cb" THEN obs[i][5] ELSE IF obs[i][1] = "end" THEN obs[i][3] ELSE 0], LAMBDA x : x > 0)
D_LevelsContiguous == \A i \in DOMAIN Levels : Levels[i] = i + 1
\* behaviours for replay: emitted when the caller is idle and has used all its calls
EmitBeh == (Idle /\ Len(hist) = MaxOps) => PrintT(<<"BEH", hist, obs, res, ended>>)
View == <<pend, res, fin, ended, nend, nch, cur, running, ncb, hist>>
=============================================================================
