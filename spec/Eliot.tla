------------------------------- MODULE Eliot -------------------------------
(***************************************************************************)
(* Eliot's action tree, action context and output fan-out, at the          *)
(* granularity at which the code acts:                                     *)
(*   one action per PUBLIC CALL  (start_action, with-enter/exit, context(),*)
(*       run(), finish, log_message, Action.log, add_success_fields,       *)
(*       write_traceback, serialize_task_id, continue_task,                *)
(*       add_destinations, remove_destination, add_global_fields, spawning *)
(*       a thread / asyncio task)                                          *)
(*   one action per INTERNAL STEP at which something nondeterministic or   *)
(*       observable happens (a field serializer runs and may raise, a      *)
(*       destination is called and may raise, a report is allocated).      *)
(* A public call pushes work items; internal steps run until `work` is     *)
(* empty; then Return.  Calls of different contexts interleave at call     *)
(* boundaries (property C05: "at logging-call boundaries").                *)
(*                                                                         *)
(* Code anchors: eliot/_action.py (Action, start_action, startTask,        *)
(* log_message, preserve_context), eliot/_output.py (Logger.write,         *)
(* Destinations.send/add/remove/addGlobalFields, BufferingDestination),    *)
(* eliot/_traceback.py, eliot/_errors.py.                                  *)
(***************************************************************************)
EXTENDS Naturals, Sequences, FiniteSets, TLC

CONSTANTS
  NCtx,        \* execution contexts 1..NCtx (1 = main; others are spawned threads / asyncio tasks)
  NDest,       \* destination identities 1..NDest
  MaxActs,     \* bound: Action objects created by the program
  MaxMsgs,     \* bound: messages created (incl. failure reports)
  MaxFaults,   \* bound: injected faults (destination / serializer raising)
  MaxDepth,    \* bound: nesting depth of task levels
  MaxBlocks,   \* bound: open scoping constructs per context
  MaxIds,      \* bound: serialized task ids
  Cap,         \* capacity of the start-up buffer (1000 in the code)
  InitDests,   \* destinations registered before the behaviour starts (<<>> = start-up buffering in effect)
  AnyOrder,    \* FALSE: one message is offered to the destinations in registration order (what the code does);
               \* TRUE: in any order (used when validating recorded executions: the order inside one fan-out
               \* is not part of any property)
  Feat         \* set of enabled features (selects the disjuncts of Next)

VARIABLES
  acts,      \* Seq of [u, lv, last, fin, ty, succ, node, inwith]   the program's Action objects
  cur,       \* [Ctx -> 0..Len(acts)]   value of the context variable in each execution context
  blocks,    \* [Ctx -> Seq([kind, act, saved])]   open with / context() / run() constructs
  born,      \* [Ctx -> BOOLEAN]
  base,      \* [Ctx -> action current when the context was born] (0 for main and threads)
  nuuid,     \* number of task uuids handed out so far (uuid4 modelled as a fresh counter)
  ids,       \* Seq of [u, lv, used, node]   serialized task ids
  dests,     \* Seq of destination ids currently registered (Destinations._destinations after the first add)
  anyAdded,  \* Destinations._any_added
  buffer,    \* BufferingDestination.messages
  gf,        \* global fields in force: set of <<name, version>> (at most one version per name)
  reg,       \* exception classes (of the chain E2 < E1 < E0 < Exception) that have an extractor registered
  offered,   \* [Dest -> Seq([m, raised])]   every call made to each destination
  work,      \* stack (top = last) of pending internal steps of the call in progress
  call,      \* [c, v]: context of the public call in progress (0 = none) and what it will return
  ret,       \* [c, v]: outcome of the last finished call, v \in {"none","ok","app"}
  nfaults, nmsgs,
  nodes,     \* performed forest: Seq of [par, kind, ty, st]   (denotational, independent of uuid/level)
  dev,       \* set of named deviations / conditions met (IntoFinished, SerFail)
  gh,        \* ghost: [expect: Dest -> Seq(Key) each destination SHOULD have been offered, pre: keys sent before
             \*         the first add, nser: serialization failures, ntb: tracebacks expected, fail: keys not delivered]
  hist       \* history of calls and fault choices (for replay; hidden by VIEW in model checking)

vars == <<acts, cur, blocks, born, base, nuuid, ids, dests, anyAdded, buffer, gf, reg, offered, work,
          call, ret, nfaults, nmsgs, nodes, dev, gh, hist>>
view == <<acts, cur, blocks, born, base, nuuid, ids, dests, anyAdded, buffer, gf, reg, offered, work,
          call, ret, nfaults, nmsgs, nodes, dev, gh>>

Ctx  == 1..NCtx
Dest == 1..NDest

-----------------------------------------------------------------------------
(* Types of actions and messages.  "A","m" untyped; "T","M" declared with    *)
(* ActionType / MessageType (harness field serializers on x / y).            *)
ActTypes == {"A", "T", "E"}       \* "E": the default, EMPTY action type (start_action() without action_type)
MsgTypes == {"m", "M", "Mh", "h", "N", "N0"}   \* "N": MessageType declared with fields(n=int); "N0": the same type logged WITHOUT its field       \* "h": a message whose field value is hostile (not JSON-able, str()/repr() raise, ...)
IsTyped(ty) == ty \in {"T", "M", "eliot:traceback"}
StartFields(ty)   == IF ty = "T" THEN {"x"} ELSE {"sa"}
MsgFields(ty)     == CASE ty \in {"M", "Mh"} -> {"x"} [] ty = "h" -> {"hv"} [] ty = "N" -> {"n"} [] ty = "N0" -> {} [] OTHER -> {"mf"}
\* declared fields whose serializer is harness-controlled (may raise), per message kind
Declared(m) == IF m.ty = "T" /\ m.k = "start" THEN {"x"}
               ELSE IF m.ty = "T" /\ m.k = "end" /\ m.st = "succeeded" THEN {"y"}
               ELSE IF m.ty \in {"M", "Mh"} THEN {"x"} ELSE {}      \* "Mh": the typed message with a hostile (uncopyable, unencodable) value
\* declared fields with the library's own (identity) serializers: cannot raise, but must be present
DeclaredPlain(m) == IF m.ty \in {"N", "N0"} THEN {"n"} ELSE {}
\* outcomes of a block / finish: "ok", or an exception kind
\*   "exc"  an exception whose class chain has no extractor      "extraise"  its extractor raises
\*   "x0" "x1" "x2"  an instance of E0 / E1 (subclass of E0) / E2 (subclass of E1): the fields come from the
\*   extractor registered for the NEAREST class in its MRO, at the moment it is looked up
\*   "x3"  an instance of M(E0, D2) (multiple inheritance; D2 < D1 < Exception): its MRO is M, E0, D2, D1, ...: E0 is nearer than
\*         D2 although D2 sits deeper in the class hierarchy
Outcomes == {"ok", "exc", "x0", "x1", "x2", "x3", "extraise"}
ExtOutcomes == {"x0", "x1", "x2", "x3", "extraise"}
Chain(o) == CASE o = "x2" -> <<"E2", "E1", "E0">> [] o = "x1" -> <<"E1", "E0">> [] o = "x0" -> <<"E0">> [] o = "x3" -> <<"E0", "D2">> [] OTHER -> <<>>
FieldOf(k) == CASE k = "E0" -> "e0" [] k = "E1" -> "e1" [] k = "E2" -> "e2" [] k = "D2" -> "d2"
ExtraFieldsIn(r, o) == LET s == SelectSeq(Chain(o), LAMBDA k : k \in r) IN IF s = <<>> THEN {} ELSE {FieldOf(s[1])}

NoCall == [c |-> 0, v |-> "none"]
Top    == work[Len(work)]
Pop    == SubSeq(work, 1, Len(work) - 1)
ReplaceTop(x) == Append(Pop, x)
Front(s) == SubSeq(s, 1, Len(s) - 1)
Last(s)  == s[Len(s)]
Range(s) == {s[i] : i \in DOMAIN s}
SeqOfSet(S) == LET RECURSIVE F(_)
                   F(T) == IF T = {} THEN <<>> ELSE LET x == CHOOSE y \in T : \A z \in T : y <= z
                                                    IN <<x>> \o F(T \ {x})
               IN F(S)
LastN(s, n) == IF Len(s) <= n THEN s ELSE SubSeq(s, Len(s) - n + 1, Len(s))

Msg(u, lv, k, ty, st, f, rep) ==
  [u |-> u, lv |-> lv, k |-> k, ty |-> ty, st |-> st, f |-> f, rep |-> rep, g |-> {}]

WriteItem(m) == [t |-> "write", m |-> m]
\* message.update(global fields): the values in force at send time win over what the message carried (re-delivery)
MergeG(mg) == {p \in mg : ~\E q \in gf : q[1] = p[1]} \cup gf
SendItem(m)  == [t |-> "send", m |-> [m EXCEPT !.g = MergeG(@)], done |-> {}, errs |-> <<>>]

Key(m) == <<m.u, m.lv>>
\* ghost bookkeeping when a FRESH message enters the output stage: every destination registered now
\* should be offered it exactly once, after everything it was offered before
\* (a report logged while the first add_destinations is still re-delivering the buffer is offered at that point,
\*  ahead of the buffered messages not yet re-delivered)
InsertAt(s, n, x) == SubSeq(s, 1, n) \o <<x>> \o SubSeq(s, n + 1, Len(s))
GhostSent(g, m) == IF anyAdded
                   THEN [g EXCEPT !.expect = [d \in Dest |-> IF d \in {dests[i] : i \in DOMAIN dests}
                                                             THEN InsertAt(g.expect[d], Len(offered[d]), Key(m))
                                                             ELSE g.expect[d]]]
                   ELSE [g EXCEPT !.pre = Append(@, Key(m))]

Idle == call.c = 0 /\ work = <<>>
Room == nmsgs < MaxMsgs
\* "You shouldn't log within an action's context after it has been finished" (docs):
\* the PROGRAM never allocates a position in a finished action.
ActOK(c) == IF cur[c] = 0 THEN TRUE ELSE ~acts[cur[c]].fin

AllocIn(A, a) == [A EXCEPT ![a].last = @ + 1]            \* Action._nextTaskLevel
LevelIn(A, a) == Append(A[a].lv, A[a].last + 1)
NodeOfCur(c)  == IF cur[c] = 0 THEN 0 ELSE acts[cur[c]].node
AddNode(par, kind, ty, st) == Append(nodes, [par |-> par, kind |-> kind, ty |-> ty, st |-> st])

Init ==
  /\ acts = <<>> /\ cur = [c \in Ctx |-> 0] /\ blocks = [c \in Ctx |-> <<>>]
  /\ born = [c \in Ctx |-> c = 1] /\ base = [c \in Ctx |-> 0] /\ nuuid = 0 /\ ids = <<>>
  /\ dests = InitDests /\ anyAdded = (InitDests # <<>>) /\ buffer = <<>> /\ gf = {} /\ reg = {}
  /\ offered = [d \in Dest |-> <<>>] /\ work = <<>> /\ call = NoCall /\ ret = NoCall
  /\ nfaults = 0 /\ nmsgs = 0 /\ nodes = <<>> /\ dev = {} /\ hist = <<>>
  /\ gh = [expect |-> [d \in Dest |-> <<>>], pre |-> <<>>, nser |-> 0, ntb |-> 0, fail |-> {},
           init |-> Range(InitDests), gone |-> {}]

-----------------------------------------------------------------------------
(* PUBLIC CALLS                                                             *)

Begin(c, v, h) == /\ call' = [c |-> c, v |-> v] /\ hist' = Append(hist, h)

\* start_action(action_type=ty, ...) / ActionType(...)  -- child of the current action, or a new task
CanStartAction(c) == Idle /\ born[c] /\ ActOK(c)
StartAction(c, ty) ==
  /\ CanStartAction(c) /\ Room /\ Len(acts) < MaxActs
  /\ IF cur[c] = 0
     THEN /\ nuuid' = nuuid + 1
          /\ acts' = Append(acts, [u |-> nuuid + 1, lv |-> <<>>, last |-> 1, fin |-> FALSE, ty |-> ty,
                                   succ |-> {}, node |-> Len(nodes) + 1, inwith |-> FALSE])
          /\ work' = <<WriteItem(Msg(nuuid + 1, <<1>>, "start", ty, "started", StartFields(ty), ""))>>
     ELSE /\ Len(acts[cur[c]].lv) < MaxDepth
          /\ LET p == cur[c]  lv == LevelIn(acts, p) IN
             /\ acts' = Append(AllocIn(acts, p),
                               [u |-> acts[p].u, lv |-> lv, last |-> 1, fin |-> FALSE, ty |-> ty,
                                succ |-> {}, node |-> Len(nodes) + 1, inwith |-> FALSE])
             /\ work' = <<WriteItem(Msg(acts[p].u, Append(lv, 1), "start", ty, "started", StartFields(ty), ""))>>
          /\ UNCHANGED nuuid
  /\ nodes' = AddNode(NodeOfCur(c), "act", ty, "started")
  /\ nmsgs' = nmsgs + 1
  /\ Begin(c, "ok", [op |-> "StartAction", c |-> c, ty |-> ty])
  /\ UNCHANGED <<cur, blocks, born, base, ids, dests, anyAdded, buffer, gf, reg, offered, ret, nfaults, dev, gh>>

\* start_task(...) / ActionType.as_task: always a new tree
StartTask(c, ty) ==
  /\ Idle /\ born[c] /\ Room /\ Len(acts) < MaxActs
  /\ nuuid' = nuuid + 1
  /\ acts' = Append(acts, [u |-> nuuid + 1, lv |-> <<>>, last |-> 1, fin |-> FALSE, ty |-> ty,
                           succ |-> {}, node |-> Len(nodes) + 1, inwith |-> FALSE])
  /\ work' = <<WriteItem(Msg(nuuid + 1, <<1>>, "start", ty, "started", StartFields(ty), ""))>>
  /\ nodes' = AddNode(0, "act", ty, "started")
  /\ nmsgs' = nmsgs + 1
  /\ Begin(c, "ok", [op |-> "StartTask", c |-> c, ty |-> ty])
  /\ UNCHANGED <<cur, blocks, born, base, ids, dests, anyAdded, buffer, gf, reg, offered, ret, nfaults, dev, gh>>

\* with a:  (Action.__enter__)  /  with a.context():  /  a.run(f)
CanEnter(c, kind, a) ==
  /\ Idle /\ born[c] /\ a \in DOMAIN acts /\ Len(blocks[c]) < MaxBlocks
  /\ (kind = "with" => ~acts[a].fin /\ ~acts[a].inwith)
Enter(c, kind, a) ==
  /\ CanEnter(c, kind, a)
  /\ blocks' = [blocks EXCEPT ![c] = Append(@, [kind |-> kind, act |-> a, saved |-> cur[c]])]
  /\ cur' = [cur EXCEPT ![c] = a]
  /\ acts' = IF kind = "with" THEN [acts EXCEPT ![a].inwith = TRUE] ELSE acts
  /\ call' = [c |-> c, v |-> "ok"] /\ hist' = Append(hist, [op |-> "Enter", c |-> c, kind |-> kind, a |-> a])
  /\ UNCHANGED <<born, base, nuuid, ids, dests, anyAdded, buffer, gf, reg, offered, work, ret, nfaults, nmsgs, nodes, dev, gh>>

\* Action.finish(exception): guarded by _finished; extractor first, then the end message
FinishWork(A, a, o) ==
  IF A[a].fin THEN <<>>
  ELSE IF o = "extraise" THEN <<[t |-> "endmsg", a |-> a, o |-> o], [t |-> "tbmsg", o |-> "exc"]>>
  ELSE <<[t |-> "endmsg", a |-> a, o |-> o]>>
MarkFin(A, a) == [A EXCEPT ![a].fin = TRUE]
NodeSt(N, A, a, o) == IF A[a].fin THEN N
                      ELSE [N EXCEPT ![A[a].node].st = IF o = "ok" THEN "succeeded" ELSE "failed"]

\* leaving a block: the context variable is restored FIRST, then (for `with`) the action is finished
CanExit(c) == Idle /\ born[c] /\ blocks[c] # <<>>
Exit(c, o) ==
  /\ CanExit(c)
  /\ LET b == Last(blocks[c]) IN
     /\ cur' = [cur EXCEPT ![c] = b.saved]
     /\ blocks' = [blocks EXCEPT ![c] = Front(@)]
     /\ IF b.kind = "with"
        THEN /\ (~acts[b.act].fin => Room)
             /\ work' = FinishWork(acts, b.act, o)
             /\ acts' = [MarkFin(acts, b.act) EXCEPT ![b.act].inwith = FALSE]
             /\ nodes' = NodeSt(nodes, acts, b.act, o)
        ELSE UNCHANGED <<work, acts, nodes>>
     /\ gh' = IF b.kind = "with" /\ ~acts[b.act].fin /\ o = "extraise" THEN [gh EXCEPT !.ntb = @ + 1] ELSE gh
     /\ call' = [c |-> c, v |-> IF o = "ok" THEN "ok" ELSE "app"]
     /\ hist' = Append(hist, [op |-> "Exit", c |-> c, o |-> o, kind |-> b.kind])
  /\ UNCHANGED <<born, base, nuuid, ids, dests, anyAdded, buffer, gf, reg, offered, ret, nfaults, nmsgs, dev>>

\* explicit a.finish() / a.finish(exception) from any context; a second finish emits nothing
CanFinish(c, a) == Idle /\ born[c] /\ a \in DOMAIN acts
Finish(c, a, o) ==
  /\ CanFinish(c, a) /\ (~acts[a].fin => Room)
  /\ work' = FinishWork(acts, a, o)
  /\ acts' = MarkFin(acts, a)
  /\ nodes' = NodeSt(nodes, acts, a, o)
  /\ gh' = IF ~acts[a].fin /\ o = "extraise" THEN [gh EXCEPT !.ntb = @ + 1] ELSE gh
  /\ Begin(c, "ok", [op |-> "Finish", c |-> c, a |-> a, o |-> o])
  /\ UNCHANGED <<cur, blocks, born, base, nuuid, ids, dests, anyAdded, buffer, gf, reg, offered, ret, nfaults, nmsgs, dev>>

\* log_message(ty, ...) / MessageType.log / Message.write: in the current action, or a task of its own
LogAllocMsg(c, ty, f, rep) ==      \* <<acts', nuuid', msg>>
  IF cur[c] = 0 THEN <<acts, nuuid + 1, Msg(nuuid + 1, <<1>>, "msg", ty, "", f, rep)>>
  ELSE <<AllocIn(acts, cur[c]), nuuid, Msg(acts[cur[c]].u, LevelIn(acts, cur[c]), "msg", ty, "", f, rep)>>
CanLog(c) == Idle /\ born[c] /\ ActOK(c)
Log(c, ty) ==
  /\ CanLog(c) /\ Room
  /\ (cur[c] # 0 => Len(acts[cur[c]].lv) < MaxDepth + 1)
  /\ LET r == LogAllocMsg(c, ty, MsgFields(ty), "") IN
     acts' = r[1] /\ nuuid' = r[2] /\ work' = <<WriteItem(r[3])>>
  /\ nodes' = AddNode(NodeOfCur(c), "msg", ty, "")
  /\ nmsgs' = nmsgs + 1
  /\ Begin(c, "ok", [op |-> "Log", c |-> c, ty |-> ty])
  /\ UNCHANGED <<cur, blocks, born, base, ids, dests, anyAdded, buffer, gf, reg, offered, ret, nfaults, dev, gh>>

\* Logger().write(d) with a dictionary the caller built itself (its own fresh task_uuid, task_level [1]): the message goes
\* out like any other and the caller's dictionary is left exactly as it was (checked by the harness: result "mutated")
RawWrite(c) ==
  /\ Idle /\ born[c] /\ Room
  /\ nuuid' = nuuid + 1
  /\ work' = <<WriteItem(Msg(nuuid + 1, <<1>>, "msg", "m", "", MsgFields("m"), ""))>>
  /\ nodes' = AddNode(0, "msg", "m", "")
  /\ nmsgs' = nmsgs + 1
  /\ Begin(c, "ok", [op |-> "RawWrite", c |-> c])
  /\ UNCHANGED <<acts, cur, blocks, born, base, ids, dests, anyAdded, buffer, gf, reg, offered, ret, nfaults, dev, gh>>

\* a.log(ty, ...) on an explicit, unfinished action (whatever the current context)
CanActionLog(c, a) == Idle /\ born[c] /\ a \in DOMAIN acts /\ ~acts[a].fin
ActionLog(c, a, ty) ==
  /\ CanActionLog(c, a) /\ Room
  /\ acts' = AllocIn(acts, a)
  /\ work' = <<WriteItem(Msg(acts[a].u, LevelIn(acts, a), "msg", ty, "", MsgFields(ty), ""))>>
  /\ nodes' = AddNode(acts[a].node, "msg", ty, "")
  /\ nmsgs' = nmsgs + 1
  /\ Begin(c, "ok", [op |-> "ActionLog", c |-> c, a |-> a, ty |-> ty])
  /\ UNCHANGED <<cur, blocks, born, base, nuuid, ids, dests, anyAdded, buffer, gf, reg, offered, ret, nfaults, dev, gh>>

\* a.add_success_fields(f=...)
AddSuccess(c, a, f) ==
  /\ Idle /\ born[c] /\ a \in DOMAIN acts /\ ~acts[a].fin /\ f \notin acts[a].succ
  /\ acts' = [acts EXCEPT ![a].succ = @ \cup {f}]
  /\ Begin(c, "ok", [op |-> "AddSuccess", c |-> c, a |-> a, f |-> f])
  /\ UNCHANGED <<cur, blocks, born, base, nuuid, ids, dests, anyAdded, buffer, gf, reg, offered, work, ret, nfaults, nmsgs, nodes, dev, gh>>

\* logging through the standard library bridge (eliot.stdlib.EliotHandler): one eliot:stdlib message in the current
\* context, followed by a traceback message when the record carries exc_info
StdlibLog(c, withexc) ==
  /\ CanLog(c) /\ Room
  /\ (cur[c] # 0 => Len(acts[cur[c]].lv) < MaxDepth + 1)
  /\ LET r == LogAllocMsg(c, "eliot:stdlib", {"log_level", "logger", "message"}, "") IN
     /\ acts' = r[1] /\ nuuid' = r[2]
     /\ work' = IF withexc THEN <<[t |-> "tbmsg", o |-> "exc"], WriteItem(r[3])>> ELSE <<WriteItem(r[3])>>
  /\ nodes' = AddNode(NodeOfCur(c), "msg", "eliot:stdlib", "")
  /\ gh' = IF withexc THEN [gh EXCEPT !.ntb = @ + 1] ELSE gh
  /\ nmsgs' = nmsgs + 1
  /\ Begin(c, "ok", [op |-> "StdlibLog", c |-> c, withexc |-> withexc])
  /\ UNCHANGED <<cur, blocks, born, base, ids, dests, anyAdded, buffer, gf, reg, offered, ret, nfaults, dev>>

\* write_traceback() inside an except block
WriteTraceback(c, o) ==
  /\ CanLog(c) /\ Room
  /\ work' = <<[t |-> "tbmsg", o |-> o]>>
  /\ gh' = [gh EXCEPT !.ntb = @ + 1]
  /\ Begin(c, "ok", [op |-> "WriteTraceback", c |-> c, o |-> o])
  /\ UNCHANGED <<acts, cur, blocks, born, base, nuuid, ids, dests, anyAdded, buffer, gf, reg, offered, ret, nfaults, nmsgs, nodes, dev>>

\* current_action().serialize_task_id(): reserves a fresh position
CanSerializeId(c) == Idle /\ born[c] /\ cur[c] # 0 /\ ActOK(c)
SerializeId(c) ==
  /\ CanSerializeId(c) /\ Len(acts[cur[c]].lv) < MaxDepth /\ Len(ids) < MaxIds
  /\ acts' = AllocIn(acts, cur[c])
  /\ ids' = Append(ids, [u |-> acts[cur[c]].u, lv |-> LevelIn(acts, cur[c]), used |-> FALSE, node |-> Len(nodes) + 1, pres |-> FALSE])
  \* the remote action will sit where the id was taken: a placeholder keeps the sibling order of the performed tree
  /\ nodes' = AddNode(acts[cur[c]].node, "act", "eliot:remote_task", "unstarted")
  /\ Begin(c, "ok", [op |-> "SerializeId", c |-> c])
  /\ UNCHANGED <<cur, blocks, born, base, nuuid, dests, anyAdded, buffer, gf, reg, offered, work, ret, nfaults, nmsgs, dev, gh>>

\* Action.continue_task(task_id=ids[i]) in any context (thread, process); each id is continued at most once
CanContinue(c, i) == Idle /\ born[c] /\ i \in DOMAIN ids /\ ~ids[i].used /\ ~ids[i].pres
ContinueTask(c, i) ==
  /\ CanContinue(c, i) /\ Room /\ Len(acts) < MaxActs
  /\ acts' = Append(acts, [u |-> ids[i].u, lv |-> ids[i].lv, last |-> 1, fin |-> FALSE, ty |-> "eliot:remote_task",
                           succ |-> {}, node |-> ids[i].node, inwith |-> FALSE])
  /\ ids' = [ids EXCEPT ![i].used = TRUE]
  /\ work' = <<WriteItem(Msg(ids[i].u, Append(ids[i].lv, 1), "start", "eliot:remote_task", "started", {"sa"}, ""))>>
  /\ nodes' = [nodes EXCEPT ![ids[i].node].st = "started"]
  /\ nmsgs' = nmsgs + 1
  /\ Begin(c, "ok", [op |-> "ContinueTask", c |-> c, i |-> i])
  /\ UNCHANGED <<cur, blocks, born, base, nuuid, dests, anyAdded, buffer, gf, reg, offered, ret, nfaults, dev, gh>>

\* p = preserve_context(f): takes a task id of the current action (if any) and wraps f; f logs one message "m"
CanPreserve(c) == Idle /\ born[c] /\ ActOK(c)
Preserve(c) ==
  /\ CanPreserve(c) /\ Len(ids) < MaxIds
  /\ IF cur[c] = 0
     THEN /\ ids' = Append(ids, [u |-> 0, lv |-> <<>>, used |-> FALSE, node |-> 0, pres |-> TRUE])      \* p is f itself
          /\ UNCHANGED <<acts, nodes>>
     ELSE /\ Len(acts[cur[c]].lv) < MaxDepth
          /\ acts' = AllocIn(acts, cur[c])
          /\ ids' = Append(ids, [u |-> acts[cur[c]].u, lv |-> LevelIn(acts, cur[c]), used |-> FALSE, node |-> Len(nodes) + 1, pres |-> TRUE])
          /\ nodes' = AddNode(acts[cur[c]].node, "act", "eliot:remote_task", "unstarted")
  /\ Begin(c, "ok", [op |-> "Preserve", c |-> c])
  /\ UNCHANGED <<cur, blocks, born, base, nuuid, dests, anyAdded, buffer, gf, reg, offered, work, ret, nfaults, nmsgs, dev, gh>>
\* p(): at most once -- a second invocation raises TooManyCalls; otherwise `with Action.continue_task(task_id): return f()`
CanCallPreserved(c, i) == Idle /\ born[c] /\ i \in DOMAIN ids /\ ids[i].pres /\ (ids[i].u = 0 => ActOK(c))
CallPreserved(c, i) ==
  /\ CanCallPreserved(c, i) /\ Room /\ Len(acts) < MaxActs
  /\ IF ids[i].u = 0
     THEN \* no action was current when p was made: p is f, a plain log_message in the caller's context
          /\ LET r == LogAllocMsg(c, "m", MsgFields("m"), "") IN
             acts' = r[1] /\ nuuid' = r[2] /\ work' = <<WriteItem(r[3])>>
          /\ nodes' = AddNode(NodeOfCur(c), "msg", "m", "") /\ nmsgs' = nmsgs + 1
          /\ Begin(c, "ok", [op |-> "CallPreserved", c |-> c, i |-> i]) /\ UNCHANGED ids
     ELSE IF ids[i].used
     THEN /\ Begin(c, "toomany", [op |-> "CallPreserved", c |-> c, i |-> i])
          /\ UNCHANGED <<acts, nuuid, work, nodes, nmsgs, ids>>
     ELSE /\ acts' = Append(acts, [u |-> ids[i].u, lv |-> ids[i].lv, last |-> 1, fin |-> FALSE, ty |-> "eliot:remote_task",
                                   succ |-> {}, node |-> ids[i].node, inwith |-> FALSE])
          /\ ids' = [ids EXCEPT ![i].used = TRUE]
          /\ work' = <<[t |-> "pc_exit", a |-> Len(acts) + 1, o |-> "ok"], [t |-> "pc_log", a |-> Len(acts) + 1], [t |-> "pc_enter", a |-> Len(acts) + 1],
                       WriteItem(Msg(ids[i].u, Append(ids[i].lv, 1), "start", "eliot:remote_task", "started", {}, ""))>>
          /\ nodes' = [nodes EXCEPT ![ids[i].node].st = "started"]
          /\ nmsgs' = nmsgs + 1 /\ UNCHANGED nuuid
          /\ Begin(c, "ok", [op |-> "CallPreserved", c |-> c, i |-> i])
  /\ UNCHANGED <<cur, blocks, born, base, dests, anyAdded, buffer, gf, reg, offered, ret, nfaults, dev, gh>>

\* f(...) for a function decorated with log_call whose body logs one message: one action of the function's type around the
\* call -- start message with the bound arguments, the body's message inside it, end message with the result, or a failed end
\* and the SAME exception propagating
CanLogCall(c) == Idle /\ born[c] /\ ActOK(c)
LogCall(c, o) ==
  /\ CanLogCall(c) /\ Room /\ Len(acts) < MaxActs /\ o \in {"ok", "exc"}
  /\ (cur[c] # 0 => Len(acts[cur[c]].lv) < MaxDepth)
  /\ LET p == cur[c]
         u == IF p = 0 THEN nuuid + 1 ELSE acts[p].u
         lv == IF p = 0 THEN <<>> ELSE LevelIn(acts, p)
         A0 == IF p = 0 THEN acts ELSE AllocIn(acts, p)
         a == Len(acts) + 1
     IN /\ nuuid' = IF p = 0 THEN nuuid + 1 ELSE nuuid
        /\ acts' = Append(A0, [u |-> u, lv |-> lv, last |-> 1, fin |-> FALSE, ty |-> "LC",
                               succ |-> IF o = "ok" THEN {"result"} ELSE {}, node |-> Len(nodes) + 1, inwith |-> FALSE])
        /\ work' = <<[t |-> "pc_exit", a |-> a, o |-> o], [t |-> "pc_log", a |-> a], [t |-> "pc_enter", a |-> a],
                     WriteItem(Msg(u, Append(lv, 1), "start", "LC", "started", {"x", "y"}, ""))>>
  /\ nodes' = AddNode(NodeOfCur(c), "act", "LC", "started")
  /\ nmsgs' = nmsgs + 1
  /\ Begin(c, IF o = "ok" THEN "ok" ELSE "app", [op |-> "LogCall", c |-> c, o |-> o])
  /\ UNCHANGED <<cur, blocks, born, base, ids, dests, anyAdded, buffer, gf, reg, offered, ret, nfaults, dev, gh>>

\* a new thread starts with no current action; an asyncio task inherits the creator's
Spawn(c, c2, kind) ==
  /\ Idle /\ born[c] /\ ~born[c2]
  /\ born' = [born EXCEPT ![c2] = TRUE]
  /\ cur' = [cur EXCEPT ![c2] = IF kind = "task" THEN cur[c] ELSE 0]
  /\ base' = [base EXCEPT ![c2] = IF kind = "task" THEN cur[c] ELSE 0]
  /\ call' = [c |-> c, v |-> "ok"]
  /\ hist' = Append(hist, [op |-> "Spawn", c |-> c, c2 |-> c2, kind |-> kind])
  /\ UNCHANGED <<acts, blocks, nuuid, ids, dests, anyAdded, buffer, gf, reg, offered, work, ret, nfaults, nmsgs, nodes, dev, gh>>

\* register_exception_extractor(class, f)
Register(c, k) ==
  /\ Idle /\ born[c] /\ k \notin reg
  /\ reg' = reg \cup {k}
  /\ Begin(c, "ok", [op |-> "Register", c |-> c, k |-> k])
  /\ UNCHANGED <<acts, cur, blocks, born, base, nuuid, ids, dests, anyAdded, buffer, gf, offered, work, ret, nfaults, nmsgs, nodes, dev, gh>>

\* add_destinations(*S): the first call drains the buffer into exactly these destinations
AddDests(c, S) ==
  /\ Idle /\ born[c] /\ S \cap Range(dests) = {}          \* S may be empty: add_destinations() with no destination still ends buffering
  /\ IF anyAdded THEN /\ dests' = dests \o SeqOfSet(S) /\ UNCHANGED <<anyAdded, work>>
     ELSE /\ dests' = SeqOfSet(S) /\ anyAdded' = TRUE
          /\ work' = <<[t |-> "redeliver", j |-> 1, errs |-> <<>>]>>
  \* ghost: exactly the destinations of the FIRST call get the most recent Cap earlier messages, in order
  \*        (and, when nothing was dropped from the buffer, they have seen everything: "registered all along" for the invariants)
  /\ gh' = IF anyAdded THEN gh
            ELSE [gh EXCEPT !.expect = [d \in Dest |-> IF d \in S THEN LastN(gh.pre, Cap) ELSE gh.expect[d]],
                            !.init = IF Len(gh.pre) <= Cap /\ Len(gh.pre) <= 64 THEN S ELSE {}]   \* (64: cost of the quadratic invariants)
  /\ Begin(c, "ok", [op |-> "AddDests", c |-> c, S |-> S])
  /\ UNCHANGED <<acts, cur, blocks, born, base, nuuid, ids, buffer, gf, reg, offered, ret, nfaults, nmsgs, nodes, dev>>

RemoveDest(c, d) ==
  /\ Idle /\ born[c] /\ d \in Range(dests)
  /\ dests' = SelectSeq(dests, LAMBDA x : x # d)
  /\ gh' = [gh EXCEPT !.gone = @ \cup {d}]
  /\ Begin(c, "ok", [op |-> "RemoveDest", c |-> c, d |-> d])
  /\ UNCHANGED <<acts, cur, blocks, born, base, nuuid, ids, anyAdded, buffer, gf, reg, offered, work, ret, nfaults, nmsgs, nodes, dev>>

AddGlobal(c, f, v) ==
  /\ Idle /\ born[c] /\ <<f, v>> \notin gf
  /\ gf' = {p \in gf : p[1] # f} \cup {<<f, v>>}
  /\ Begin(c, "ok", [op |-> "AddGlobal", c |-> c, f |-> f, v |-> v])
  /\ UNCHANGED <<acts, cur, blocks, born, base, nuuid, ids, dests, anyAdded, buffer, reg, offered, work, ret, nfaults, nmsgs, nodes, dev, gh>>

-----------------------------------------------------------------------------
(* INTERNAL STEPS of the call in progress (c = call.c)                      *)

Busy == call.c # 0 /\ work # <<>>

\* Action.finish: the end message's position is allocated when it is written (after the extractor ran)
EndMsg ==
  /\ Busy /\ Top.t = "endmsg"
  /\ LET a == Top.a  o == Top.o
         m == IF o = "ok"
              THEN Msg(acts[a].u, LevelIn(acts, a), "end", acts[a].ty, "succeeded", acts[a].succ, "")
              ELSE Msg(acts[a].u, LevelIn(acts, a), "end", acts[a].ty, "failed",
                       {"exception", "reason"} \cup ExtraFieldsIn(reg, o), "")
     IN /\ acts' = AllocIn(acts, a) /\ work' = ReplaceTop(WriteItem(m))
  /\ nmsgs' = nmsgs + 1
  /\ UNCHANGED <<cur, blocks, born, base, nuuid, ids, dests, anyAdded, buffer, gf, reg, offered, call, ret, nfaults, nodes, dev, gh, hist>>

\* Logger.write: copy, run the declared fields' serializers (a step that may raise), then send
NeedsSer(m) == Declared(m) # {} /\ Declared(m) \subseteq m.f
MustFail(m) == ~((Declared(m) \cup DeclaredPlain(m)) \subseteq m.f)     \* declared field missing -> KeyError
WritePlain ==                                                          \* nothing that can fail
  /\ Busy /\ Top.t = "write" /\ ~NeedsSer(Top.m) /\ ~MustFail(Top.m)
  /\ work' = ReplaceTop(SendItem(Top.m))
  /\ gh' = GhostSent(gh, Top.m)
  /\ UNCHANGED <<acts, cur, blocks, born, base, nuuid, ids, dests, anyAdded, buffer, gf, reg, offered, call, ret, nfaults, nmsgs, nodes, dev, hist>>
SerFailWork == Append(Append(Pop, [t |-> "sfmsg"]), [t |-> "tbmsg", o |-> "exc"])    \* traceback first, then serialization_failure
WriteMissing ==
  /\ Busy /\ Top.t = "write" /\ MustFail(Top.m)
  /\ work' = SerFailWork
  /\ gh' = [gh EXCEPT !.nser = @ + 1, !.ntb = @ + 1, !.fail = @ \cup {Key(Top.m)}]
  /\ dev' = dev \cup {"SerFail"}
  /\ UNCHANGED <<acts, cur, blocks, born, base, nuuid, ids, dests, anyAdded, buffer, gf, reg, offered, call, ret, nfaults, nmsgs, nodes, hist>>
Serialize(fail) ==
  /\ Busy /\ Top.t = "write" /\ NeedsSer(Top.m)
  /\ (fail => nfaults < MaxFaults)
  /\ work' = IF fail THEN SerFailWork ELSE ReplaceTop(SendItem(Top.m))
  /\ nfaults' = IF fail THEN nfaults + 1 ELSE nfaults
  /\ hist' = Append(hist, [op |-> "Ser", fail |-> fail])
  /\ gh' = IF fail THEN [gh EXCEPT !.nser = @ + 1, !.ntb = @ + 1, !.fail = @ \cup {Key(Top.m)}]
            ELSE GhostSent(gh, Top.m)
  /\ dev' = IF fail THEN dev \cup {"SerFail"} ELSE dev
  /\ UNCHANGED <<acts, cur, blocks, born, base, nuuid, ids, dests, anyAdded, buffer, gf, reg, offered, call, ret, nmsgs, nodes>>

\* messages the library itself logs in "the current context": traceback, serialization failure, destination failure.
\* NAMED DEVIATION: when the current action is already finished the code still allocates in it.
IntoFinished == cur[call.c] # 0 /\ acts[cur[call.c]].fin
LibMsg(t, ty, f, rep) ==
  /\ Busy /\ Top.t = t
  /\ LET r == LogAllocMsg(call.c, ty, f, rep) IN
     /\ acts' = r[1] /\ nuuid' = r[2]
     /\ work' = ReplaceTop(IF ty = "eliot:traceback" THEN WriteItem(r[3]) ELSE SendItem(r[3]))
     /\ gh' = IF ty = "eliot:traceback" THEN gh ELSE GhostSent(gh, r[3])
  /\ dev' = IF IntoFinished THEN dev \cup {"IntoFinished"} ELSE dev
  /\ nodes' = AddNode(NodeOfCur(call.c), "msg", ty, "")
  /\ nmsgs' = nmsgs + 1
  /\ UNCHANGED <<cur, blocks, born, base, ids, dests, anyAdded, buffer, gf, reg, offered, call, ret, nfaults, hist>>
TbMsg == LibMsg("tbmsg", "eliot:traceback", {"reason", "traceback", "exception"} \cup ExtraFieldsIn(reg, Top.o), "tb")
SfMsg == LibMsg("sfmsg", "eliot:serialization_failure", {"message"}, "sf")

\* Destinations.send before any destination was added: the buffering destination keeps the last Cap messages
BufferAppend ==
  /\ Busy /\ Top.t = "send" /\ ~anyAdded
  /\ buffer' = LastN(Append(buffer, Top.m), Cap)
  /\ work' = Pop
  /\ UNCHANGED <<acts, cur, blocks, born, base, nuuid, ids, dests, anyAdded, gf, reg, offered, call, ret, nfaults, nmsgs, nodes, dev, gh, hist>>

\* one iteration of the first loop of send(): the next destination is called and may raise
Pending(it) == SelectSeq(dests, LAMBDA d : d \notin it.done)
CanDeliver == Busy /\ Top.t = "send" /\ anyAdded /\ Pending(Top) # <<>>
NextDests == IF AnyOrder THEN Range(Pending(Top)) ELSE {Head(Pending(Top))}
Deliver(d, raise) ==
  /\ CanDeliver /\ d \in NextDests /\ (raise => nfaults < MaxFaults)
  /\ offered' = [offered EXCEPT ![d] = Append(@, [m |-> Top.m, raised |-> raise])]
  /\ work' = ReplaceTop([Top EXCEPT !.done = @ \cup {d},
                                   !.errs = IF raise /\ Top.m.rep # "dest" THEN Append(@, d) ELSE @])
  /\ hist' = Append(hist, [op |-> "Deliver", d |-> d, raise |-> raise])
  /\ nfaults' = IF raise THEN nfaults + 1 ELSE nfaults
  /\ UNCHANGED <<acts, cur, blocks, born, base, nuuid, ids, dests, anyAdded, buffer, gf, reg, call, ret, nmsgs, nodes, dev, gh>>
\* a destination raises something that is not an Exception (KeyboardInterrupt while blocked in a write, ...): nothing
\* catches it, the rest of the call is abandoned and it reaches the application.  Outside C07/C08's quantifiers;
\* modelled because the action context must be restored all the same (C04).
DeliverAbort(d) ==
  /\ CanDeliver /\ d \in NextDests /\ nfaults < MaxFaults
  /\ offered' = [offered EXCEPT ![d] = Append(@, [m |-> Top.m, raised |-> TRUE])]
  \* the non-Exception unwinds the whole call -- unless it is raised while a failure report is being logged: that happens inside
  \* `try: log_message(...) except: pass` (a bare except), which swallows it; the loop over the collected errors goes on
  /\ LET R == {i \in DOMAIN work : work[i].t = "report"} IN
       IF R = {} THEN work' = <<>> /\ call' = [call EXCEPT !.v = "abort"]
       ELSE work' = SubSeq(work, 1, CHOOSE i \in R : \A j \in R : j <= i) /\ UNCHANGED call
  /\ dev' = dev \cup {"Abort"}
  /\ hist' = Append(hist, [op |-> "Deliver", d |-> d, raise |-> TRUE, abort |-> TRUE])
  /\ nfaults' = nfaults + 1
  /\ UNCHANGED <<acts, cur, blocks, born, base, nuuid, ids, dests, anyAdded, buffer, gf, reg, ret, nmsgs, nodes, gh>>
\* During the re-delivery of the start-up buffer (the item beneath is the "redeliver" loop) failures are only collected; they
\* are reported when every buffered message has been delivered, so a report -- a NEWER message -- never overtakes an older one.
\* Feature "inline_reports" is the code before the repair F12 (reports inline): TLC must then reject C02_EmissionOrder.
Redelivering == Len(work) >= 2 /\ work[Len(work) - 1].t = "redeliver" /\ "inline_reports" \notin Feat
SendDone ==
  /\ Busy /\ Top.t = "send" /\ anyAdded /\ Pending(Top) = <<>>
  /\ work' = IF Redelivering
             THEN [Pop EXCEPT ![Len(work) - 1].errs = @ \o Top.errs]
             ELSE IF Top.errs = <<>> THEN Pop ELSE ReplaceTop([t |-> "report", errs |-> Top.errs, j |-> 1])
  /\ UNCHANGED <<acts, cur, blocks, born, base, nuuid, ids, dests, anyAdded, buffer, gf, reg, offered, call, ret, nfaults, nmsgs, nodes, dev, gh, hist>>
\* one iteration of the second loop of send(): one eliot:destination_failure per collected error, via log_message
Report ==
  /\ Busy /\ Top.t = "report" /\ Top.j <= Len(Top.errs)
  /\ LET r == LogAllocMsg(call.c, "eliot:destination_failure", {"reason", "exception", "message"}, "dest") IN
     /\ acts' = r[1] /\ nuuid' = r[2]
     /\ work' = Append(ReplaceTop([Top EXCEPT !.j = @ + 1]), SendItem(r[3]))
     /\ gh' = GhostSent(gh, r[3])
  /\ dev' = IF IntoFinished THEN dev \cup {"IntoFinished"} ELSE dev
  /\ nodes' = AddNode(NodeOfCur(call.c), "msg", "eliot:destination_failure", "")
  /\ nmsgs' = nmsgs + 1
  /\ UNCHANGED <<cur, blocks, born, base, ids, dests, anyAdded, buffer, gf, reg, offered, call, ret, nfaults, hist>>
ReportDone ==
  /\ Busy /\ Top.t = "report" /\ Top.j > Len(Top.errs)
  /\ work' = Pop
  /\ UNCHANGED <<acts, cur, blocks, born, base, nuuid, ids, dests, anyAdded, buffer, gf, reg, offered, call, ret, nfaults, nmsgs, nodes, dev, gh, hist>>
\* first add_destinations: re-send every buffered message through send() (global fields merged again)
Redeliver ==
  /\ Busy /\ Top.t = "redeliver"
  /\ work' = IF Top.j <= Len(buffer)
             THEN Append(ReplaceTop([Top EXCEPT !.j = @ + 1]), SendItem(buffer[Top.j]))
             ELSE IF Top.errs = <<>> THEN Pop ELSE ReplaceTop([t |-> "report", errs |-> Top.errs, j |-> 1])
  /\ UNCHANGED <<acts, cur, blocks, born, base, nuuid, ids, dests, anyAdded, buffer, gf, reg, offered, call, ret, nfaults, nmsgs, nodes, dev, gh, hist>>

\* inside p(): enter the continued action, run f (one message), leave it (context restored, then the end message)
PcEnter ==
  /\ Busy /\ Top.t = "pc_enter"
  /\ blocks' = [blocks EXCEPT ![call.c] = Append(@, [kind |-> "with", act |-> Top.a, saved |-> cur[call.c]])]
  /\ cur' = [cur EXCEPT ![call.c] = Top.a]
  /\ acts' = [acts EXCEPT ![Top.a].inwith = TRUE]
  /\ work' = Pop
  /\ UNCHANGED <<born, base, nuuid, ids, dests, anyAdded, buffer, gf, reg, offered, call, ret, nfaults, nmsgs, nodes, dev, gh, hist>>
PcLog ==
  /\ Busy /\ Top.t = "pc_log"
  /\ acts' = AllocIn(acts, Top.a)
  /\ work' = ReplaceTop(WriteItem(Msg(acts[Top.a].u, LevelIn(acts, Top.a), "msg", "m", "", MsgFields("m"), "")))
  /\ nodes' = AddNode(acts[Top.a].node, "msg", "m", "")
  /\ nmsgs' = nmsgs + 1
  /\ UNCHANGED <<cur, blocks, born, base, nuuid, ids, dests, anyAdded, buffer, gf, reg, offered, call, ret, nfaults, dev, gh, hist>>
PcExit ==
  /\ Busy /\ Top.t = "pc_exit"
  /\ LET b == Last(blocks[call.c]) IN
     /\ cur' = [cur EXCEPT ![call.c] = b.saved]
     /\ blocks' = [blocks EXCEPT ![call.c] = Front(@)]
     /\ work' = Pop \o FinishWork(acts, Top.a, Top.o)
     /\ acts' = [MarkFin(acts, Top.a) EXCEPT ![Top.a].inwith = FALSE]
     /\ nodes' = NodeSt(nodes, acts, Top.a, Top.o)
  /\ UNCHANGED <<born, base, nuuid, ids, dests, anyAdded, buffer, gf, reg, offered, call, ret, nfaults, nmsgs, dev, gh, hist>>

\* the public call returns to the application
\* A with-block (or context() block) of action a that was ENTERED in another context -- a generator suspended inside the block,
\* advanced by another thread -- is left by context c (c closes the generator).  ContextVar.reset refuses the foreign token with
\* ValueError before anything else happens: c's current action is untouched, a is not finished, nothing is logged.
\* ("entering, leaving or finishing actions in one never changes current_action() in another", C05)
InBlock(a) == \E c2 \in Ctx : \E i \in DOMAIN blocks[c2] : blocks[c2][i].act = a
CanLeaveElsewhere(c, a) == Idle /\ born[c] /\ a \in DOMAIN acts /\ ~acts[a].fin /\ ~InBlock(a)
LeaveElsewhere(c, a, kind) ==
  /\ CanLeaveElsewhere(c, a) /\ kind \in {"with", "ctx"}
  /\ Begin(c, "refused", [op |-> "LeaveElsewhere", c |-> c, a |-> a, kind |-> kind])
  /\ UNCHANGED <<acts, cur, blocks, born, base, nuuid, ids, dests, anyAdded, buffer, gf, reg, offered, work, ret, nfaults, nmsgs, nodes, dev, gh>>

Return ==
  /\ call.c # 0 /\ work = <<>>
  /\ ret' = call /\ call' = NoCall
  /\ UNCHANGED <<acts, cur, blocks, born, base, nuuid, ids, dests, anyAdded, buffer, gf, reg, offered, work, nfaults, nmsgs, nodes, dev, gh, hist>>

\* internal steps that involve no choice and no harness-visible event
Silent == EndMsg \/ WritePlain \/ WriteMissing \/ TbMsg \/ SfMsg \/ BufferAppend \/ SendDone \/ Report \/ ReportDone \/ Redeliver
          \/ PcEnter \/ PcLog \/ PcExit
SilentEnabled == Busy /\ \/ Top.t \in {"endmsg", "tbmsg", "sfmsg", "report", "redeliver", "pc_enter", "pc_log", "pc_exit"}
                         \/ (Top.t = "write" /\ ~NeedsSer(Top.m))
                         \/ (Top.t = "send" /\ (~anyAdded \/ Pending(Top) = <<>>))

-----------------------------------------------------------------------------
F(x) == x \in Feat
Next ==
  \/ Silent \/ Return
  \/ \E d \in Dest, r \in BOOLEAN : Deliver(d, r) /\ (r => F("dfault"))
  \/ F("abort") /\ \E d \in Dest : DeliverAbort(d)
  \/ \E r \in BOOLEAN : Serialize(r) /\ (r => F("sfault"))
  \/ \E c \in Ctx :
       \/ \E ty \in ActTypes : (ty = "T" => F("typed")) /\ (ty = "E" => F("emptytype")) /\ StartAction(c, ty)
       \/ F("task") /\ \E ty \in {"A", "E"} : (ty = "E" => F("emptytype")) /\ StartTask(c, ty)
       \/ \E a \in DOMAIN acts : \/ Enter(c, "with", a)
                                 \/ F("ctx") /\ Enter(c, "ctx", a)
                                 \/ F("run") /\ Enter(c, "run", a)
                                 \/ F("finish") /\ \E o \in Outcomes : (o \in ExtOutcomes => F("ext")) /\ (o = "x3" => F("mi")) /\ Finish(c, a, o)
                                 \/ F("alog") /\ ActionLog(c, a, "m")
                                 \/ F("succ") /\ \E f \in {"y", "z"} : AddSuccess(c, a, f)
       \/ \E o \in Outcomes : (o \in ExtOutcomes => F("ext")) /\ (o = "x3" => F("mi")) /\ Exit(c, o)
       \/ \E ty \in MsgTypes : (ty \in {"M", "N", "N0"} => F("typed")) /\ (ty \in {"h", "Mh"} => F("hostile")) /\ Log(c, ty)
       \/ F("raw") /\ RawWrite(c)
       \/ F("stdlib") /\ \E b \in BOOLEAN : StdlibLog(c, b)
       \/ F("logcall") /\ \E o \in {"ok", "exc"} : LogCall(c, o)
       \/ F("tb") /\ \E o \in {"exc", "x1"} : (o = "x1" => F("ext")) /\ WriteTraceback(c, o)
       \/ F("ext") /\ \E k \in {"E0", "E1", "E2", "D2"} : (k = "D2" => F("mi")) /\ Register(c, k)
       \/ F("remote") /\ (SerializeId(c) \/ \E i \in DOMAIN ids : ContinueTask(c, i))
       \/ F("preserve") /\ (Preserve(c) \/ \E i \in DOMAIN ids : CallPreserved(c, i))
       \/ F("spawn") /\ \E c2 \in Ctx, k \in {"thread", "task"} : Spawn(c, c2, k)
       \/ F("elsewhere") /\ Len(hist) < 2 * MaxMsgs /\ \E a \in DOMAIN acts, k \in {"with", "ctx"} : LeaveElsewhere(c, a, k)
       \/ F("dests") /\ (\/ \E S \in SUBSET Dest : AddDests(c, S)
                         \/ \E d \in Dest : RemoveDest(c, d)
                         \/ ~F("noglobals") /\ \E f \in {"g1", "g2"}, v \in 1..2 : (f = "g2" => v = 1) /\ (\A p \in gf : p[1] = f => p[2] < v) /\ AddGlobal(c, f, v))
Spec == Init /\ [][Next]_vars

-----------------------------------------------------------------------------
(* PROPERTIES.  Observations are what destinations were offered (`offered`), *)
(* the context variable (`cur`) and call outcomes (`ret`).                  *)

Stream(d)   == [i \in DOMAIN offered[d] |-> offered[d][i].m]
Keys(d)     == [i \in DOMAIN offered[d] |-> Key(offered[d][i].m)]
\* a destination that accepted every message and was registered all along
Healthy(d)  == /\ \A i \in DOMAIN offered[d] : ~offered[d][i].raised
               /\ d \in gh.init /\ d \in Range(dests) /\ d \notin gh.gone
NoSerFail   == "SerFail" \notin dev /\ "Abort" \notin dev
NoDeviation == "IntoFinished" \notin dev
IsPrefix(p, s) == Len(p) <= Len(s) /\ SubSeq(s, 1, Len(p)) = p
\* indices of the messages of S that lie inside action a (strictly below its level, same task)
Under(S, a) == {i \in DOMAIN S : S[i].u = acts[a].u /\ Len(S[i].lv) > Len(acts[a].lv) /\ IsPrefix(acts[a].lv, S[i].lv)}
PosOf(S, a, i) == S[i].lv[Len(acts[a].lv) + 1]
PosIn(S, a) == {PosOf(S, a, i) : i \in Under(S, a)}
Own(S, a, k) == {i \in DOMAIN S : S[i].u = acts[a].u /\ S[i].k = k /\ Front(S[i].lv) = acts[a].lv}
\* positions reserved by serialize_task_id whose remote side has not logged yet
Reserved(a) == {Last(ids[i].lv) : i \in {i \in DOMAIN ids : ids[i].u = acts[a].u /\ Front(ids[i].lv) = acts[a].lv /\ ~ids[i].used}}

---- (* C02: unique, contiguous (task_uuid, task_level) *)
C02_Unique == \A d \in Dest : \A i, j \in DOMAIN offered[d] : i # j => Keys(d)[i] # Keys(d)[j]
C02_Contiguous == (Idle /\ NoSerFail) => \A d \in Dest : Healthy(d) =>
                    \A a \in DOMAIN acts : PosIn(Stream(d), a) \cup Reserved(a) = 1..acts[a].last
C02_StartAtOne == (Idle /\ NoSerFail) => \A d \in Dest : Healthy(d) =>
                    \A a \in DOMAIN acts : \A i \in Own(Stream(d), a, "start") : Last(Stream(d)[i].lv) = 1
EndIsLast == \A d \in Dest : Healthy(d) =>
               \A a \in DOMAIN acts : \A e \in Own(Stream(d), a, "end") :
                  \A p \in PosIn(Stream(d), a) : p <= Last(Stream(d)[e].lv)
C02_EndIsLast == (Idle /\ NoDeviation /\ "Abort" \notin dev) => EndIsLast
C02_EndIsLast_Strict == Idle => EndIsLast        \* expected to FAIL: finding F2 (MC_F2.cfg)
\* every message sits inside an action whose start was emitted before it
C02_Enclosed == NoSerFail => \A d \in Dest : Healthy(d) =>
                  \A i \in DOMAIN offered[d] : LET m == Stream(d)[i] IN
                     Len(m.lv) >= 2 => \E j \in 1..i : LET s == Stream(d)[j] IN
                                           s.u = m.u /\ s.k = "start" /\ s.lv = Append(Front(m.lv), 1)
\* emission order inside an action equals level order (first emission per direct position is increasing);
\* positions continued remotely are exempt
FirstAt(S, a, p) == CHOOSE i \in Under(S, a) : PosOf(S, a, i) = p /\ \A j \in Under(S, a) : PosOf(S, a, j) = p => i <= j
RemotePos(a) == {Last(ids[i].lv) : i \in {i \in DOMAIN ids : ids[i].u = acts[a].u /\ Front(ids[i].lv) = acts[a].lv}}
C02_EmissionOrder == (NoSerFail /\ NoDeviation) => \A d \in Dest : Healthy(d) =>
                       \A a \in DOMAIN acts : \A p, q \in PosIn(Stream(d), a) \ RemotePos(a) :
                          p < q => FirstAt(Stream(d), a, p) < FirstAt(Stream(d), a, q)

---- (* C03: one start, one truthful end *)
C03_OneStartOneEnd == (Idle /\ NoSerFail) => \A d \in Dest : Healthy(d) => \A a \in DOMAIN acts :
                        /\ Cardinality(Own(Stream(d), a, "start")) = 1
                        /\ Cardinality(Own(Stream(d), a, "end")) = IF acts[a].fin THEN 1 ELSE 0
C03_StatusTruthful == (Idle /\ NoSerFail) => \A d \in Dest : Healthy(d) => \A a \in DOMAIN acts :
                        \A e \in Own(Stream(d), a, "end") : Stream(d)[e].st = nodes[acts[a].node].st
C03_FieldPlacement == \A d \in Dest : \A i \in DOMAIN offered[d] : LET m == Stream(d)[i] IN
                        /\ (m.k = "start" /\ m.rep = "") => m.f \cap {"z", "hz", "result", "exception", "reason", "e0", "e1", "e2", "d2"} = {}
                        /\ (m.k = "end" /\ m.st = "failed") => m.f \cap {"z", "hz", "sa", "result"} = {} /\ {"exception", "reason"} \subseteq m.f
                        /\ (m.k = "end" /\ m.st = "succeeded") => m.f \cap {"sa", "exception", "reason", "e0", "e1", "e2"} = {}

---- (* C04 / C05: the context variable *)
C04_Inside == \A c \in Ctx : cur[c] = IF blocks[c] = <<>> THEN base[c] ELSE Last(blocks[c]).act
C04_Restore == [][\A c \in Ctx : (blocks[c] # <<>> /\ blocks'[c] = Front(blocks[c])) => cur'[c] = Last(blocks[c]).saved]_vars
C04_TasksFresh == \A a, b \in DOMAIN acts : (a # b /\ acts[a].lv = <<>> /\ acts[b].lv = <<>>) => acts[a].u # acts[b].u
C05_NoLeak == [][\A c \in Ctx : cur'[c] # cur[c] => (call'.c = c \/ (~born[c] /\ born'[c]))]_vars

---- (* C06: serialized ids *)
C06_IdFresh == /\ \A i, j \in DOMAIN ids : (i # j /\ ids[i].u # 0) => <<ids[i].u, ids[i].lv>> # <<ids[j].u, ids[j].lv>>
               /\ \A i \in DOMAIN ids : \A d \in Dest : \A j \in DOMAIN offered[d] : Keys(d)[j] # <<ids[i].u, ids[i].lv>>

---- (* C07: calls return normally (or with the application's own exception) *)
C07_NeverRaises == ret.v \in {"none", "ok", "app", "toomany"} \/ (ret.v = "abort" /\ "Abort" \in dev)

---- (* C08 / C12: every destination is offered exactly what it should be, once, in order *)
C08_OnceEachInOrder == (Idle /\ "Abort" \notin dev) => \A d \in Dest : Keys(d) = gh.expect[d]
RaisedCount == Cardinality({<<d, i>> \in Dest \X (1..(MaxMsgs + 2 * MaxFaults + 2)) :
                              i \in DOMAIN offered[d] /\ offered[d][i].raised /\ offered[d][i].m.rep # "dest"})
ReportKeys  == UNION {{Keys(d)[i] : i \in {i \in DOMAIN offered[d] : offered[d][i].m.rep = "dest"}} : d \in Dest}
C08_OneReportPerFailure == (Idle /\ anyAdded /\ dests # <<>> /\ "Abort" \notin dev) => Cardinality(ReportKeys) = RaisedCount
C12_BufferIsRecent == (Idle /\ ~anyAdded) => [i \in DOMAIN buffer |-> Key(buffer[i])] = LastN(gh.pre, Cap)
C12_GlobalFields == \A d \in Dest : \A i \in DOMAIN offered[d] : TRUE   \* carried in m.g; compared on traces

---- (* C13: serializer failures are contained *)
C13_FailedNotDelivered == \A d \in Dest : \A i \in DOMAIN offered[d] : Keys(d)[i] \notin gh.fail
C13_FailureReports == (Idle /\ "Abort" \notin dev) => \A d \in Dest : Healthy(d) =>
     /\ Cardinality({i \in DOMAIN offered[d] : Stream(d)[i].rep = "sf"}) = gh.nser
     /\ Cardinality({i \in DOMAIN offered[d] : Stream(d)[i].rep = "tb"}) = gh.ntb

---- (* C01: the emitted stream decodes to the performed forest *)
\* performed forest, canonical: <<kind, ty, st, <<children>>>> with children in performance order
Kids(n) == SelectSeq([i \in DOMAIN nodes |-> i], LAMBDA i : nodes[i].par = n /\ nodes[i].st # "unstarted")
RECURSIVE PTree(_)
PTree(n) == <<nodes[n].kind, nodes[n].ty, nodes[n].st, [i \in DOMAIN Kids(n) |-> PTree(Kids(n)[i])]>>
Performed == [i \in DOMAIN Kids(0) |-> PTree(Kids(0)[i])]
\* decoding of a stream by (task_uuid, task_level) alone
TaskOrder(S) == SelectSeq([i \in DOMAIN S |-> S[i].u], LAMBDA u : TRUE)
RECURSIVE Dedup(_)
Dedup(s) == IF s = <<>> THEN <<>> ELSE LET r == Dedup(Front(s)) IN IF Last(s) \in Range(r) THEN r ELSE Append(r, Last(s))
RECURSIVE DTree(_, _, _)
DKidPos(S, u, l) == {S[i].lv[Len(l) + 1] : i \in {i \in DOMAIN S : S[i].u = u /\ Len(S[i].lv) > Len(l) /\ IsPrefix(l, S[i].lv)
                                                                  /\ ~(Len(S[i].lv) = Len(l) + 1 /\ S[i].k # "msg")}}
DTree(S, u, l) ==      \* the action at level l of task u
  LET st0 == {S[i].st : i \in {i \in DOMAIN S : S[i].u = u /\ S[i].k = "end" /\ Front(S[i].lv) = l}}
      ty0 == {S[i].ty : i \in {i \in DOMAIN S : S[i].u = u /\ S[i].k # "msg" /\ Front(S[i].lv) = l}}
      ps  == SeqOfSet(DKidPos(S, u, l))
      kid(p) == LET ll == Append(l, p)
                    ms == {i \in DOMAIN S : S[i].u = u /\ S[i].lv = ll /\ S[i].k = "msg"}
                IN IF ms # {} THEN <<"msg", S[CHOOSE i \in ms : TRUE].ty, "", <<>>>> ELSE DTree(S, u, ll)
  IN <<"act", IF ty0 = {} THEN "?" ELSE CHOOSE t \in ty0 : TRUE,
       IF st0 = {} THEN "started" ELSE CHOOSE s \in st0 : TRUE, [i \in DOMAIN ps |-> kid(ps[i])]>>
DRoot(S, u) == LET ms == {i \in DOMAIN S : S[i].u = u /\ S[i].lv = <<1>> /\ S[i].k = "msg"} IN
               IF ms # {} THEN <<"msg", S[CHOOSE i \in ms : TRUE].ty, "", <<>>>> ELSE DTree(S, u, <<>>)
Decoded(S) == LET us == Dedup(TaskOrder(S)) IN [i \in DOMAIN us |-> DRoot(S, us[i])]
C01_RoundTrip == (Idle /\ NoSerFail /\ NoDeviation) => \A d \in Dest : Healthy(d) => Decoded(Stream(d)) = Performed

=============================================================================
