------------------------------ MODULE FanoutA ------------------------------
(* Level A for Destinations.send used by several threads at once (the concurrent side of C08): evaluated on a          *)
(* recorded history of real threads: deliver(d, key, kind, raised) events by the harness destinations, where key      *)
(* identifies the message and kind is "msg" (an application message) or "report" (eliot:destination_failure).         *)
(*   once:      every application message is offered exactly once to every registered destination                    *)
(*   reported:  the number of distinct failure reports equals the number of failed deliveries of application          *)
(*              messages (one report per failure, none for failures of reports), whatever the interleaving            *)
(*   fanout:    every report is offered exactly once to every destination                                            *)
EXTENDS Naturals, Sequences, FiniteSets, TLC, Json, IOUtils, TLCExt
TraceFile == JsonDeserialize(IOEnv.TRACE_FILE)
Traces == TraceFile.traces
VARIABLES tid, done
E == Traces[tid].ev
Dests == {Traces[tid].dests[i] : i \in DOMAIN Traces[tid].dests}
Del == {i \in DOMAIN E : E[i].e = "deliver"}
Keys(kind) == {E[i].key : i \in {i \in Del : E[i].kind = kind}}
Count(d, key) == Cardinality({i \in Del : E[i].d = d /\ E[i].key = key})
Failures == Cardinality({i \in Del : E[i].kind = "msg" /\ E[i].raised})
Clause == IF \E d \in Dests : \E k \in Keys("msg") : Count(d, k) # 1 THEN "message_not_offered_exactly_once"
          ELSE IF Cardinality(Keys("msg")) # Traces[tid].sent THEN "message_lost"
          ELSE IF Cardinality(Keys("report")) # Failures THEN "reports_do_not_match_failures"
          ELSE IF \E d \in Dests : \E k \in Keys("report") : Count(d, k) # 1 THEN "report_not_offered_exactly_once"
          \* typed messages whose serializer fails (C13 under interleavings): never delivered themselves (counted in `sent` they are
          \* not), exactly one eliot:traceback and one eliot:serialization_failure each, offered once to every destination
          ELSE IF Cardinality(Keys("sf")) # Traces[tid].serfails THEN "serialization_failure_messages_do_not_match_failures"
          ELSE IF Cardinality(Keys("tb")) # Traces[tid].serfails THEN "traceback_messages_do_not_match_failures"
          ELSE IF \E d \in Dests : \E k \in Keys("sf") \cup Keys("tb") : Count(d, k) # 1 THEN "serialization_report_not_offered_exactly_once"
          ELSE ""
Init == tid \in DOMAIN Traces /\ done = FALSE
Next == ~done /\ PrintT(<<"ACC", tid, Clause>>) /\ done' = TRUE /\ UNCHANGED tid
Spec == Init /\ [][Next]_<<tid, done>>
=============================================================================
