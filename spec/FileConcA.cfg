SPECIFICATION Spec
CONSTANT Strict = TRUE
CHECK_DEADLOCK FALSE
