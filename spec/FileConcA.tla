------------------------------ MODULE FileConcA ------------------------------
(* Level A for concurrent (and sequential) use of one FileDestination: the sequence of write() calls the file object *)
(* received, each classified by the harness as a WHOLE line of message id, the HEAD of a line (payload without its   *)
(* line break), a TAIL (a lone line break) or garbage.  Accepted iff the file is always a sequence of whole lines    *)
(* followed by at most one head whose own tail comes next (never torn or merged), every message appears exactly     *)
(* once, and -- when Strict -- every line is handed over in ONE write (C10) followed by a flush by the same thread    *)
(* before that thread's call returns.  Verdict: <<"ACC", tid, clause>>.                                              *)
EXTENDS Naturals, Sequences, FiniteSets, TLC, Json, IOUtils, TLCExt
CONSTANT Strict
TraceFile == JsonDeserialize(IOEnv.TRACE_FILE)
Traces == TraceFile.traces
VARIABLES tid, l, open, owner, lines, unflushed, bad
vars == <<tid, l, open, owner, lines, unflushed, bad>>
Events == Traces[tid].ev
N == Len(Events)
Ev == Events[l]
ToSet(s) == {s[i] : i \in DOMAIN s}
Init == tid \in DOMAIN Traces /\ l = 1 /\ open = 0 /\ owner = "" /\ lines = <<>> /\ unflushed = {} /\ bad = ""
Clause == IF Ev.k = "garbage" THEN "garbage_written"
          ELSE IF Ev.k = "whole" /\ open # 0 THEN "line_merged_into_open_line"
          ELSE IF Ev.k = "head" /\ open # 0 THEN "line_merged_into_open_line"
          ELSE IF Ev.k = "head" /\ Strict THEN "line_not_in_one_write"
          ELSE IF Ev.k = "tail" /\ (open = 0 \/ owner # Ev.t) THEN "torn_line"
          ELSE ""
Step == /\ l <= N /\ bad = ""
        /\ IF Clause # "" THEN bad' = Clause /\ UNCHANGED <<tid, l, open, owner, lines, unflushed>>
           ELSE /\ l' = l + 1 /\ UNCHANGED <<tid, bad>>
                /\ CASE Ev.k = "whole" -> lines' = Append(lines, Ev.id) /\ unflushed' = unflushed \cup {Ev.t} /\ UNCHANGED <<open, owner>>
                     [] Ev.k = "head"  -> open' = Ev.id /\ owner' = Ev.t /\ UNCHANGED <<lines, unflushed>>
                     [] Ev.k = "tail"  -> lines' = Append(lines, open) /\ open' = 0 /\ owner' = "" /\ unflushed' = unflushed \cup {Ev.t}
                     [] Ev.k = "flush" -> unflushed' = unflushed \ {Ev.t} /\ UNCHANGED <<open, owner, lines>>
                     [] Ev.k = "return" -> UNCHANGED <<open, owner, lines, unflushed>>
FinalClause == IF bad # "" THEN bad
               ELSE IF open # 0 THEN "unterminated_line"
               ELSE IF Len(lines) # Cardinality(ToSet(lines)) THEN "duplicated_line"
               ELSE IF ToSet(lines) # ToSet(Traces[tid].final.expected) THEN "dropped_or_foreign_line"
               ELSE IF ~Traces[tid].final.wellformed THEN "file_not_lines_of_json"
               ELSE IF Strict /\ unflushed # {} THEN "write_without_flush"
               ELSE ""
Done == /\ (l = N + 1 \/ bad # "") /\ l <= N + 1
        /\ PrintT(<<"ACC", tid, FinalClause>>)
        /\ l' = N + 2 /\ UNCHANGED <<tid, open, owner, lines, unflushed, bad>>
Spec == Init /\ [][Step \/ Done]_vars
=============================================================================
