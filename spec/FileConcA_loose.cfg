SPECIFICATION Spec
CONSTANT Strict = FALSE
CHECK_DEADLOCK FALSE
