------------------------------ MODULE FileDest ------------------------------
(***************************************************************************)
(* FileDestination.__call__ over a buffered file, and process death.       *)
(*                                                                         *)
(*   for every message k = 1..N offered by the logging calls:              *)
(*       data = dumps(message) + linebreak        (may raise: no line)     *)
(*       file.write(data)      -- ONE call; the data goes to the process's *)
(*                                buffer; when it does not fit, a prefix   *)
(*                                spills to the kernel                     *)
(*       file.flush()          -- everything buffered reaches the kernel   *)
(*       return                -- the logging call returns (acknowledged)  *)
(*   Crash may happen in ANY state: the process's buffer is lost, what the *)
(*   kernel has stays (process death, not power loss).                     *)
(*                                                                         *)
(* FlushPolicy = "always" is the code.  "skip_some" is a broken sibling    *)
(* (flush skipped for some messages), "late" another (flush after the      *)
(* call returned), "swallow" a third (a failing flush is swallowed and the *)
(* call returns): TLC must reject all three.                               *)
(***************************************************************************)
EXTENDS Naturals, Sequences, FiniteSets, TLC
CONSTANTS N, FlushPolicy, MayFail,
          MayFlushFail   \* flush() may raise once per logging call (a transient I/O fault, e.g. ENOSPC): nothing reaches the kernel
VARIABLES k,        \* message being written (1..N), N+1 when the program is over
          pc,       \* "idle" | "written" | "flushed"
          ubuf,     \* process buffer: sequence of pieces [id, part] with part \in {"whole", "tail"}
          kfile,    \* kernel: sequence of pieces [id, part], part \in {"whole", "head"}
          acked,    \* ids whose logging call has returned
          failed,   \* ids whose dumps() raised (no line is due)
          crashed,
          writes,   \* number of write() calls made for the current message
          ffail     \* a flush has already failed in the current logging call
vars == <<k, pc, ubuf, kfile, acked, failed, crashed, writes, ffail>>
Piece(i, p) == [id |-> i, part |-> p]
Init == k = 1 /\ pc = "idle" /\ ubuf = <<>> /\ kfile = <<>> /\ acked = {} /\ failed = {} /\ crashed = FALSE /\ writes = 0 /\ ffail = FALSE
Alive == ~crashed /\ k <= N
\* dumps() raises (value not encodable): no line is due for this message; the failure is reported elsewhere, the call returns
DumpsFail == /\ Alive /\ pc = "idle" /\ MayFail
             /\ failed' = failed \cup {k} /\ acked' = acked \cup {k} /\ k' = k + 1
             /\ UNCHANGED <<pc, ubuf, kfile, crashed, writes, ffail>>
\* dumps() succeeded; the single write: the whole line is buffered, or (big line) its head goes straight to the kernel and the
\* rest is buffered
Write(spill) == /\ Alive /\ pc = "idle"
                /\ IF spill /\ ubuf = <<>>
                   THEN kfile' = Append(kfile, Piece(k, "head")) /\ ubuf' = <<Piece(k, "tail")>>
                   ELSE ubuf' = Append(ubuf, Piece(k, "whole")) /\ UNCHANGED kfile
                /\ pc' = "written" /\ writes' = writes + 1
                /\ UNCHANGED <<k, acked, failed, crashed, ffail>>
\* flush: buffered pieces reach the kernel in order; a tail completes the head already there
Drain == LET merge(kf, p) == IF p.part = "tail" THEN [kf EXCEPT ![Len(kf)] = Piece(p.id, "whole")] ELSE Append(kf, p)
             RECURSIVE go(_, _)
             go(kf, u) == IF u = <<>> THEN kf ELSE go(merge(kf, Head(u)), Tail(u))
         IN go(kfile, ubuf)
Flush == /\ Alive /\ pc = "written"
         /\ (FlushPolicy = "skip_some" => k % 2 = 0)          \* broken sibling: odd messages are not flushed
         /\ FlushPolicy # "late"
         /\ kfile' = Drain /\ ubuf' = <<>> /\ pc' = "flushed"
         /\ UNCHANGED <<k, acked, failed, crashed, writes, ffail>>
\* flush() raises (transient fault): the line stays in the process's buffer.  The exception leaves FileDestination.__call__, the
\* fan-out catches it and reports it THROUGH THE SAME DESTINATION: the report is the next message, written and flushed before the
\* logging call returns -- which also takes the stranded line to the kernel.  (Swallowing the error instead would let the call
\* return with the line only in user space.)
FlushFail == /\ Alive /\ pc = "written" /\ MayFlushFail /\ ~ffail /\ FlushPolicy \in {"always", "swallow"} /\ k < N
             /\ pc' = "flushfailed" /\ ffail' = TRUE
             /\ UNCHANGED <<k, ubuf, kfile, acked, failed, crashed, writes>>
WriteReport == /\ Alive /\ pc = "flushfailed" /\ FlushPolicy # "swallow"
               /\ k' = k + 1 /\ ubuf' = Append(ubuf, Piece(k + 1, "whole")) /\ pc' = "written" /\ writes' = 1
               /\ UNCHANGED <<kfile, acked, failed, crashed, ffail>>
Return == /\ Alive /\ (pc = "flushed" \/ (pc = "written" /\ (FlushPolicy = "late" \/ (FlushPolicy = "skip_some" /\ k % 2 = 1))))
          /\ acked' = acked \cup {k} /\ k' = k + 1 /\ pc' = "idle" /\ writes' = 0 /\ ffail' = FALSE
          /\ UNCHANGED <<ubuf, kfile, failed, crashed>>
\* broken sibling "swallow": the flush error is swallowed and the call returns (TLC must reject it)
SwallowReturn == /\ FlushPolicy = "swallow" /\ Alive /\ pc = "flushfailed"
                 /\ acked' = acked \cup {k} /\ k' = k + 1 /\ pc' = "idle" /\ writes' = 0 /\ ffail' = FALSE
                 /\ UNCHANGED <<ubuf, kfile, failed, crashed>>
LateFlush == /\ FlushPolicy = "late" /\ Alive /\ pc = "idle" /\ ubuf # <<>>
             /\ kfile' = Drain /\ ubuf' = <<>> /\ UNCHANGED <<k, pc, acked, failed, crashed, writes, ffail>>
Crash == /\ ~crashed /\ crashed' = TRUE /\ ubuf' = <<>>
         /\ UNCHANGED <<k, pc, kfile, acked, failed, writes, ffail>>
Next == Crash \/ FlushFail \/ WriteReport \/ SwallowReturn \/ Flush \/ Return \/ LateFlush \/ DumpsFail \/ \E b \in BOOLEAN : Write(b)
Spec == Init /\ [][Next]_vars

Complete == SelectSeq(kfile, LAMBDA p : p.part = "whole")
Ids(s) == [i \in DOMAIN s |-> s[i].id]
Range(s) == {s[i] : i \in DOMAIN s}
Due == SelectSeq([i \in 1..N |-> i], LAMBDA i : i \notin failed)
IsPrefix(p, s) == Len(p) <= Len(s) /\ SubSeq(s, 1, Len(p)) = p
\* C11: whatever happens, every acknowledged message that produced a line is in the kernel's file as a complete line
C11_AckedDurable == \A i \in acked \ failed : i \in Range(Ids(Complete))
\* complete lines are the due messages, in order, without gaps
C11_InOrderPrefix == IsPrefix(Ids(Complete), Due)
\* at most one incomplete fragment, at the very end, belonging to the next due message
C11_AtMostOneFragment == \A i \in DOMAIN kfile : kfile[i].part = "head" =>
                            (i = Len(kfile) /\ Len(Complete) < Len(Due) /\ kfile[i].id = Due[Len(Complete) + 1])
\* C10: one write per line, then a flush before the call returns (a reader between calls never sees a partial line)
C10_OneWriteThenFlush == /\ writes <= 1
                         /\ (~crashed /\ pc = "idle" /\ FlushPolicy = "always") => (ubuf = <<>> /\ \A i \in DOMAIN kfile : kfile[i].part = "whole")
=============================================================================
