-------------------------------- MODULE Gen --------------------------------
(***************************************************************************)
(* Generators decorated with eliot_friendly_generator_function (C15).      *)
(*                                                                         *)
(* Drivers (1..ND) are execution contexts, each with its own stack of      *)
(* entered actions.  A generator (1..NG) has a body program: a sequence of *)
(* steps "enter" (start_action + with), "exit", "log", "yield" (a thrown   *)
(* exception propagates), "ycatch" (a thrown exception is caught and the   *)
(* body goes on), "sub" (create and resume once the next generator, i.e.   *)
(* nested decorated generators); falling off the end returns.              *)
(* The decorated generator runs its body in a PRIVATE context: a copy of   *)
(* the context current at its FIRST resumption, plus whatever the body     *)
(* entered since; resuming never touches the resumer's context.            *)
(* A resumption is a sequence of small steps: `run` is the stack of who is *)
(* executing (a driver at the bottom, then generators resumed from it).    *)
(***************************************************************************)
EXTENDS Naturals, Sequences, FiniteSets, TLC
CONSTANTS ND, NG, Bodies, MaxActs, MaxOps
VARIABLES
  dstack,   \* [driver -> Seq of action ids]  actions the driver has entered (current = last)
  body,     \* [gen -> Seq of step names]
  gst,      \* [gen -> "none" | "created" | "suspended" | "running" | "done"]
  gctx,     \* [gen -> Seq of action ids]  the generator's private context: inherited bottom .. entered since
  gbase,    \* [gen -> Nat]  how many entries of gctx were inherited at the first resumption
  gpc,      \* [gen -> next body step]
  gin,      \* [gen -> what the pending resumption delivers: "next" | "send" | "throw" | "close" | "none"]
  acts,     \* Seq of [par, by]: created actions: parent action id (0 = new task), creator ("d1".. / "g1"..)
  logs,     \* Seq of [par, by]: messages logged
  finished, \* set of action ids whose with-block was left, with outcome: [a -> "ok" | "failed"] as a function
  run,      \* [driver -> Seq of gens]  generators currently executing on behalf of that driver (innermost last)
  out,      \* [driver -> outcome of its last operation: "ok" | "yield" | "stop" | "raised" | "closed"]
  nops,
  hist      \* driver operations so far (for replay; hidden by VIEW when model checking)
vars == <<dstack, body, gst, gctx, gbase, gpc, gin, acts, logs, finished, run, out, nops, hist>>
view == <<dstack, body, gst, gctx, gbase, gpc, gin, acts, logs, finished, run, out, nops>>
D == 1..ND
G == 1..NG
Last(s) == s[Len(s)]
Front(s) == SubSeq(s, 1, Len(s) - 1)
TopOr0(s) == IF s = <<>> THEN 0 ELSE Last(s)

Init == /\ dstack = [d \in D |-> <<>>] /\ body \in [G -> Bodies] /\ gst = [g \in G |-> "none"]
        /\ gctx = [g \in G |-> <<>>] /\ gbase = [g \in G |-> 0] /\ gpc = [g \in G |-> 1] /\ gin = [g \in G |-> "none"]
        /\ acts = <<>> /\ logs = <<>> /\ finished = <<>> /\ run = [d \in D |-> <<>>] /\ out = [d \in D |-> "ok"] /\ nops = 0 /\ hist = <<>>

\* resumptions are atomic w.r.t. each other: drivers interleave between resumptions, not inside a body step sequence
Idle(d) == \A e \in D : run[e] = <<>>
\* ---- driver operations (only when nothing is executing on its behalf)
DEnter(d) == /\ Idle(d) /\ Len(acts) < MaxActs /\ nops < MaxOps
             /\ acts' = Append(acts, [par |-> TopOr0(dstack[d]), by |-> <<"d", d>>])
             /\ dstack' = [dstack EXCEPT ![d] = Append(@, Len(acts) + 1)]
             /\ out' = [out EXCEPT ![d] = "ok"] /\ nops' = nops + 1 /\ hist' = Append(hist, [op |-> "DEnter", d |-> d])
             /\ UNCHANGED <<body, gst, gctx, gbase, gpc, gin, logs, finished, run>>
DExit(d) == /\ Idle(d) /\ dstack[d] # <<>> /\ nops < MaxOps
            /\ finished' = Append(finished, [a |-> Last(dstack[d]), st |-> "ok"])
            /\ dstack' = [dstack EXCEPT ![d] = Front(@)]
            /\ out' = [out EXCEPT ![d] = "ok"] /\ nops' = nops + 1 /\ hist' = Append(hist, [op |-> "DExit", d |-> d])
            /\ UNCHANGED <<body, gst, gctx, gbase, gpc, gin, acts, logs, run>>
\* calling the decorated generator function: no body code runs yet
Create(d, g) == /\ Idle(d) /\ gst[g] = "none" /\ nops < MaxOps
                /\ gst' = [gst EXCEPT ![g] = "created"]
                /\ out' = [out EXCEPT ![d] = "ok"] /\ nops' = nops + 1 /\ hist' = Append(hist, [op |-> "Create", d |-> d, g |-> g])
                /\ UNCHANGED <<dstack, body, gctx, gbase, gpc, gin, acts, logs, finished, run>>
\* the context a resumption comes from: the resuming driver's, or the resuming generator's private one
\* next(g) / g.send(v) / g.throw(e) / g.close()
CanResume(g, how) == /\ gst[g] \in {"created", "suspended"}
                     /\ (gst[g] = "created" => how \in {"next", "throw", "close"})
StartResume(g, how, fromctx) ==
  /\ gst' = [gst EXCEPT ![g] = "running"]
  /\ gin' = [gin EXCEPT ![g] = how]
  /\ IF gst[g] = "created"
     THEN gctx' = [gctx EXCEPT ![g] = fromctx] /\ gbase' = [gbase EXCEPT ![g] = Len(fromctx)]     \* copy_context() at first resumption
     ELSE UNCHANGED <<gctx, gbase>>
Resume(d, g, how) ==
  /\ Idle(d) /\ CanResume(g, how) /\ nops < MaxOps
  /\ StartResume(g, how, dstack[d])
  /\ run' = [run EXCEPT ![d] = <<g>>] /\ nops' = nops + 1 /\ hist' = Append(hist, [op |-> "Resume", d |-> d, g |-> g, how |-> how])
  /\ UNCHANGED <<dstack, body, gpc, acts, logs, finished, out>>

\* ---- body steps of the innermost executing generator of driver d
Cur(d) == Last(run[d])
Step(g) == IF gpc[g] <= Len(body[g]) THEN body[g][gpc[g]] ELSE "return"
Tag(g) == <<"g", g>>
\* leaving the generator: control goes back to the resumer (the enclosing generator, or the driver)
Leave(d, g, result) ==
  /\ run' = [run EXCEPT ![d] = Front(@)]
  /\ IF Len(run[d]) = 1 THEN out' = [out EXCEPT ![d] = result] ELSE UNCHANGED out
\* unwinding the generator's own with-blocks (exception / close): they finish as failed, innermost first, IN ITS CONTEXT
Unwind(g) == LET own == SubSeq(gctx[g], gbase[g] + 1, Len(gctx[g])) IN
             [i \in 1..Len(own) |-> [a |-> own[Len(own) + 1 - i], st |-> "failed"]]
\* a pending throw / close is delivered where the generator is suspended (or before its first step)
Deliver(d) ==
  /\ run[d] # <<>> /\ gin[Cur(d)] \in {"throw", "close"}
  /\ LET g == Cur(d)
         atcatch == gst[g] = "running" /\ gpc[g] > 1 /\ gpc[g] - 1 <= Len(body[g]) /\ body[g][gpc[g] - 1] = "ycatch" /\ gin[g] = "throw"
     IN IF atcatch
        THEN /\ gin' = [gin EXCEPT ![g] = "none"] /\ UNCHANGED <<gst, gctx, finished, run, out>>       \* caught: the body goes on
        ELSE /\ finished' = finished \o Unwind(g)
             /\ gctx' = [gctx EXCEPT ![g] = SubSeq(@, 1, gbase[g])]
             /\ gst' = [gst EXCEPT ![g] = "done"] /\ gin' = [gin EXCEPT ![g] = "none"]
             /\ Leave(d, g, IF gin[g] = "close" THEN "closed" ELSE "raised")
  /\ UNCHANGED <<dstack, body, gbase, gpc, acts, logs, nops, hist>>
BodyStep(d) ==
  /\ run[d] # <<>> /\ gin[Cur(d)] \in {"next", "send", "none"}
  /\ LET g == Cur(d)  s == Step(g)  clear == [gin EXCEPT ![g] = "none"] IN
     /\ (~(s = "sub" /\ g < NG /\ gst[g + 1] \in {"none", "created", "suspended"}) => gin' = clear)
     /\ CASE s = "enter" -> /\ Len(acts) < MaxActs
                            /\ acts' = Append(acts, [par |-> TopOr0(gctx[g]), by |-> Tag(g)])
                            /\ gctx' = [gctx EXCEPT ![g] = Append(@, Len(acts) + 1)]
                            /\ gpc' = [gpc EXCEPT ![g] = @ + 1]
                            /\ UNCHANGED <<gst, logs, finished, run, out>>
          [] s = "exit"  -> IF Len(gctx[g]) > gbase[g]
                            THEN /\ finished' = Append(finished, [a |-> Last(gctx[g]), st |-> "ok"])
                                 /\ gctx' = [gctx EXCEPT ![g] = Front(@)] /\ gpc' = [gpc EXCEPT ![g] = @ + 1]
                                 /\ UNCHANGED <<gst, acts, logs, run, out>>
                            ELSE /\ gpc' = [gpc EXCEPT ![g] = @ + 1]                 \* nothing of its own to leave: a no-op step
                                 /\ UNCHANGED <<gst, gctx, acts, logs, finished, run, out>>
          [] s = "log"   -> /\ logs' = Append(logs, [par |-> TopOr0(gctx[g]), by |-> Tag(g)])
                            /\ gpc' = [gpc EXCEPT ![g] = @ + 1]
                            /\ UNCHANGED <<gst, gctx, acts, finished, run, out>>
          [] s \in {"yield", "ycatch"} ->
                            /\ gst' = [gst EXCEPT ![g] = "suspended"] /\ gpc' = [gpc EXCEPT ![g] = @ + 1]
                            /\ Leave(d, g, "yield")
                            /\ UNCHANGED <<gctx, acts, logs, finished>>
          [] s = "sub"   -> \* the body creates the next generator (if not yet) and resumes it once, as a driver would
                            IF g < NG /\ gst[g + 1] \in {"none", "created", "suspended"}
                            THEN /\ gst' = [gst EXCEPT ![g + 1] = "running"]
                                 /\ gin' = [gin EXCEPT ![g] = "none", ![g + 1] = "next"]
                                 /\ IF gst[g + 1] \in {"none", "created"}
                                    THEN gctx' = [gctx EXCEPT ![g + 1] = gctx[g]] /\ gbase' = [gbase EXCEPT ![g + 1] = Len(gctx[g])]
                                    ELSE UNCHANGED <<gctx, gbase>>
                                 /\ run' = [run EXCEPT ![d] = Append(@, g + 1)]
                                 /\ gpc' = [gpc EXCEPT ![g] = @ + 1]
                                 /\ UNCHANGED <<acts, logs, finished, out>>
                            ELSE /\ gpc' = [gpc EXCEPT ![g] = @ + 1] /\ UNCHANGED <<gst, gctx, gbase, acts, logs, finished, run, out>>
          [] s = "return" -> \* with-blocks still open at the end are left normally
                            /\ finished' = finished \o [i \in 1..(Len(gctx[g]) - gbase[g]) |-> [a |-> gctx[g][Len(gctx[g]) + 1 - i], st |-> "ok"]]
                            /\ gctx' = [gctx EXCEPT ![g] = SubSeq(@, 1, gbase[g])]
                            /\ gst' = [gst EXCEPT ![g] = "done"]
                            /\ Leave(d, g, "stop")
                            /\ UNCHANGED <<gpc, acts, logs>>
  /\ UNCHANGED <<dstack, body, nops, hist>> /\ (Step(Cur(d)) # "sub" => UNCHANGED gbase)
Next == \E d \in D : \/ DEnter(d) \/ DExit(d) \/ Deliver(d) \/ BodyStep(d)
                     \/ \E g \in G : Create(d, g) \/ \E how \in {"next", "send", "throw", "close"} : Resume(d, g, how)
Spec == Init /\ [][Next]_vars

-----------------------------------------------------------------------------
Range(s) == {s[i] : i \in DOMAIN s}
ByGen(a) == acts[a].by[1] = "g"
\* C15: resuming a generator never changes the resumer's current action, and what a body enters never becomes current in a driver
C15_DriverUnchanged == [][\A d \in D : (run[d] # <<>> \/ run'[d] # <<>>) => dstack'[d] = dstack[d]]_vars
C15_NoLeakIntoDrivers == \A d \in D : \A i \in DOMAIN dstack[d] : ~ByGen(dstack[d][i])
\* C15: the body always runs in the generator's own context: whatever it inherited at its first resumption stays at the bottom
C15_BodyContextOwn == [][\A g \in G : (gst[g] \in {"suspended", "running"} /\ gst'[g] \in {"suspended", "running"})
                                        => (gbase'[g] = gbase[g] /\ SubSeq(gctx'[g], 1, gbase[g]) = SubSeq(gctx[g], 1, gbase[g]))]_vars
\* every action a body started is a child of what was current in that generator's context, and is finished exactly once at most
C15_ParentInOwnContext == \A a \in DOMAIN acts : ByGen(a) => (acts[a].par = 0 \/ acts[a].par < a)
C15_FinishedOnce == \A i, j \in DOMAIN finished : i # j => finished[i].a # finished[j].a
=============================================================================
