------------------------------ MODULE Handover ------------------------------
(***************************************************************************)
(* Level B (source-line granularity) model of the hand-over from the       *)
(* start-up buffer to real destinations: thread L runs                     *)
(* Destinations.send(m) for m = 1..K, thread A runs the first              *)
(* Destinations.add(d).  List objects live in a heap (`lists`) because the *)
(* race depends on WHICH list object a `for` loop captured.                *)
(*                                                                         *)
(* Variant = "fixed": the code as repaired (fix: commits 9b16ca8, F15):     *)
(*   BufferingDestination.__call__ takes the buffer's lock and, once       *)
(*   `_forward` is set, passes late arrivals on to send(); add() takes     *)
(*   that lock, re-delivers the buffered messages to the NEW list object   *)
(*   while senders still see the buffer, then publishes the new list in    *)
(*   one assignment and sets `_forward`.                                   *)
(* Variant = "swapfirst": the first repair (9b16ca8 alone): the new list   *)
(*   is published BEFORE the re-delivery; a sender that picks it up        *)
(*   during the re-delivery overtakes the buffered messages -- TLC must    *)
(*   reject C12_InOrder (second vacuity guard).                            *)
(* Variant = "orig": the code before the repair (list emptied, then        *)
(*   extended; no lock; no forwarding) -- TLC must find the lost message   *)
(*   (finding F1); kept as a permanent vacuity guard.                      *)
(***************************************************************************)
EXTENDS Naturals, Sequences, FiniteSets, TLC
CONSTANTS K, Variant
VARIABLES lists, dref, bufmsgs, anyAdded, forward, lock, recv,
          lpc, lmsg, lstack,      \* logger thread: pc, current message, stack of loop frames [lst, idx]
          apc, aj, aframe,        \* adder thread: pc, index into the buffered messages, loop frame of its nested send
          nref                    \* adder thread: the new list object, not yet published (Variant "fixed")
vars == <<lists, dref, bufmsgs, anyAdded, forward, lock, recv, lpc, lmsg, lstack, apc, aj, aframe, nref>>
Fixed == Variant \in {"fixed", "swapfirst"}
Late == Variant = "fixed"        \* the new list is published after the re-delivery
Init == /\ lists = <<<<"buf">>>> /\ dref = 1 /\ bufmsgs = <<>> /\ anyAdded = FALSE /\ forward = FALSE /\ lock = "none"
        /\ recv = <<>> /\ lpc = "idle" /\ lmsg = 1 /\ lstack = <<>>
        /\ apc = "a1" /\ aj = 0 /\ aframe = [lst |-> 0, idx |-> 0] /\ nref = 0
Top == lstack[Len(lstack)]
SetTop(f) == [lstack EXCEPT ![Len(lstack)] = f]
Pop == SubSeq(lstack, 1, Len(lstack) - 1)
\* ---- thread L: for m in 1..K: send(m)
LBegin == /\ lpc = "idle" /\ lmsg <= K
          /\ lpc' = "iter" /\ lstack' = <<[lst |-> dref, idx |-> 1]>>            \* `for dest in self._destinations` captures the list
          /\ UNCHANGED <<lists, dref, bufmsgs, anyAdded, forward, lock, recv, lmsg, apc, aj, aframe, nref>>
LIter == /\ lpc = "iter"
         /\ IF Top.idx <= Len(lists[Top.lst])
            THEN IF lists[Top.lst][Top.idx] = "buf"
                 THEN /\ lpc' = (IF Fixed THEN "b_acq" ELSE "b_app") /\ UNCHANGED <<recv, lstack, lmsg, nref>>
                 ELSE /\ recv' = Append(recv, lmsg) /\ lstack' = SetTop([Top EXCEPT !.idx = @ + 1]) /\ UNCHANGED <<lpc, lmsg, nref>>
            ELSE \* this loop is over: return to the enclosing send (forwarding), or the call is complete
                 IF Len(lstack) > 1 THEN /\ lstack' = [Pop EXCEPT ![Len(lstack) - 1].idx = @ + 1] /\ UNCHANGED <<lpc, lmsg, recv, nref>>
                 ELSE /\ lpc' = "idle" /\ lmsg' = lmsg + 1 /\ lstack' = <<>> /\ UNCHANGED recv
         /\ UNCHANGED <<lists, dref, bufmsgs, anyAdded, forward, lock, apc, aj, aframe, nref>>
\* BufferingDestination.__call__ (fixed): with self._lock: if self._forward is None: append; return  /  forward
LBAcq == /\ lpc = "b_acq" /\ lock = "none" /\ lock' = "L" /\ lpc' = "b_chk"
         /\ UNCHANGED <<lists, dref, bufmsgs, anyAdded, forward, recv, lmsg, lstack, apc, aj, aframe, nref>>
LBChk == /\ lpc = "b_chk" /\ lpc' = (IF forward THEN "b_relf" ELSE "b_app")
         /\ UNCHANGED <<lists, dref, bufmsgs, anyAdded, forward, lock, recv, lmsg, lstack, apc, aj, aframe, nref>>
LBApp == /\ lpc = "b_app" /\ bufmsgs' = Append(bufmsgs, lmsg)
         /\ lpc' = (IF Fixed THEN "b_rel" ELSE "iter")
         /\ lstack' = (IF Fixed THEN lstack ELSE SetTop([Top EXCEPT !.idx = @ + 1]))
         /\ UNCHANGED <<lists, dref, anyAdded, forward, lock, recv, lmsg, apc, aj, aframe, nref>>
LBRel == /\ lpc = "b_rel" /\ lock' = "none" /\ lpc' = "iter" /\ lstack' = SetTop([Top EXCEPT !.idx = @ + 1])
         /\ UNCHANGED <<lists, dref, bufmsgs, anyAdded, forward, recv, lmsg, apc, aj, aframe, nref>>
LBRelF == /\ lpc = "b_relf" /\ lock' = "none" /\ lpc' = "iter"
          /\ lstack' = Append(lstack, [lst |-> dref, idx |-> 1])                 \* self._forward(message): a nested send()
          /\ UNCHANGED <<lists, dref, bufmsgs, anyAdded, forward, recv, lmsg, apc, aj, aframe, nref>>
\* ---- thread A: add("d"), first call
A1 == /\ apc = "a1" /\ apc' = (IF anyAdded THEN "ext" ELSE "a2")
      /\ UNCHANGED <<lists, dref, bufmsgs, anyAdded, forward, lock, recv, lpc, lmsg, lstack, aj, aframe, nref>>
A2 == /\ apc = "a2" /\ anyAdded' = TRUE /\ apc' = "a3"
      /\ UNCHANGED <<lists, dref, bufmsgs, forward, lock, recv, lpc, lmsg, lstack, aj, aframe, nref>>
A3 == /\ apc = "a3"
      /\ CASE Variant = "fixed" -> /\ lists' = Append(lists, <<"d">>) /\ nref' = Len(lists) + 1 /\ apc' = "a_acq" /\ UNCHANGED dref   \* new_destinations = list(destinations)
           [] Variant = "swapfirst" -> /\ lists' = Append(lists, <<"d">>) /\ dref' = Len(lists) + 1 /\ apc' = "a_acq" /\ UNCHANGED nref  \* published at once
           [] OTHER -> /\ lists' = Append(lists, <<>>) /\ dref' = Len(lists) + 1 /\ apc' = "ext" /\ UNCHANGED nref                      \* self._destinations = []
      /\ UNCHANGED <<bufmsgs, anyAdded, forward, lock, recv, lpc, lmsg, lstack, aj, aframe>>
AExt == /\ apc = "ext" /\ lists' = [lists EXCEPT ![dref] = Append(@, "d")] /\ apc' = "loop" /\ aj' = 1
        /\ UNCHANGED <<dref, bufmsgs, anyAdded, forward, lock, recv, lpc, lmsg, lstack, aframe, nref>>
AAcq == /\ apc = "a_acq" /\ lock = "none" /\ lock' = "A" /\ apc' = "loop" /\ aj' = 1
        /\ UNCHANGED <<lists, dref, bufmsgs, anyAdded, forward, recv, lpc, lmsg, lstack, aframe, nref>>
\* for message in buffered_messages: self.send(message)        (iterates the live list object)
ALoop == /\ apc = "loop"
         /\ IF aj <= Len(bufmsgs) THEN /\ apc' = "siter" /\ aframe' = [lst |-> (IF Late THEN nref ELSE dref), idx |-> 1] /\ UNCHANGED <<aj, forward, lock, dref>>
            ELSE IF Late THEN /\ dref' = nref /\ apc' = "a_fwd" /\ UNCHANGED <<aj, aframe, lock, forward>>       \* self._destinations = new_destinations
            ELSE IF Fixed THEN /\ forward' = TRUE /\ apc' = "a_rel" /\ UNCHANGED <<aj, aframe, lock, dref>>
            ELSE /\ apc' = "done" /\ UNCHANGED <<aj, aframe, forward, lock, dref>>
         /\ UNCHANGED <<lists, bufmsgs, anyAdded, recv, lpc, lmsg, lstack, nref>>
AFwd == /\ apc = "a_fwd" /\ forward' = TRUE /\ apc' = "a_rel"                                                   \* buffer._forward = self.send
        /\ UNCHANGED <<lists, dref, bufmsgs, anyAdded, lock, recv, lpc, lmsg, lstack, aj, aframe, nref>>
ASIter == /\ apc = "siter"
          /\ IF aframe.idx <= Len(lists[aframe.lst])
             THEN /\ recv' = Append(recv, bufmsgs[aj]) /\ aframe' = [aframe EXCEPT !.idx = @ + 1] /\ UNCHANGED <<apc, aj, nref>>
             ELSE /\ apc' = "loop" /\ aj' = aj + 1 /\ UNCHANGED <<recv, aframe, nref>>
          /\ UNCHANGED <<lists, dref, bufmsgs, anyAdded, forward, lock, lpc, lmsg, lstack, nref>>
ARel == /\ apc = "a_rel" /\ lock' = "none" /\ apc' = "done"
        /\ UNCHANGED <<lists, dref, bufmsgs, anyAdded, forward, recv, lpc, lmsg, lstack, aj, aframe, nref>>
Next == AFwd \/ LBegin \/ LIter \/ LBAcq \/ LBChk \/ LBApp \/ LBRel \/ LBRelF \/ A1 \/ A2 \/ A3 \/ AExt \/ AAcq \/ ALoop \/ ASIter \/ ARel
Spec == Init /\ [][Next]_vars
Done == lpc = "idle" /\ lmsg = K + 1 /\ apc = "done"
Count(m) == Cardinality({i \in DOMAIN recv : recv[i] = m})
\* level A, as invariants of level B
C12_NoLoss == Done => \A m \in 1..K : Count(m) >= 1
C12_NoDup  == \A m \in 1..K : Count(m) <= 1
C12_NoDeadlock == ~Done => ENABLED Next
\* the single logger sends 1..K one after the other (emission order = 1..K) and whatever is in the buffer when add() starts is
\* older than anything logged later: the destination is offered the messages in increasing order
C12_InOrder == \A i, j \in DOMAIN recv : i < j => recv[i] < recv[j]
=============================================================================
