------------------------------ MODULE HandoverA ------------------------------
(* Level A for the hand-over from start-up buffering to real destinations (C12), evaluated on a recorded history of   *)
(* real threads: events inv/res of send(id) and of the first add(D), and deliver(d, id) by the harness destinations. *)
(*   no_loss:  every message whose send() was invoked is offered to every destination of the first add()             *)
(*             (once all threads have joined)                                                                        *)
(*   no_dup:   no destination is offered the same message twice                                                      *)
(*   order:    two messages whose send() calls are ordered by happens-before and both returned before add() was      *)
(*             invoked are offered in that order; everything logged after add() returned comes after them;           *)
(*             in general (later_message_first) any two messages ordered by happens-before are offered in that order *)
(* Verdict: <<"ACC", tid, clause>>.                                                                                  *)
EXTENDS Naturals, Sequences, FiniteSets, TLC, Json, IOUtils, TLCExt
TraceFile == JsonDeserialize(IOEnv.TRACE_FILE)
Traces == TraceFile.traces
VARIABLES tid, done
E == Traces[tid].ev
Idx(p(_)) == {i \in DOMAIN E : p(E[i])}
Pos(kind, id) == CHOOSE i \in DOMAIN E : E[i].e = kind /\ E[i].op = "send" /\ E[i].id = id
Ids == {E[i].id : i \in {i \in DOMAIN E : E[i].e = "inv" /\ E[i].op = "send"}}
AddInv == CHOOSE i \in DOMAIN E : E[i].e = "inv" /\ E[i].op = "add"
AddRes == CHOOSE i \in DOMAIN E : E[i].e = "res" /\ E[i].op = "add"
Dests == {Traces[tid].dests[i] : i \in DOMAIN Traces[tid].dests}
Deliv(d) == SelectSeq([i \in DOMAIN E |-> i], LAMBDA i : E[i].e = "deliver" /\ E[i].d = d)
DelivIds(d) == [k \in DOMAIN Deliv(d) |-> E[Deliv(d)[k]].id]
Where(d, id) == CHOOSE k \in DOMAIN DelivIds(d) : DelivIds(d)[k] = id
Before == {id \in Ids : Pos("res", id) < AddInv}          \* logged before the first add_destinations call
After  == {id \in Ids : Pos("inv", id) > AddRes}           \* logged after it returned
Clause ==
  IF \E d \in Dests : \E a, b \in DOMAIN DelivIds(d) : a # b /\ DelivIds(d)[a] = DelivIds(d)[b] THEN "duplicate"
  ELSE IF \E d \in Dests : \E id \in Ids : id \notin {DelivIds(d)[k] : k \in DOMAIN DelivIds(d)} THEN "lost"
  ELSE IF \E d \in Dests : \E a, b \in Before : Pos("res", a) < Pos("inv", b) /\ Where(d, a) > Where(d, b) THEN "order_of_buffered"
  ELSE IF \E d \in Dests : \E a \in Before, b \in After : Where(d, a) > Where(d, b) THEN "buffered_after_later"
  \* emission order in general: a message whose send() had returned before another one's was invoked is offered first
  ELSE IF \E d \in Dests : \E a, b \in Ids : Pos("res", a) < Pos("inv", b) /\ Where(d, a) > Where(d, b) THEN "later_message_first"
  ELSE ""
Init == tid \in DOMAIN Traces /\ done = FALSE
Next == ~done /\ PrintT(<<"ACC", tid, Clause>>) /\ done' = TRUE /\ UNCHANGED tid
Spec == Init /\ [][Next]_<<tid, done>>
=============================================================================
