---------------------------- MODULE HandoverCapA ----------------------------
(* Level A for the hand-over with a FULL start-up buffer (C12: "the most recent 1000, in order ... no message logged by    *)
(* any thread is lost across the hand-over ... every delivered message carries all global fields set before its           *)
(* delivery").  Input per history: pre_lo..pre_hi = the ids logged (sequentially) before anything else, late = the ids logged by     *)
(* threads racing the first add_destinations(), offered[d] = what destination d was offered, in order, each entry         *)
(* <<id, has the global field, the field had been set when it was delivered, ... when its send() was invoked>>.          *)
(*   duplicate          an id offered twice to one destination                                                            *)
(*   late_lost          a racing message is not offered (the buffer may only drop its OLDEST entries)                     *)
(*   buffered_not_recent  the buffered messages offered are not a suffix of pre, in order, or more were dropped than the  *)
(*                      racing messages can have pushed out                                                               *)
(*   global_field_missing  a message delivered after the field was set does not carry it                                  *)
EXTENDS Naturals, Sequences, FiniteSets, TLC, Json, IOUtils, TLCExt
Cap == 1000
TraceFile == JsonDeserialize(IOEnv.TRACE_FILE)
Traces == TraceFile.traces
VARIABLES tid, done
T == Traces[tid]
ToSet(s) == {s[i] : i \in DOMAIN s}
IdsOf(o) == [i \in DOMAIN o |-> o[i][1]]
\* the buffered messages have the consecutive ids lo..hi (hi < lo: none), logged in that order
IsPre(x) == x >= T.pre_lo /\ x <= T.pre_hi
NPre == IF T.pre_hi < T.pre_lo THEN 0 ELSE T.pre_hi - T.pre_lo + 1
Max(a, b) == IF a > b THEN a ELSE b
ClauseOf(o) ==
  LET ids == IdsOf(o)
      p == SelectSeq(ids, IsPre)
      dropped == NPre - Len(p)
  IN IF Cardinality(ToSet(ids)) # Len(ids) THEN "duplicate"
     ELSE IF ~(ToSet(T.late) \subseteq ToSet(ids)) THEN "late_lost"
     \* what is offered of the buffer is its most recent part, in order ...
     ELSE IF dropped < 0 \/ \E i \in DOMAIN p : p[i] # T.pre_lo + dropped + i - 1 THEN "buffered_not_recent"
     \* ... and no more was dropped than the racing messages can have pushed out
     ELSE IF dropped > Max(0, NPre + Len(T.late) - Cap) THEN "buffered_not_recent"
     \* every buffered message had been logged before the racing threads started: it comes first
     \* (ids are of two kinds, so any inversion shows between two neighbours)
     ELSE IF \E i \in DOMAIN ids : i < Len(ids) /\ ~IsPre(ids[i]) /\ IsPre(ids[i + 1]) THEN "later_message_first"
     \* o[i][4] = 1: the message's send() was invoked after the field had been set
     ELSE IF \E i \in DOMAIN o : o[i][4] = 1 /\ o[i][2] = 0 THEN "global_field_missing"
     \* delivered after the field was set, but its send() was already in flight (fields merged) when it was set: finding F16
     ELSE IF \E i \in DOMAIN o : o[i][3] = 1 /\ o[i][2] = 0 THEN "global_field_missing_send_in_flight"
     ELSE ""
Clause == LET cs == [i \in DOMAIN T.offered |-> ClauseOf(T.offered[i])]
              bad == {i \in DOMAIN cs : cs[i] # ""}
          IN IF bad = {} THEN "" ELSE cs[CHOOSE i \in bad : TRUE]
Init == tid \in DOMAIN Traces /\ done = FALSE
Next == ~done /\ PrintT(<<"ACC", tid, Clause>>) /\ done' = TRUE /\ UNCHANGED tid
Spec == Init /\ [][Next]_<<tid, done>>
=============================================================================
