---------------------------- MODULE HandoverCapA ----------------------------
(* Level A for the hand-over with a FULL start-up buffer (C12: "the most recent 1000, in order ... no message logged by    *)
(* any thread is lost across the hand-over ... every delivered message carries all global fields set before its           *)
(* delivery").  Input per history: pre = the ids logged (sequentially) before anything else, late = the ids logged by     *)
(* threads racing the first add_destinations(), offered[d] = what destination d was offered, in order, each entry         *)
(* <<id, has the global field, the field had been set when it was delivered, ... when its send() was invoked>>.          *)
(*   duplicate          an id offered twice to one destination                                                            *)
(*   late_lost          a racing message is not offered (the buffer may only drop its OLDEST entries)                     *)
(*   buffered_not_recent  the buffered messages offered are not a suffix of pre, in order, or more were dropped than the  *)
(*                      racing messages can have pushed out                                                               *)
(*   global_field_missing  a message delivered after the field was set does not carry it                                  *)
EXTENDS Naturals, Sequences, FiniteSets, TLC, Json, IOUtils, TLCExt
Cap == 1000
TraceFile == JsonDeserialize(IOEnv.TRACE_FILE)
Traces == TraceFile.traces
VARIABLES tid, done
T == Traces[tid]
ToSet(s) == {s[i] : i \in DOMAIN s}
IdsOf(o) == [i \in DOMAIN o |-> o[i][1]]
PreSet == ToSet(T.pre)
OfPre(o) == SelectSeq(IdsOf(o), LAMBDA x : x \in PreSet)
Max(a, b) == IF a > b THEN a ELSE b
ClauseOf(o) ==
  LET ids == IdsOf(o)
      p == OfPre(o)
      np == Len(T.pre)
      dropped == np - Len(p)
  IN IF Cardinality(ToSet(ids)) # Len(ids) THEN "duplicate"
     ELSE IF ~(ToSet(T.late) \subseteq ToSet(ids)) THEN "late_lost"
     ELSE IF dropped < 0 \/ p # SubSeq(T.pre, dropped + 1, np) THEN "buffered_not_recent"
     ELSE IF dropped > Max(0, np + Len(T.late) - Cap) THEN "buffered_not_recent"
     \* every buffered message had been logged before the racing threads started: it comes first
     ELSE IF \E i, j \in DOMAIN ids : i < j /\ ids[i] \notin PreSet /\ ids[j] \in PreSet THEN "later_message_first"
     \* o[i][4] = 1: the message's send() was invoked after the field had been set
     ELSE IF \E i \in DOMAIN o : o[i][4] = 1 /\ o[i][2] = 0 THEN "global_field_missing"
     \* delivered after the field was set, but its send() was already in flight (fields merged) when it was set: finding F16
     ELSE IF \E i \in DOMAIN o : o[i][3] = 1 /\ o[i][2] = 0 THEN "global_field_missing_send_in_flight"
     ELSE ""
Clause == LET bad == {i \in DOMAIN T.offered : ClauseOf(T.offered[i]) # ""} IN
          IF bad = {} THEN "" ELSE ClauseOf(T.offered[CHOOSE i \in bad : TRUE])
Init == tid \in DOMAIN Traces /\ done = FALSE
Next == ~done /\ PrintT(<<"ACC", tid, Clause>>) /\ done' = TRUE /\ UNCHANGED tid
Spec == Init /\ [][Next]_<<tid, done>>
=============================================================================
