------------------------------ MODULE Helpers ------------------------------
(***************************************************************************)
(* eliot.testing: LoggedAction.fromMessages / of_type / descendants /      *)
(* type_tree / succeeded, LoggedMessage.of_type, assertContainsFields,     *)
(* assertHasAction, assertHasMessage  (property C17).                      *)
(*                                                                         *)
(* Everything is a function of a CAPTURED LIST S: the sequence, in         *)
(* emission order, of the messages one in-memory logger received.  A       *)
(* message is [u, lv, k, ty, st, f]: task (uuid) number, task_level,       *)
(* k \in {"start","end","msg"}, action/message type, action status         *)
(* ("started"/"succeeded"/"failed"/""), f = its application fields (a      *)
(* record).  A message is identified by its position in S.                 *)
(*                                                                         *)
(*  1. Tree(S,u,l): DECLARATIVE - the action tree implied by task levels   *)
(*     (what eliot.parse builds; PTree is the same thing read off the      *)
(*     state of the TRANSCRIBED parser of Parser.tla fed with S).          *)
(*  2. FromMessages / OfType / Descendants / TypeTree / MsgOfType /        *)
(*     AssertHasAction / AssertHasMessage: TRANSCRIPTIONS of the code.     *)
(*  3. C17_* : the property, as invariants over S.                         *)
(***************************************************************************)
EXTENDS Naturals, Integers, Sequences, FiniteSets, TLC

\* Parser.tla's operators (transcription of eliot.parse + declarative reference); its variables are not used here
P == INSTANCE Parser WITH univ <- {}, received <- {}, tasks <- <<>>, yielded <- <<>>

Front(s) == SubSeq(s, 1, Len(s) - 1)
Last(s)  == s[Len(s)]
Range(s) == {s[i] : i \in DOMAIN s}
IsPrefix(p, s) == Len(p) <= Len(s) /\ SubSeq(s, 1, Len(p)) = p
Max(T) == CHOOSE x \in T : \A y \in T : y <= x
Min(T) == CHOOSE x \in T : \A y \in T : x <= y

-----------------------------------------------------------------------------
\* ---- the domain: lists a single logger can capture from well-formed tasks
Uuids(S) == {S[i].u : i \in DOMAIN S}
IsCtxLess(m) == m.k = "msg" /\ m.lv = <<1>>
\* the action a message belongs to (as its start, end, or direct message)
ActOf(m) == [u |-> m.u, l |-> Front(m.lv)]
StartIdx(S, u, l) == {i \in DOMAIN S : S[i].u = u /\ S[i].k = "start" /\ Front(S[i].lv) = l}
EndIdx(S, u, l)   == {i \in DOMAIN S : S[i].u = u /\ S[i].k = "end" /\ Front(S[i].lv) = l}
Started(S)  == {ActOf(S[i]) : i \in {j \in DOMAIN S : S[j].k = "start"}}
HasEnd(S, a) == EndIdx(S, a.u, a.l) # {}

WellFormed(S) ==
  /\ \A i \in DOMAIN S : /\ Len(S[i].lv) >= 1
                         /\ S[i].k \in {"start", "end", "msg"}
                         /\ (S[i].k = "start") <=> (S[i].st = "started")
                         /\ (S[i].k = "end") <=> (S[i].st \in {"succeeded", "failed"})
                         /\ (S[i].k = "start") => Last(S[i].lv) = 1
                         /\ (S[i].k # "start" /\ ~IsCtxLess(S[i])) => Last(S[i].lv) > 1
  \* (task_uuid, task_level) identifies a message
  /\ \A i, j \in DOMAIN S : (i # j /\ S[i].u = S[j].u) => S[i].lv # S[j].lv
  \* a context-less message is a task of its own
  /\ \A i, j \in DOMAIN S : (i # j /\ IsCtxLess(S[i])) => S[i].u # S[j].u
  \* everything was captured: whatever lies in or below an action comes after that action's start message
  /\ \A i \in DOMAIN S : ~IsCtxLess(S[i]) =>
        \A n \in 0..(Len(S[i].lv) - 1) :
           LET l == SubSeq(S[i].lv, 1, n) IN
           (S[i].lv # Append(l, 1)) => \E j \in 1..(i - 1) : S[j].u = S[i].u /\ S[j].k = "start" /\ S[j].lv = Append(l, 1)
  \* at most one end per action, of the action's type, and nothing of the action itself after it
  /\ \A i \in DOMAIN S : S[i].k = "end" =>
        /\ \A j \in DOMAIN S : (S[j].u = S[i].u /\ Front(S[j].lv) = Front(S[i].lv)) => Last(S[j].lv) <= Last(S[i].lv)
        /\ \A j \in StartIdx(S, S[i].u, Front(S[i].lv)) : S[j].ty = S[i].ty

Idx(S, u, lv) == CHOOSE i \in DOMAIN S : S[i].u = u /\ S[i].lv = lv

-----------------------------------------------------------------------------
\* ---- 1. the tree implied by task levels (declarative)
\* A node is [s, e, ok, ch] (positions in S of the start and end messages, 0 if absent; success flag; children) or
\* [m |-> position] for a message.
InSub(S, u, l) == {i \in DOMAIN S : S[i].u = u /\ IsPrefix(l, Front(S[i].lv))}       \* the action's whole subtree
KidLevels(S, u, l) ==
  {S[i].lv : i \in {j \in DOMAIN S : S[j].u = u /\ S[j].k = "msg" /\ Front(S[j].lv) = l}}
  \cup {SubSeq(S[i].lv, 1, Len(l) + 1) : i \in {j \in DOMAIN S : S[j].u = u /\ IsPrefix(l, S[j].lv) /\ Len(S[j].lv) > Len(l) + 1}}
SortByLast(T) == LET RECURSIVE F(_)
                     F(X) == IF X = {} THEN <<>> ELSE LET x == CHOOSE y \in X : \A z \in X : Last(y) <= Last(z)
                                                      IN <<x>> \o F(X \ {x})
                 IN F(T)
IsMsgLevel(S, u, lv) == \E i \in DOMAIN S : S[i].u = u /\ S[i].lv = lv /\ S[i].k = "msg"
RECURSIVE Tree(_, _, _)
Tree(S, u, l) ==
  LET ks == SortByLast(KidLevels(S, u, l))
      si == StartIdx(S, u, l)
      ei == EndIdx(S, u, l)
      e  == IF ei = {} THEN 0 ELSE CHOOSE i \in ei : TRUE
  IN [s  |-> IF si = {} THEN 0 ELSE CHOOSE i \in si : TRUE,
      e  |-> e,
      ok |-> IF e = 0 THEN FALSE ELSE S[e].st = "succeeded",
      ch |-> [j \in DOMAIN ks |-> IF IsMsgLevel(S, u, ks[j]) THEN [m |-> Idx(S, u, ks[j])] ELSE Tree(S, u, ks[j])]]

\* ---- the same, read off the state of the transcribed parser (Parser.tla) after S was fed to it in list order
RECURSIVE Feed(_, _, _, _)
Feed(S, u, i, T) == IF i > Len(S) THEN T ELSE Feed(S, u, i + 1, IF S[i].u = u THEN P!TaskAdd(T, S[i]) ELSE T)
ParserTask(S, u) == Feed(S, u, 1, P!EmptyTask)
RECURSIVE PTree(_, _, _, _)
PTree(S, T, u, l) ==
  LET n  == T.nodes[l]
      ks == P!SortByLast(n.kids)
      e  == IF n.endp = 0 THEN 0 ELSE Idx(S, u, Append(l, n.endp))
  IN [s  |-> IF n.start THEN Idx(S, u, Append(l, 1)) ELSE 0,
      e  |-> e,
      ok |-> IF e = 0 THEN FALSE ELSE S[e].st = "succeeded",
      ch |-> [j \in DOMAIN ks |-> IF ks[j] \in DOMAIN T.nodes THEN PTree(S, T, u, ks[j]) ELSE [m |-> Idx(S, u, ks[j])]]]

-----------------------------------------------------------------------------
\* ---- 2. transcription of eliot/testing.py
IsMsgNode(c) == "m" \in DOMAIN c
Err == [err |-> TRUE]                           \* ValueError("Missing start message" / "Missing end message ...")
IsErr(t) == "err" \in DOMAIN t

\* LoggedAction.fromMessages(uuid, level, messages): level is the task_level of the action's START message
RECURSIVE FromMessages(_, _, _), FMScan(_, _, _, _, _)
FMScan(S, u, p, i, acc) ==                      \* the `for message in messages` loop; p = levelPrefix = level[:-1]
  IF i > Len(S) THEN acc
  ELSE LET m == S[i] IN
       IF m.u # u THEN FMScan(S, u, p, i + 1, acc)                                     \* different task altogether
       ELSE IF Front(m.lv) = p
            THEN FMScan(S, u, p, i + 1,
                        IF m.st = "started" THEN [acc EXCEPT !.s = i]
                        ELSE IF m.st \in {"succeeded", "failed"} THEN [acc EXCEPT !.e = i]
                        ELSE [acc EXCEPT !.ch = Append(@, [m |-> i])])                 \* a message in this action
            ELSE IF /\ Len(m.lv) = Len(p) + 2
                    /\ SubSeq(m.lv, 1, Len(m.lv) - 2) = p
                    /\ Last(m.lv) = 1
                 THEN LET c == FromMessages(S, u, m.lv) IN                            \* first message of a direct child
                      IF IsErr(c) THEN [acc EXCEPT !.bad = TRUE]                       \* the ValueError propagates
                      ELSE FMScan(S, u, p, i + 1, [acc EXCEPT !.ch = Append(@, c)])
                 ELSE FMScan(S, u, p, i + 1, acc)
FromMessages(S, u, level) ==
  LET r == FMScan(S, u, Front(level), 1, [s |-> 0, e |-> 0, ch |-> <<>>, bad |-> FALSE])
  IN IF r.bad \/ r.s = 0 \/ r.e = 0 THEN Err
     ELSE [s |-> r.s, e |-> r.e, ok |-> S[r.e].st = "succeeded", ch |-> r.ch]         \* .succeeded reads the END message

\* LoggedAction.of_type(messages, actionType): [err |-> FALSE, v |-> the list of trees], or err = TRUE (ValueError)
RECURSIVE OTScan(_, _, _, _)
OTScan(S, ty, i, acc) ==
  IF i > Len(S) THEN [err |-> FALSE, v |-> acc]
  ELSE IF S[i].k # "msg" /\ S[i].ty = ty /\ S[i].st = "started"
       THEN LET t == FromMessages(S, S[i].u, S[i].lv) IN
            IF IsErr(t) THEN [err |-> TRUE, v |-> <<>>] ELSE OTScan(S, ty, i + 1, Append(acc, t))
       ELSE OTScan(S, ty, i + 1, acc)
OfType(S, ty) == OTScan(S, ty, 1, <<>>)

\* LoggedAction.descendants(): messages as their position, actions as MINUS the position of their start message
RECURSIVE Descendants(_), DescFrom(_, _)
DescFrom(ch, j) == IF j > Len(ch) THEN <<>>
                   ELSE IF IsMsgNode(ch[j]) THEN <<ch[j].m>> \o DescFrom(ch, j + 1)
                   ELSE <<0 - ch[j].s>> \o Descendants(ch[j]) \o DescFrom(ch, j + 1)
Descendants(t) == DescFrom(t.ch, 1)

\* LoggedAction.type_tree(): {type: [child message type | child action dict]}, written [t |-> type, c |-> children]
RECURSIVE TypeTree(_, _)
TypeTree(S, t) == [t |-> S[t.s].ty,
                   c |-> [j \in DOMAIN t.ch |-> IF IsMsgNode(t.ch[j]) THEN [t |-> S[t.ch[j].m].ty] ELSE TypeTree(S, t.ch[j])]]

\* LoggedMessage.of_type(messages, messageType)
RECURSIVE MTScan(_, _, _)
MTScan(S, ty, i) == IF i > Len(S) THEN <<>>
                    ELSE IF S[i].k = "msg" /\ S[i].ty = ty THEN <<i>> \o MTScan(S, ty, i + 1) ELSE MTScan(S, ty, i + 1)
MsgOfType(S, ty) == MTScan(S, ty, 1)

\* assertContainsFields(test, message, fields): the message restricted to the expected keys must equal the expectation
ContainsFields(f, exp) == LET sub == [k \in DOMAIN f \cap DOMAIN exp |-> f[k]]
                          IN /\ DOMAIN sub = DOMAIN exp
                             /\ \A k \in DOMAIN exp : sub[k] = exp[k]

\* assertHasAction(testCase, logger, actionType, succeeded, startFields, endFields) -> [out, ret]
\*   out: "ok" (returns the first action; ret = position of its start message), "fail" (AssertionError),
\*        "err" (the documented ValueError of of_type)
AssertHasAction(S, ty, succ, sf, ef) ==
  LET acts == OfType(S, ty) IN
  IF acts.err THEN [out |-> "err", ret |-> 0]
  ELSE IF acts.v = <<>> THEN [out |-> "fail", ret |-> 0]
  ELSE LET a == acts.v[1] IN
       IF a.ok # succ THEN [out |-> "fail", ret |-> 0]
       ELSE IF ~ContainsFields(S[a.s].f, sf) THEN [out |-> "fail", ret |-> 0]
       ELSE IF ~ContainsFields(S[a.e].f, ef) THEN [out |-> "fail", ret |-> 0]
       ELSE [out |-> "ok", ret |-> a.s]
\* assertHasMessage(testCase, logger, messageType, fields)
AssertHasMessage(S, ty, exp) ==
  LET ms == MsgOfType(S, ty) IN
  IF ms = <<>> THEN [out |-> "fail", ret |-> 0]
  ELSE IF ~ContainsFields(S[ms[1]].f, exp) THEN [out |-> "fail", ret |-> 0]
  ELSE [out |-> "ok", ret |-> ms[1]]

-----------------------------------------------------------------------------
\* ---- 3. the property
Key(c) == IF IsMsgNode(c) THEN c.m ELSE c.s          \* when a child first shows up in the list
RECURSIVE EmOrd(_)
SortByKey(cs) == LET RECURSIVE F(_)                   \* cs: set of nodes
                     F(X) == IF X = {} THEN <<>> ELSE LET x == CHOOSE y \in X : \A z \in X : Key(y) <= Key(z)
                                                      IN <<x>> \o F(X \ {x})
                 IN F(cs)
\* the same tree with every action's children put in emission order (of their first message)
EmOrd(t) == IF IsMsgNode(t) THEN t
            ELSE [t EXCEPT !.ch = SortByKey({EmOrd(t.ch[j]) : j \in DOMAIN t.ch})]

RECURSIVE Nodes(_)
Nodes(t) == IF IsMsgNode(t) THEN {t.m} ELSE {t.s, t.e} \cup UNION {Nodes(t.ch[j]) : j \in DOMAIN t.ch}
Size(t) == IF IsMsgNode(t) THEN 1 ELSE 1 + Len(Descendants(t))     \* number of tree nodes

\* started actions of a type, in the order of their start messages
StartsOfType(S, ty) == LET RECURSIVE F(_)
                           F(i) == IF i > Len(S) THEN <<>>
                                   ELSE IF S[i].k = "start" /\ S[i].ty = ty THEN <<i>> \o F(i + 1) ELSE F(i + 1)
                       IN F(1)
\* the action and every started action below it have their end message in the list
FullyFinished(S, a) == \A b \in Started(S) : (b.u = a.u /\ IsPrefix(a.l, b.l)) => HasEnd(S, b)
Types(S) == {S[i].ty : i \in DOMAIN S}
\* siblings show up in the list in the order of their positions (false only when a remote sub-task - continue_task -
\* starts after its parent has gone on logging)
SiblingOrdered(S) ==
  \A i, j \in DOMAIN S :
     (/\ i < j /\ S[i].u = S[j].u
      /\ ~IsCtxLess(S[i]) /\ ~IsCtxLess(S[j])
      /\ S[i].k # "end" /\ S[j].k # "end")
     => LET pi == IF S[i].k = "start" THEN Front(S[i].lv) ELSE S[i].lv
            pj == IF S[j].k = "start" THEN Front(S[j].lv) ELSE S[j].lv
        IN (Len(pi) >= 1 /\ Len(pj) >= 1 /\ Front(pi) = Front(pj)) => Last(pi) < Last(pj)

\* of_type = one entry per started-and-finished action of the type, in emission order, each entry being the tree
\* implied by the task levels, children in emission order; the documented ValueError iff some action of the type (or
\* one below it) has no end message in the list
C17_OfType(S) ==
  \A ty \in Types(S) \cup {"absent"} :
     LET st == StartsOfType(S, ty) IN
     IF \A j \in DOMAIN st : FullyFinished(S, ActOf(S[st[j]]))
     THEN OfType(S, ty) = [err |-> FALSE, v |-> [j \in DOMAIN st |-> EmOrd(Tree(S, S[st[j]].u, Front(S[st[j]].lv)))]]
     ELSE OfType(S, ty).err
\* ... which is exactly the parser's tree whenever siblings were emitted in level order
C17_SameAsParser(S) ==
  SiblingOrdered(S) =>
    \A ty \in Types(S) : LET ot == OfType(S, ty).v IN
       \A j \in DOMAIN ot :
           LET u == S[ot[j].s].u  l == Front(S[ot[j].s].lv) IN ot[j] = PTree(S, ParserTask(S, u), u, l)
\* the declarative tree IS what the transcribed parser builds (every action of every task, finished or not)
C17_TreeIsParserTree(S) ==
  \A a \in Started(S) : Tree(S, a.u, a.l) = PTree(S, ParserTask(S, a.u), a.u, a.l)
C17_ParserIsCanon(S) ==
  \A u \in Uuids(S) : ParserTask(S, u) = P!CanonTask({S[i] : i \in {j \in DOMAIN S : S[j].u = u}})
\* each entry exposes the action's own start and end message, the success flag of the end message, and covers exactly
\* the messages at or below the action (each once)
C17_Exposes(S) ==
  \A ty \in Types(S) : LET ot == OfType(S, ty).v IN
     \A j \in DOMAIN ot :
        LET t == ot[j]  u == S[t.s].u  l == Front(S[t.s].lv) IN
        /\ S[t.s].k = "start" /\ S[t.s].ty = ty
        /\ S[t.e].k = "end" /\ S[t.e].u = u /\ Front(S[t.e].lv) = l
        /\ t.ok <=> (S[t.e].st = "succeeded")
        /\ Nodes(t) = InSub(S, u, l)
        /\ Size(t) + Cardinality({b \in Started(S) : b.u = u /\ IsPrefix(l, b.l)}) = Cardinality(InSub(S, u, l))
        /\ \A k \in DOMAIN t.ch : IF IsMsgNode(t.ch[k]) THEN S[t.ch[k].m].k = "msg" /\ Front(S[t.ch[k].m].lv) = l
                                  ELSE Front(Front(S[t.ch[k].s].lv)) = l
\* descendants = pre-order: every node below the action exactly once; a child action is immediately followed by its
\* own descendants; the direct children appear in the order of `children`
RECURSIVE PreOrderOK(_)
PreOrderOK(t) ==
  LET D == Descendants(t)
      direct == [j \in DOMAIN t.ch |-> IF IsMsgNode(t.ch[j]) THEN t.ch[j].m ELSE 0 - t.ch[j].s]
      Pos(x) == CHOOSE p \in DOMAIN D : D[p] = x
  IN /\ \A p, q \in DOMAIN D : p # q => D[p] # D[q]
     /\ \A j \in DOMAIN direct : direct[j] \in Range(D)
     /\ \A j, k \in DOMAIN direct : j < k => Pos(direct[j]) < Pos(direct[k])
     /\ Len(D) = Len(t.ch) + LET RECURSIVE Sum(_)
                                 Sum(j) == IF j > Len(t.ch) THEN 0
                                           ELSE (IF IsMsgNode(t.ch[j]) THEN 0 ELSE Len(Descendants(t.ch[j]))) + Sum(j + 1)
                             IN Sum(1)
     /\ \A j \in DOMAIN t.ch : ~IsMsgNode(t.ch[j]) =>
           LET c == t.ch[j]  dc == Descendants(c)  p == Pos(0 - c.s)
           IN SubSeq(D, p + 1, p + Len(dc)) = dc /\ PreOrderOK(c)
RECURSIVE PreTypes(_)
PreTypes(tt) == <<tt.t>> \o (IF "c" \in DOMAIN tt
                             THEN LET RECURSIVE Cat(_)
                                      Cat(j) == IF j > Len(tt.c) THEN <<>> ELSE PreTypes(tt.c[j]) \o Cat(j + 1)
                                  IN Cat(1)
                             ELSE <<>>)
Abs(x) == IF x < 0 THEN 0 - x ELSE x
C17_PreOrder(S) ==
  \A ty \in Types(S) : LET ot == OfType(S, ty).v IN
     \A j \in DOMAIN ot :
        /\ PreOrderOK(ot[j])
        \* type_tree is the same pre-order, by type
        /\ PreTypes(TypeTree(S, ot[j])) = <<ty>> \o [p \in DOMAIN Descendants(ot[j]) |-> S[Abs(Descendants(ot[j])[p])].ty]
C17_MsgOfType(S) ==
  \A ty \in Types(S) \cup {"absent"} : LET ms == MsgOfType(S, ty) IN
     /\ Range(ms) = {i \in DOMAIN S : S[i].k = "msg" /\ S[i].ty = ty}
     /\ \A p, q \in DOMAIN ms : p < q => ms[p] < ms[q]

\* ---- expected-field dictionaries used to question the assert helpers (records; <<>> is the empty dictionary)
NoFields == <<>>
NoneV == 0 - 99            \* stands for Python's None as a field value (the harness maps it both ways)
Exps(S, i, j) ==           \* i: the message the expectation is written for; j: some other message
  <<NoFields, [x |-> S[i].f.x], [x |-> S[j].f.x], [x |-> S[i].f.x, c |-> S[i].f.c], [x |-> S[i].f.x, z |-> 0], [c |-> S[i].f.c + 1],
    [n |-> NoneV],         \* 7: key present with value None, expected None: accepted
    [z |-> NoneV]>>        \* 8: key ABSENT from the message, expected value None: not a superset, must be refused
\*          none      right             wrong value       two right                          missing key                    wrong constant
Other(S, i) == IF Len(S) = 1 THEN 1 ELSE IF i = Len(S) THEN 1 ELSE i + 1
\* the second started action of the type if there is one (its values must NOT be accepted), else any other message
SecondOr(S, st, i) == IF Len(st) >= 2 THEN st[2] ELSE Other(S, i)
ActionQueries(S, ty) ==
  LET st == StartsOfType(S, ty) IN
  IF st = <<>> \/ \E j \in DOMAIN st : ~FullyFinished(S, ActOf(S[st[j]]))
  THEN {[ty |-> ty, succ |-> b, sf |-> NoFields, ef |-> NoFields] : b \in BOOLEAN}
  ELSE LET i  == st[1]
           ei == EndIdx(S, S[i].u, Front(S[i].lv))
           e  == IF ei = {} THEN i ELSE CHOOSE x \in ei : TRUE
           ok == IF ei = {} THEN TRUE ELSE S[e].st = "succeeded"
           e2 == IF Len(st) >= 2 /\ EndIdx(S, S[st[2]].u, Front(S[st[2]].lv)) # {}
                 THEN CHOOSE x \in EndIdx(S, S[st[2]].u, Front(S[st[2]].lv)) : TRUE ELSE Other(S, e)
           SF == Exps(S, i, SecondOr(S, st, i))
           EF == Exps(S, e, e2)
       IN \* everything right (three ways), then exactly one thing wrong: a start field, an end field, the outcome
          {[ty |-> ty, succ |-> ok, sf |-> SF[p[1]], ef |-> EF[p[2]]] :
              p \in {<<1, 1>>, <<2, 2>>, <<4, 4>>, <<3, 1>>, <<1, 3>>, <<5, 1>>, <<1, 5>>, <<6, 2>>, <<2, 6>>, <<7, 7>>, <<8, 1>>, <<1, 8>>}}
          \cup {[ty |-> ty, succ |-> ~ok, sf |-> SF[p], ef |-> EF[p]] : p \in {1, 2}}
MessageQueries(S, ty) ==
  LET ms == {i \in DOMAIN S : S[i].k = "msg" /\ S[i].ty = ty} IN
  IF ms = {} THEN {[ty |-> ty, exp |-> NoFields]}
  ELSE LET i == Min(ms)
           j == IF ms \ {i} # {} THEN Min(ms \ {i}) ELSE Other(S, i)
           E == Exps(S, i, j)
       IN {[ty |-> ty, exp |-> E[p]] : p \in 1..8}

\* the assert helpers succeed exactly when the first entry of the type has the expected outcome and a superset of
\* the expected fields (and then return that entry)
Superset(f, exp) == \A k \in DOMAIN exp : k \in DOMAIN f /\ f[k] = exp[k]
C17_Asserts(S) ==
  /\ \A ty \in Types(S) \cup {"absent"} : \A q \in ActionQueries(S, ty) :
        LET r == AssertHasAction(S, q.ty, q.succ, q.sf, q.ef)
            st == StartsOfType(S, ty)
        IN IF \E j \in DOMAIN st : ~FullyFinished(S, ActOf(S[st[j]])) THEN r.out = "err"
           ELSE /\ (r.out = "ok") <=> (/\ st # <<>>
                                       /\ LET t == Tree(S, S[st[1]].u, Front(S[st[1]].lv)) IN
                                          /\ t.ok = q.succ
                                          /\ Superset(S[t.s].f, q.sf) /\ Superset(S[t.e].f, q.ef))
                /\ r.out \in {"ok", "fail"}
                /\ (r.out = "ok") => r.ret = st[1]
  /\ \A ty \in Types(S) \cup {"absent"} : \A q \in MessageQueries(S, ty) :
        LET r == AssertHasMessage(S, q.ty, q.exp)
            ms == {i \in DOMAIN S : S[i].k = "msg" /\ S[i].ty = ty}
        IN /\ (r.out = "ok") <=> (ms # {} /\ Superset(S[Min(ms)].f, q.exp))
           /\ r.out \in {"ok", "fail"}
           /\ (r.out = "ok") => r.ret = Min(ms)

C17_All(S) == /\ C17_OfType(S) /\ C17_SameAsParser(S) /\ C17_TreeIsParserTree(S) /\ C17_ParserIsCanon(S)
              /\ C17_Exposes(S) /\ C17_PreOrder(S) /\ C17_MsgOfType(S) /\ C17_Asserts(S)

-----------------------------------------------------------------------------
\* ---- everything the specification predicts about a list, as one record (printed as JSON by the MC module, and
\* compared field by field with the real helpers' answers by Trace_Helpers)
PredType(S, ty) ==
  LET ot == OfType(S, ty).v IN
  [ty   |-> ty,
   err  |-> OfType(S, ty).err,
   acts |-> ot,
   ptrees |-> [j \in DOMAIN ot |-> Tree(S, S[ot[j].s].u, Front(S[ot[j].s].lv))],        \* what the parser shows
   desc |-> [j \in DOMAIN ot |-> Descendants(ot[j])],
   tt   |-> [j \in DOMAIN ot |-> TypeTree(S, ot[j])],
   msgs |-> MsgOfType(S, ty)]
SetToSeq(T) == LET RECURSIVE F(_)
                   F(X) == IF X = {} THEN <<>> ELSE LET x == CHOOSE y \in X : TRUE IN <<x>> \o F(X \ {x})
               IN F(T)
=============================================================================
