--------------------------------- MODULE JsonValues ---------------------------------
(* C10, value-fidelity half ("Json.tla" of DESIGN.md 3.6; named JsonValues because a module called Json in this
   directory would shadow the CommunityModules module Json that a dozen other specifications EXTEND).

   The JSON file destination as a FUNCTION from the value logged as a field of a message to the abstract content of
   the line the file receives.  Values are TLA+ terms of a small algebra (value classes, not concrete values: the
   harness instantiates every class with several concrete witnesses); the function is `Expected(v, mode, default)`.

   Two things are kept apart on purpose:

   * `Expected` / `MustWrite` are NORMATIVE: they transcribe the statement of C10 and nothing more.  Inside the
     promised domain (JSON-native values: text, 64-bit integers, finite floats, booleans, null, lists, string-keyed
     dicts; the documented rich types: paths, dates, times, sets, complex numbers, the caller's json_default
     extensions) a line MUST be written and decode to the outcome given.  Outside it (NaN/inf, integers beyond 64
     bits, bytes, lone surrogates, non-text keys, types the statement does not list, unsupported objects) the outcome
     is "unspec": the implementation may write any valid line (the promised PARTS of the message must still be
     faithful) or reject the message (no line at all, the failure reported); it may never write an invalid or partial
     line nor let the logging call raise.  Unsigned 64-bit integers above 2^63-1 are "exact_or_rejected".

   * `RejectsNow` is DESCRIPTIVE: what the pinned implementation (orjson + eliot.json.json_default) does today.  It is
     used (a) by the invariant C10_ImplWithinStatement, which says that everything it rejects lies outside the promised
     domain except the classes named in KnownDeviations, and (b) by the harness to report MODEL-DRIFT (never a
     violation) when the code makes the other permitted choice.

   Terms are uniform records [k, c, keys, kids] so that TLC can put them into one set:
     k = "leaf"       c = value class
     k = "list"       kids = items
     k = "dict"       keys = key classes (parallel to kids)
     k = "set" / "frozenset"   kids = elements (hashable leaves; the concrete order is the witness's business)
     k = "dataclass"  kids = <<value of its single field "f">>
     k = "custom"     kids = <<x>> : an instance of the caller's own class, which the caller's json_default turns into
                      {"x": x} before deferring to eliot's json_default
   Outcomes are uniform records [o, keys, kids]:
     same | exact_or_rejected | str | iso | complex | encoded | unspec   (leaves)
     list(kids) | dict(keys, kids) | bag(kids: a list in any order)                                                  *)
EXTENDS Naturals, Sequences, FiniteSets, TLC

CONSTANTS Depth,        \* 2 (quick) or 3 (thorough): maximal nesting of containers
          Wide,         \* TRUE: more siblings / key classes on the outer levels
          KnownDeviations,   \* value classes where the implementation is known to break the statement (known findings)
          Broken        \* FALSE; TRUE plants an error into Expected so that the invariants can be seen to bite

VARIABLES case          \* [v, mode, dflt]: the state IS the case

Modes == {"binary", "text"}
Defaults == {"eliot", "caller", "encoder"}   \* eliot.json.json_default | caller's json_default handling the custom type
                                              \* and deferring to eliot's | the same through the deprecated encoder= class

N(k, c, keys, kids) == [k |-> k, c |-> c, keys |-> keys, kids |-> kids]
Leaf(c) == N("leaf", c, <<>>, <<>>)
O(o, keys, kids) == [o |-> o, keys |-> keys, kids |-> kids]
OL(o) == O(o, <<>>, <<>>)

---------------------------------------------------------------------------------------------------------------------
(* value classes *)
NativeExact == {"null", "true", "false",
                "int_small", "int_i64max", "int_i64min",                       \* 2^63-1 / -2^63 and their neighbourhood
                "flt_finite", "flt_negzero", "flt_max", "flt_min",             \* -0.0, 1e308.., 5e-324..
                "txt_ascii", "txt_ctrl", "txt_astral", "txt_linesep", "deep"}  \* deep: a list/dict nested 100 levels
IntU64 == {"int_u64lo", "int_u64max"}                                          \* 2^63 , 2^64-1
IntBeyond == {"int_2p64", "int_below", "int_big"}                              \* 2^64, -2^63-1, > 64 bits
FltNonFinite == {"flt_nan", "flt_pinf", "flt_ninf"}
RichStr == {"path"}
RichIso == {"date", "time", "datetime", "time_aware"}                          \* time_aware: a time with tzinfo (known finding F9);
                                                                               \* F10 (5-digit fraction) is a WITNESS of class time
RichComplex == {"complex"}
RichUnlisted == {"uuid", "enum"}                                               \* encoded today; not in the statement
CustomLeaves == {"custom_null", "custom_falsy"}   \* caller's own types whose encoding BY THE CALLER'S json_default is JSON null,
                                                  \* resp. a falsy non-null value (0, "", [], false, 0.0, {}): "returned None" or
                                                  \* "returned something falsy" must not be mistaken for "not handled"
Unencodable == {"txt_surrogate", "bytes_utf8", "bytes_bad", "unsupported", "too_deep"}   \* too_deep: nested >= 254
LeafClasses == NativeExact \cup IntU64 \cup IntBeyond \cup FltNonFinite \cup RichStr \cup RichIso \cup RichComplex
               \cup RichUnlisted \cup Unencodable \cup CustomLeaves

KeysText == {"k_ascii", "k_ctrl", "k_astral", "k_empty"}
KeysBad == {"k_int", "k_none", "k_tuple", "k_surrogate"}
Hashable == {"int_small", "txt_astral", "flt_negzero", "null", "flt_nan", "date"}

Promised == NativeExact \cup RichStr \cup RichIso \cup RichComplex           \* leaf classes the statement covers
RejectedNowLeaves == IntBeyond \cup Unencodable \cup {"time_aware"}           \* what orjson + json_default refuse today

---------------------------------------------------------------------------------------------------------------------
(* the term algebra, by levels *)
Leaves == {Leaf(c) : c \in LeafClasses}
SibsIn == {Leaf("txt_ctrl"), Leaf("int_i64min"), Leaf("flt_negzero"), Leaf("path")}      \* promised siblings
SibsOut == {Leaf("flt_nan"), Leaf("unsupported")}                                         \* siblings outside the promise
SibsFull == SibsIn \cup SibsOut
SibsFew == {Leaf("txt_ctrl")}
KeysOuter == IF Wide THEN KeysText \cup KeysBad ELSE {"k_ascii", "k_ctrl", "k_int"}

SetsOf(kind) == {N(kind, "", <<>>, <<>>)}
                \cup {N(kind, "", <<>>, <<Leaf(a)>>) : a \in Hashable}
                \cup {N(kind, "", <<>>, <<Leaf("int_small"), Leaf(a)>>) : a \in Hashable \ {"int_small"}}

Containers(X, keys, sibs) ==
         {N("list", "", <<>>, <<x>>) : x \in X}
    \cup {N("list", "", <<>>, <<x, s>>) : x \in X, s \in sibs}
    \cup {N("list", "", <<>>, <<s, x>>) : x \in X, s \in sibs}
    \cup {N("dict", "", <<k>>, <<x>>) : k \in keys, x \in X}
    \cup {N("dict", "", <<"k_ascii", "k_astral">>, <<s, x>>) : x \in X, s \in sibs}
    \cup {N("dataclass", "", <<>>, <<x>>) : x \in X}
    \cup {N("custom", "", <<>>, <<x>>) : x \in X}

Empties == {N("list", "", <<>>, <<>>), N("dict", "", <<>>, <<>>)}

T0 == Leaves
Seeds == T0 \cup Empties \cup SetsOf("set") \cup SetsOf("frozenset")      \* terms that are not "a container of a term"

(* Level n+1 is obtained by wrapping a term of level n into container shapes; the state machine below does that one
   term at a time (Next), so that TLC's workers share the enumeration.  A term inside the promised domain is wrapped into
   EVERY shape at every level (this is where the statement binds); a term outside it is wrapped into every shape once
   (level 1) and afterwards only into the few shapes of WrapOutside, up to level 2: what matters there is that the
   promised siblings stay faithful and that no invalid or partial line appears. *)
KeysAt(h) == IF h = 1 THEN KeysText \cup KeysBad ELSE IF h = 2 THEN KeysOuter ELSE {"k_ascii", "k_astral", "k_int"}
SibsAt(h) == IF h = 1 THEN SibsFull ELSE IF h = 2 THEN (IF Wide THEN SibsFull ELSE SibsFew) ELSE SibsFew
WrapOutside(x) == {N("list", "", <<>>, <<x>>), N("list", "", <<>>, <<x, Leaf("txt_ctrl")>>), N("list", "", <<>>, <<Leaf("txt_astral"), x>>),
                   N("dict", "", <<"k_ascii">>, <<x>>), N("dict", "", <<"k_ctrl", "k_astral">>, <<Leaf("int_i64max"), x>>),
                   N("custom", "", <<>>, <<x>>)}

RECURSIVE Height(_)
Height(v) == IF v.kids = <<>> THEN (IF v.k = "leaf" THEN 0 ELSE 1)
             ELSE 1 + CHOOSE h \in 0..4 : /\ \E i \in DOMAIN v.kids : Height(v.kids[i]) = h
                                          /\ \A i \in DOMAIN v.kids : Height(v.kids[i]) <= h

---------------------------------------------------------------------------------------------------------------------
(* NORMATIVE: the abstract content of the line *)
LeafOutcome(c, d) ==
    IF c \in NativeExact THEN "same"
    ELSE IF c \in CustomLeaves /\ d # "eliot" THEN "encoded"      \* the line holds exactly what the caller's function returned
    ELSE IF c \in IntU64 THEN "exact_or_rejected"
    ELSE IF c \in RichStr THEN "str"
    ELSE IF c \in RichIso THEN "iso"
    ELSE IF c \in RichComplex THEN "complex"
    ELSE IF Broken /\ c = "flt_nan" THEN "same"
    ELSE "unspec"

RECURSIVE Enc(_, _)
Enc(v, d) ==
    LET kidsOut == [i \in DOMAIN v.kids |-> Enc(v.kids[i], d)] IN
    CASE v.k = "leaf" -> OL(LeafOutcome(v.c, d))
      [] v.k = "list" -> O("list", <<>>, kidsOut)
      [] v.k = "dict" -> IF \A i \in DOMAIN v.keys : v.keys[i] \in KeysText THEN O("dict", v.keys, kidsOut)
                         ELSE OL("unspec")
      [] v.k = "set" -> O("bag", <<>>, kidsOut)
      [] v.k = "custom" -> IF d = "eliot" THEN OL("unspec") ELSE O("dict", <<"x">>, kidsOut)
      [] OTHER -> OL("unspec")                                    \* frozenset, dataclass: not in the statement

(* The text-mode file receives the decoded text of the very same bytes and encodes it again as UTF-8; the statement
   makes the mode irrelevant to the content, so the normative function ignores it BY DEFINITION.  The real content of
   "binary == text" is decided on the code, by comparing the bytes of the two files. *)
Expected(v, mode, d) == Enc(v, d)

RECURSIVE MayReject(_)
MayReject(o) == \/ o.o \in {"unspec", "exact_or_rejected"}
                \/ \E i \in DOMAIN o.kids : MayReject(o.kids[i])
MustWrite(v, mode, d) == ~MayReject(Expected(v, mode, d))

---------------------------------------------------------------------------------------------------------------------
(* the statement's domain, transcribed independently of Enc *)
RECURSIVE InDomain(_, _)
InDomain(v, d) ==
    CASE v.k = "leaf" -> v.c \in Promised \/ (v.c \in CustomLeaves /\ d # "eliot")
      [] v.k = "list" -> \A i \in DOMAIN v.kids : InDomain(v.kids[i], d)
      [] v.k = "dict" -> /\ \A i \in DOMAIN v.keys : v.keys[i] \in KeysText
                         /\ \A i \in DOMAIN v.kids : InDomain(v.kids[i], d)
      [] v.k = "set" -> \A i \in DOMAIN v.kids : InDomain(v.kids[i], d)
      [] v.k = "custom" -> d # "eliot" /\ InDomain(v.kids[1], d)
      [] OTHER -> FALSE

(* DESCRIPTIVE: does the pinned implementation refuse to encode the message? *)
RECURSIVE RejectsNow(_, _)
RejectsNow(v, d) ==
    \/ v.k = "leaf" /\ v.c \in RejectedNowLeaves
    \/ v.k = "leaf" /\ v.c \in CustomLeaves /\ d = "eliot"
    \/ v.k = "dict" /\ \E i \in DOMAIN v.keys : v.keys[i] \in KeysBad
    \/ v.k = "frozenset"
    \/ v.k = "custom" /\ d = "eliot"
    \/ \E i \in DOMAIN v.kids : RejectsNow(v.kids[i], d)

RECURSIVE HasClass(_, _)
HasClass(v, S) == \/ v.k = "leaf" /\ v.c \in S
                  \/ \E i \in DOMAIN v.kids : HasClass(v.kids[i], S)
RECURSIVE HasKind(_, _)
HasKind(v, k) == v.k = k \/ \E i \in DOMAIN v.kids : HasKind(v.kids[i], k)

---------------------------------------------------------------------------------------------------------------------
(* well-formed outcomes *)
LeafTags == {"same", "exact_or_rejected", "str", "iso", "complex", "encoded", "unspec"}
RECURSIVE WellFormed(_)
WellFormed(o) ==
    /\ DOMAIN o = {"o", "keys", "kids"}
    /\ \/ o.o \in LeafTags /\ o.kids = <<>> /\ o.keys = <<>>
       \/ o.o \in {"list", "bag"} /\ o.keys = <<>>
       \/ o.o = "dict" /\ Len(o.keys) = Len(o.kids) /\ \A i \in DOMAIN o.keys : o.keys[i] \in KeysText \cup {"x"}
    /\ \A i \in DOMAIN o.kids : WellFormed(o.kids[i])

---------------------------------------------------------------------------------------------------------------------
(* text rendering (compact; parsed by harness/c10_values.py) *)
RECURSIVE JoinSeq(_, _)
JoinSeq(ss, sep) == IF ss = <<>> THEN "" ELSE IF Len(ss) = 1 THEN ss[1] ELSE ss[1] \o sep \o JoinSeq(Tail(ss), sep)
RECURSIVE Show(_)
Show(v) == LET ks == [i \in DOMAIN v.kids |-> Show(v.kids[i])] IN
           CASE v.k = "leaf" -> v.c
             [] v.k = "dict" -> "dict(" \o JoinSeq([i \in DOMAIN ks |-> v.keys[i] \o ":" \o ks[i]], ",") \o ")"
             [] OTHER -> v.k \o "(" \o JoinSeq(ks, ",") \o ")"
RECURSIVE ShowO(_)
ShowO(o) == LET ks == [i \in DOMAIN o.kids |-> ShowO(o.kids[i])] IN
            CASE o.o \in LeafTags -> o.o
              [] o.o = "dict" -> "dict(" \o JoinSeq([i \in DOMAIN ks |-> o.keys[i] \o ":" \o ks[i]], ",") \o ")"
              [] OTHER -> o.o \o "(" \o JoinSeq(ks, ",") \o ")"

---------------------------------------------------------------------------------------------------------------------
Init == case \in [v : Seeds, mode : Modes, dflt : Defaults]
Wraps(v) == LET h == Height(v) IN
            IF h >= Depth THEN {}
            ELSE IF h = 0 \/ InDomain(v, "caller") THEN Containers({v}, KeysAt(h + 1), SibsAt(h + 1))
            ELSE IF h < 2 THEN WrapOutside(v)
            ELSE {}
Next == \E w \in Wraps(case.v) : case' = [case EXCEPT !.v = w]
Spec == Init /\ [][Next]_case

E == Expected(case.v, case.mode, case.dflt)

(* invariants over the whole algebra *)
C10_Total == WellFormed(E)

C10_ModeIndependent == \A m \in Modes : Expected(case.v, m, case.dflt) = E

C10_Compositional ==                       \* the outcome of a composite derives from its parts, position by position
    (case.v.k \in {"list", "set"} \/ (case.v.k = "dict" /\ E.o = "dict") \/ (case.v.k = "custom" /\ E.o = "dict"))
        => /\ Len(E.kids) = Len(case.v.kids)
           /\ \A i \in DOMAIN case.v.kids : E.kids[i] = Expected(case.v.kids[i], case.mode, case.dflt)

C10_DomainIffMustWrite ==                  \* a line is mandatory exactly on the statement's domain
    InDomain(case.v, case.dflt) <=> MustWrite(case.v, case.mode, case.dflt)

C10_DefaultExtends ==                      \* the caller's json_default only ADDS the custom type; encoder= is the same
    /\ Expected(case.v, case.mode, "caller") = Expected(case.v, case.mode, "encoder")
    /\ (~HasKind(case.v, "custom") /\ ~HasClass(case.v, CustomLeaves)) => Expected(case.v, case.mode, "eliot") = Expected(case.v, case.mode, "caller")
    /\ MustWrite(case.v, case.mode, "eliot") => MustWrite(case.v, case.mode, "caller")

C10_ImplWithinStatement ==                 \* what the code refuses today is outside the promise, known findings apart
    (RejectsNow(case.v, case.dflt) /\ MustWrite(case.v, case.mode, case.dflt)) => HasClass(case.v, KnownDeviations)

C10_BoundedHeight == Height(case.v) <= Depth

Bool(b) == IF b THEN "T" ELSE "F"
EmitCase == PrintT("CASE|" \o Show(case.v) \o "|" \o case.mode \o "|" \o case.dflt \o "|" \o ShowO(E) \o "|"
                   \o Bool(MustWrite(case.v, case.mode, case.dflt)) \o "|" \o Bool(RejectsNow(case.v, case.dflt)))
=====================================================================================================================
