------------------------------- MODULE LogCall -------------------------------
(***************************************************************************)
(* C18: eliot.log_call is transparent.                                     *)
(*                                                                         *)
(* Part 1 transcribes Python's argument-binding rule (language reference   *)
(* 6.3.4 "Calls": slots, positional arguments first, then keywords, then   *)
(* defaults, surplus into *args / **kwargs) for an ABSTRACT signature      *)
(* applied to an ABSTRACT call, twice: as the sequential slot algorithm    *)
(* (BindSeq) and in closed form (Bind).  TLC checks that the two agree on  *)
(* the whole domain, that a successful binding neither loses, duplicates   *)
(* nor invents an argument, and that a TypeError always has one of the     *)
(* four reasons.                                                           *)
(*                                                                         *)
(* Part 2 is the decorator as a small state machine over one case          *)
(*   decorate -> invoke(bind) -> start -> call -> end -> return -> done    *)
(* whose variable obs accumulates what an observer of the real wrapper     *)
(* must see: the decoration outcome, the start message (which parameters   *)
(* are logged), the single call of the wrapped function with the bound     *)
(* arguments, the end message and what reaches the caller.  Every case     *)
(* that reaches "done" is printed; harness/checks_c18.py builds the real   *)
(* function from the record and compares spec / plain Python / wrapper.    *)
(*                                                                         *)
(* A signature is a sequence of parameters [k, d, n]:                      *)
(*   k kind  "PO" positional-only, "PK" positional-or-keyword,             *)
(*           "VP" *args, "KO" keyword-only, "VK" **kwargs                  *)
(*   d has a default;  n name.                                             *)
(* A call is [np, kw, meth]: number of positional arguments, SET of        *)
(* keyword names, and whether the function is a method invoked through an  *)
(* instance (then positional argument 1 is the instance).                  *)
(* Options: ia include_args [given, names], ir include_result, at explicit *)
(* action_type, fx what the body does ("ret" | "raise"), bare (@log_call   *)
(* without parentheses).                                                   *)
(*                                                                         *)
(* Target kind tk: WHAT log_call is given.                                 *)
(*   "plain"    the function itself (sig is its signature)                 *)
(*   "inject"   a functools.wraps wrapper w taking only its own *args and **kwargs, which calls *)
(*              the function with one more leading argument                *)
(*   "renamed"  a functools.wraps wrapper with its own explicit parameter  *)
(*              list: the function's, every parameter renamed w_<name>     *)
(*   "fewer"    the same without the parameters that have defaults         *)
(*   "stacked"  the function already decorated with log_call               *)
(* Calling context ctx: WHERE the decorated function is called.            *)
(*   "top"      outside any action: the log_call action starts a new task  *)
(*   "action"   inside  with start_action(action_type="outer")             *)
(*   "private"  inside  with start_action(<private ILogger>, "outer")      *)
(* In every context the action is written where start_action(action_type=  *)
(* ...) at the same place would be: to the DEFAULT logger's destinations,  *)
(* as a child of the current action if there is one; nothing of it goes to *)
(* the outer action's private logger.                                      *)
(* OwnSig(tk, sig) is the signature of the callable log_call is given: the *)
(* wrapper binds and logs against THAT (inspect.signature would follow     *)
(* __wrapped__ to the function underneath, whose parameters are not the    *)
(* ones the caller addresses).  Inner(...) is the binding the function     *)
(* underneath finally sees (or TypeError raised inside the callable).      *)
(***************************************************************************)
EXTENDS Naturals, Sequences, FiniteSets, TLC

CONSTANTS MaxParams,      \* longest signature with ordinary names only
          MaxPos,         \* most positional arguments of a call of such a signature
          MaxKw,          \* most keyword arguments of a call of such a signature
          Hazard,         \* hazardous parameter names
          MaxHaz,         \* most hazardous names in one signature
          Implicit,       \* ordinary names that merely LOOK like an implicit first argument (cls, klass, this, me): at most one per
                          \* signature, at any position, alone or after a first parameter self; they are logged like any other
          ImplKw,         \* most keyword arguments of a call of a signature with such a name (and no hazardous one besides self)
          HazParams,      \* longest signature with hazardous names
          HazPos, HazKw,  \* bounds of the calls of such a signature
          Extra,          \* keyword names used in calls besides the parameters' names
          FullOptParams,  \* signatures up to this length (hazardous name: only self) are combined with EVERY option
          FullOptKw,      \* ... for calls with at most this many keywords
          KindParams,     \* ordinary-name signatures up to this length are also explored behind the other target kinds
          CtxParams       \* ordinary-name signatures up to this length are also called inside another action (calling contexts)

VARIABLES cs,    \* the case: [sig, tk, ctx, call, opt]   (never changes)
          pc,    \* control state of the decorator / wrapper
          obs    \* observable events so far
vars == <<cs, pc, obs>>

Ord == <<"a", "b", "c", "d", "e">>          \* ordinary names, by position
Kinds == {"PO", "PK", "VP", "KO", "VK"}
Rank(k) == CASE k = "PO" -> 1 [] k = "PK" -> 2 [] k = "VP" -> 3 [] k = "KO" -> 4 [] k = "VK" -> 5
Slotted == {"PO", "PK", "KO"}              \* kinds that take exactly one argument
Min(x, y) == IF x < y THEN x ELSE y
Max(x, y) == IF x < y THEN y ELSE x

-----------------------------------------------------------------------------
(* The domain: syntactically valid signatures.                             *)
ValidShape(s) ==
  /\ \A i, j \in DOMAIN s : i < j =>
        /\ Rank(s[i][1]) <= Rank(s[j][1])
        /\ (s[i][1] = s[j][1]) => s[i][1] \in Slotted                 \* one *args, one **kwargs
        /\ (s[i][1] \in {"PO", "PK"} /\ s[j][1] \in {"PO", "PK"} /\ s[i][2]) => s[j][2]
                                                 \* no non-default positional after a default one
  /\ \A i \in DOMAIN s : s[i][1] \in {"VP", "VK"} => ~s[i][2]
Shapes(n) == {s \in [1..n -> Kinds \X BOOLEAN] : ValidShape(s)}

\* a naming gives every position its ordinary name ("-") or a hazardous one; hazardous names are distinct
Namings(n) == {f \in [1..n -> Hazard \cup Implicit \cup {"-"}] :
                 /\ \A i, j \in 1..n : (i # j /\ f[i] # "-") => f[i] # f[j]
                 /\ Cardinality({i \in 1..n : f[i] \in Hazard}) <= MaxHaz
                 /\ Cardinality({i \in 1..n : f[i] \in Implicit}) <= 1
                 /\ ((\E i \in 1..n : f[i] \in Hazard) /\ (\E i \in 1..n : f[i] \in Implicit)) => f[1] = "self"
                 /\ (\E i \in 1..n : f[i] # "-") => n <= HazParams}
MaxN == IF MaxParams < HazParams THEN HazParams ELSE MaxParams
Sigs == UNION {{[i \in 1..n |-> [k |-> s[i][1], d |-> s[i][2], n |-> IF f[i] = "-" THEN Ord[i] ELSE f[i]]] :
                   s \in Shapes(n), f \in {g \in Namings(n) : (\A i \in 1..n : g[i] = "-") => n <= MaxParams}} : n \in 0..MaxN}
IsHaz(sig) == \E i \in DOMAIN sig : sig[i].n \in Hazard \cup Implicit
IsImpl(sig) == \E i \in DOMAIN sig : sig[i].n \in Implicit

ParamNames(sig) == {sig[i].n : i \in DOMAIN sig}
MethOK(sig, np) == Len(sig) >= 1 /\ sig[1].n = "self" /\ sig[1].k \in {"PO", "PK"} /\ np >= 1
\* calls of a callable with signature sig, keyword names drawn from pool
CallsP(sig, pool) == {[np |-> p, kw |-> K, meth |-> m] :
                 p \in 0..(IF IsHaz(sig) THEN HazPos ELSE MaxPos),
                 K \in {S \in SUBSET pool : Cardinality(S) <= (IF IsImpl(sig) THEN ImplKw ELSE IF IsHaz(sig) THEN HazKw ELSE MaxKw)},
                 m \in BOOLEAN}
Calls(sig) == CallsP(sig, ParamNames(sig) \cup Extra)
NullCall(c) == c.np = 0 /\ c.kw = {}

NoIa == [given |-> FALSE, names |-> {}]
Ia(S) == [given |-> TRUE, names |-> S]
DefaultOpt == [ia |-> NoIa, ir |-> TRUE, at |-> FALSE, fx |-> "ret", bare |-> TRUE]
OptOK(o) == o.bare => (o.ia = NoIa /\ o.ir /\ ~o.at)
OptsFull(sig) == {o \in [ia : {NoIa} \cup {Ia(S) : S \in SUBSET (ParamNames(sig) \cup {"bad"})},
                         ir : BOOLEAN, at : BOOLEAN, fx : {"ret", "raise"}, bare : BOOLEAN] : OptOK(o)}
\* a refused decoration does not depend on the call: explored with the null call only
Refused(sig, o) == o.ia.given /\ ~(o.ia.names \subseteq ParamNames(sig))
\* a covering handful for the other signatures: every option value occurs; include_args = all names / one name / a bad name
OptsSmall(sig) ==
  LET last == IF Len(sig) = 0 THEN {} ELSE {sig[Len(sig)].n}
  IN {DefaultOpt,
      [ia |-> Ia(ParamNames(sig) \ {"self"}), ir |-> FALSE, at |-> TRUE, fx |-> "ret", bare |-> FALSE],
      [ia |-> Ia(last), ir |-> TRUE, at |-> FALSE, fx |-> "raise", bare |-> FALSE],
      [ia |-> NoIa, ir |-> TRUE, at |-> TRUE, fx |-> "raise", bare |-> FALSE],
      [ia |-> Ia(last \cup {"bad"}), ir |-> TRUE, at |-> FALSE, fx |-> "ret", bare |-> FALSE]}
FullOpt(sig, call) == /\ Len(sig) <= FullOptParams /\ Cardinality(call.kw) <= FullOptKw
                      /\ \A i \in DOMAIN sig : sig[i].n \in Hazard \cup Implicit => sig[i].n = "self"
OptsOf(sig, call) == {o \in (IF FullOpt(sig, call) THEN OptsFull(sig) ELSE OptsSmall(sig)) : Refused(sig, o) => NullCall(call)}

-----------------------------------------------------------------------------
(* Part 1.  Python's binding rule.                                         *)
(* A bound value is [t, lo, hi, ks]:                                       *)
(*   "pos" positional argument number lo (= hi)                            *)
(*   "kw"  the keyword argument carrying the parameter's own name          *)
(*   "def" the parameter's default                                         *)
(*   "vp"  the tuple of positional arguments lo..hi (empty when hi < lo)   *)
(*   "vk"  the dict of the keyword arguments named in ks                   *)
(*   "unf" slot not filled yet (only inside BindSeq)                       *)
V(t, lo, hi, ks) == [t |-> t, lo |-> lo, hi |-> hi, ks |-> ks]
Unf == V("unf", 0, 0, {})
TypeErr == [ok |-> FALSE, b |-> <<>>]
Bound(b) == [ok |-> TRUE, b |-> b]

NPos(sig) == Cardinality({i \in DOMAIN sig : sig[i].k \in {"PO", "PK"}})     \* positional slots are 1..NPos
KindIdx(sig, k) == IF \E i \in DOMAIN sig : sig[i].k = k THEN CHOOSE i \in DOMAIN sig : sig[i].k = k ELSE 0
\* the slot a keyword argument named x goes to: positional-only parameters, *args and **kwargs cannot be named
KwSlot(sig, x) == IF \E i \in DOMAIN sig : sig[i].n = x /\ sig[i].k \in {"PK", "KO"}
                  THEN CHOOSE i \in DOMAIN sig : sig[i].n = x /\ sig[i].k \in {"PK", "KO"} ELSE 0

\* --- (a) closed form, with the four reasons for a TypeError
TooManyPositional(sig, c) == c.np > NPos(sig) /\ KindIdx(sig, "VP") = 0
UnexpectedKeyword(sig, c) == KindIdx(sig, "VK") = 0 /\ \E x \in c.kw : KwSlot(sig, x) = 0
MultipleValues(sig, c)    == \E x \in c.kw : KwSlot(sig, x) # 0 /\ KwSlot(sig, x) <= Min(c.np, NPos(sig))
FilledPositionally(sig, c, i) == i <= NPos(sig) /\ i <= c.np
FilledByKeyword(sig, c, i)    == sig[i].k \in {"PK", "KO"} /\ sig[i].n \in c.kw
MissingArgument(sig, c)   == \E i \in DOMAIN sig : /\ sig[i].k \in Slotted /\ ~sig[i].d
                                                   /\ ~FilledPositionally(sig, c, i) /\ ~FilledByKeyword(sig, c, i)
Reasons(sig, c) == {r \in {"too-many-positional", "unexpected-keyword", "multiple-values", "missing-argument"} :
                      \/ r = "too-many-positional" /\ TooManyPositional(sig, c)
                      \/ r = "unexpected-keyword" /\ UnexpectedKeyword(sig, c)
                      \/ r = "multiple-values" /\ MultipleValues(sig, c)
                      \/ r = "missing-argument" /\ MissingArgument(sig, c)}
Bind(sig, c) ==
  IF Reasons(sig, c) # {} THEN TypeErr
  ELSE Bound([i \in DOMAIN sig |->
         CASE sig[i].k = "VP" -> V("vp", NPos(sig) + 1, Max(c.np, NPos(sig)), {})
           [] sig[i].k = "VK" -> V("vk", 0, 0, {x \in c.kw : KwSlot(sig, x) = 0})
           [] OTHER -> IF FilledPositionally(sig, c, i) THEN V("pos", i, i, {})
                       ELSE IF FilledByKeyword(sig, c, i) THEN V("kw", 0, 0, {})
                       ELSE V("def", 0, 0, {})])

\* the options a call is combined with: every option set for a call that binds; an unbindable call (whose outcome does not
\* depend on the options) with the bare decorator and one factory form, or only the former if it is wrong in several ways
Opts(sig, call) ==
  LET k == Cardinality(Reasons(sig, call))
  IN IF k = 0 THEN OptsOf(sig, call)
     ELSE IF k = 1 THEN {DefaultOpt, [ia |-> Ia(ParamNames(sig) \ {"self"}), ir |-> FALSE, at |-> TRUE, fx |-> "ret", bare |-> FALSE]}
     ELSE {DefaultOpt}

\* --- (b) the sequential slot algorithm of the language reference
RECURSIVE PlacePos(_, _, _, _)
PlacePos(sig, r, p, np) ==
  IF p > np \/ ~r.ok THEN r
  ELSE IF p <= NPos(sig) THEN PlacePos(sig, Bound([r.b EXCEPT ![p] = V("pos", p, p, {})]), p + 1, np)
  ELSE IF KindIdx(sig, "VP") # 0
       THEN PlacePos(sig, Bound([r.b EXCEPT ![KindIdx(sig, "VP")].hi = p]), p + 1, np)
  ELSE TypeErr
RECURSIVE PlaceKw(_, _, _, _)
PlaceKw(sig, r, K, checkFilled) ==          \* checkFilled = FALSE is the deliberately wrong variant of the vacuity guard
  IF K = {} \/ ~r.ok THEN r
  ELSE LET x == CHOOSE y \in K : TRUE
           s == KwSlot(sig, x)
           vk == KindIdx(sig, "VK")
       IN IF s # 0 THEN (IF checkFilled /\ r.b[s].t # "unf" THEN TypeErr
                         ELSE PlaceKw(sig, Bound([r.b EXCEPT ![s] = V("kw", 0, 0, {})]), K \ {x}, checkFilled))
          ELSE IF vk # 0 THEN PlaceKw(sig, Bound([r.b EXCEPT ![vk].ks = @ \cup {x}]), K \ {x}, checkFilled)
          ELSE TypeErr
FillDefaults(sig, r) ==
  IF ~r.ok THEN r
  ELSE IF \E i \in DOMAIN sig : r.b[i].t = "unf" /\ ~sig[i].d THEN TypeErr
  ELSE Bound([i \in DOMAIN sig |-> IF r.b[i].t = "unf" THEN V("def", 0, 0, {}) ELSE r.b[i]])
EmptySlots(sig) == [i \in DOMAIN sig |-> CASE sig[i].k = "VP" -> V("vp", NPos(sig) + 1, NPos(sig), {})
                                           [] sig[i].k = "VK" -> V("vk", 0, 0, {})
                                           [] OTHER -> Unf]
BindSeqV(sig, c, checkFilled) == FillDefaults(sig, PlaceKw(sig, PlacePos(sig, Bound(EmptySlots(sig)), 1, c.np), c.kw, checkFilled))
BindSeq(sig, c) == BindSeqV(sig, c, TRUE)

\* --- the known deviation F4b/F4c: boltons.funcutils.wraps generates a stub whose signature has lost the "/" marker,
\* so the wrapper binds as if every positional-only parameter were positional-or-keyword
NoSlash(sig) == [i \in DOMAIN sig |-> [sig[i] EXCEPT !.k = IF @ = "PO" THEN "PK" ELSE @]]
NamesPosOnly(sig, c) == \E i \in DOMAIN sig : sig[i].k = "PO" /\ sig[i].n \in c.kw

-----------------------------------------------------------------------------
(* Target kinds: the callable log_call is given, its own signature, and    *)
(* the call it makes to the function underneath.                           *)
WName(n) == CASE n = "a" -> "w_a" [] n = "b" -> "w_b" [] n = "c" -> "w_c" [] n = "d" -> "w_d" [] n = "e" -> "w_e" [] OTHER -> n
Renamed(sig) == [i \in DOMAIN sig |-> [sig[i] EXCEPT !.n = WName(@)]]
Required(p) == ~p.d
InjectSig == <<[k |-> "VP", d |-> FALSE, n |-> "wargs"], [k |-> "VK", d |-> FALSE, n |-> "wkwargs"]>>
OwnSig(tk, sig) == CASE tk = "plain" -> sig
                     [] tk = "inject" -> InjectSig
                     [] tk = "renamed" -> Renamed(sig)
                     [] tk = "fewer" -> SelectSeq(Renamed(sig), Required)
                     [] tk = "stacked" -> NoSlash(sig)       \* the stub log_call produced (its own parameter list has no "/")
TargetKinds(sig) == {"plain"} \cup (IF ~IsHaz(sig) /\ Len(sig) <= KindParams
                                    THEN {"inject", "renamed", "stacked"} \cup (IF \E i \in DOMAIN sig : sig[i].d THEN {"fewer"} ELSE {})
                                    ELSE {})
\* the call the callable makes to the function underneath, given its own binding ob of call c
InnerCall(tk, sig, c, ob) ==
  LET os == OwnSig(tk, sig)
      vp == KindIdx(os, "VP")
      vk == KindIdx(os, "VK")
      kept(i) == tk = "renamed" \/ ~sig[i].d
  IN CASE tk \in {"plain", "stacked"} -> c
       [] tk = "inject" -> [c EXCEPT !.np = @ + 1]                          \* f(CONN, *wargs, **wkwargs)
       [] OTHER -> [np |-> NPos(os) + (IF vp = 0 THEN 0 ELSE (ob[vp].hi + 1) - ob[vp].lo),        \* f(w_a, w_b, *w_c, d=w_d, **w_e)
                    kw |-> {sig[i].n : i \in {j \in DOMAIN sig : sig[j].k = "KO" /\ kept(j)}} \cup (IF vk = 0 THEN {} ELSE ob[vk].ks),
                    meth |-> FALSE]
Inner(tk, sig, c) == LET own == Bind(OwnSig(tk, sig), c)
                     IN IF own.ok THEN Bind(sig, InnerCall(tk, sig, c, own.b)) ELSE TypeErr
\* the other kinds are explored outside the scope of F4b / F4c and never as methods
KindCallOK(tk, sig, c) == tk # "plain" => /\ ~c.meth
                                          /\ ~NamesPosOnly(OwnSig(tk, sig), c)
                                          /\ ~NamesPosOnly(sig, c)
\* include_args follows the same rule as for the plain function, against the callable's OWN parameters: a name that only the
\* function underneath has (InnerOnly) is refused at decoration like any other non-parameter (explored with the null call)
KindOpts(tk, sig, c) ==
  LET os == OwnSig(tk, sig)
      last == IF Len(os) = 0 THEN {} ELSE {os[Len(os)].n}
      InnerOnly == ParamNames(sig) \ ParamNames(os)
      one(S) == IF S = {} THEN {} ELSE {CHOOSE x \in S : TRUE}
      refused == {[ia |-> Ia(N), ir |-> TRUE, at |-> FALSE, fx |-> "ret", bare |-> FALSE] :
                    N \in {{"bad"}, last \cup {"bad"}} \cup (IF InnerOnly = {} THEN {} ELSE {InnerOnly, last \cup one(InnerOnly)})}
      bound == {DefaultOpt,
                [ia |-> NoIa, ir |-> FALSE, at |-> TRUE, fx |-> "ret", bare |-> FALSE],
                [ia |-> Ia(last), ir |-> TRUE, at |-> FALSE, fx |-> "ret", bare |-> FALSE]}
               \cup (IF Inner(tk, sig, c).ok
                     THEN {[ia |-> NoIa, ir |-> TRUE, at |-> FALSE, fx |-> "raise", bare |-> FALSE],
                           [ia |-> Ia(ParamNames(os)), ir |-> FALSE, at |-> TRUE, fx |-> "raise", bare |-> FALSE]}
                     ELSE {})
  IN (IF Bind(os, c).ok THEN bound ELSE {DefaultOpt}) \cup (IF NullCall(c) THEN refused ELSE {})

\* calling contexts: a sample (the plain function, short ordinary-name signatures, outside the scope of F4b / F4c)
Contexts(tk, sig, c) == {"top"} \cup (IF tk = "plain" /\ ~IsHaz(sig) /\ Len(sig) <= CtxParams /\ ~NamesPosOnly(sig, c)
                                      THEN {"action", "private"} ELSE {})
CtxOpts(sig, c) == IF Bind(sig, c).ok
                   THEN {DefaultOpt, [ia |-> NoIa, ir |-> FALSE, at |-> TRUE, fx |-> "raise", bare |-> FALSE]}
                   ELSE {DefaultOpt}
\* where the log_call action is written and which task it belongs to
Placement(ctx) == [to |-> "default", task |-> IF ctx = "top" THEN "new" ELSE "outer"]

-----------------------------------------------------------------------------
(* Part 2.  The decorator and its wrapper.                                 *)
Logged(sig, o) == {sig[i].n : i \in {j \in DOMAIN sig : /\ sig[j].n # "self"
                                                        /\ (o.ia.given => sig[j].n \in o.ia.names)}}
ActionType(c, o) == IF o.at THEN "given" ELSE IF c.meth THEN "module.Class.name" ELSE "module.name"
Ev(e, what) == [e |-> e, what |-> what]
\* what the wrapper shows around a call that binds (functions of the case only)
OS(c) == OwnSig(c.tk, c.sig)                       \* the signature the wrapper binds and logs against
\* FALSE: the callable accepts the call but raises a TypeError (T) itself when it calls the function underneath
InnerOK(c) == Bind(OS(c), c.call).ok => Inner(c.tk, c.sig, c.call).ok
StartEv(c) == [e |-> "start", type |-> ActionType(c.call, c.opt), fields |-> Logged(OS(c), c.opt),
               to |-> Placement(c.ctx).to, task |-> Placement(c.ctx).task]
EndEv(c)   == LET w == Placement(c.ctx)
              IN IF ~InnerOK(c) THEN [e |-> "end", status |-> "failed", result |-> FALSE, to |-> w.to, task |-> w.task]
                 ELSE IF c.opt.fx = "ret" THEN [e |-> "end", status |-> "succeeded", result |-> c.opt.ir, to |-> w.to, task |-> w.task]  \* result unless include_result=False
                 ELSE [e |-> "end", status |-> "failed", result |-> FALSE, to |-> w.to, task |-> w.task]
RetEv(c)   == IF ~InnerOK(c) THEN Ev("raise", "T")                                                      \* the callable's own TypeError
              ELSE IF c.opt.fx = "ret" THEN Ev("return", "R") ELSE Ev("raise", "X")                     \* the SAME object R / X

Init == /\ \E s \in Sigs : \E tk \in TargetKinds(s) :
             \* (behind "inject" the keywords worth trying are the function's parameter names, not the wrapper's)
             \E c \in (IF tk = "inject" THEN CallsP(InjectSig, ParamNames(s) \cup Extra) ELSE Calls(OwnSig(tk, s))) :
               /\ c.meth => MethOK(s, c.np)
               /\ KindCallOK(tk, s, c)
               /\ \E ctx \in Contexts(tk, s, c) :
                    \E o \in (IF ctx # "top" THEN CtxOpts(s, c) ELSE IF tk = "plain" THEN Opts(s, c) ELSE KindOpts(tk, s, c)) :
                      cs = [sig |-> s, tk |-> tk, ctx |-> ctx, call |-> c, opt |-> o]
        /\ pc = "decorate"
        /\ obs = <<>>

Decorate ==
  /\ pc = "decorate"
  /\ IF Refused(OS(cs), cs.opt)
     THEN /\ obs' = <<Ev("raise", "ValueError")>>          \* include_args names a non-parameter: refused at decoration
          /\ pc' = "done"
     ELSE /\ obs' = <<[e |-> "decorated", type |-> ActionType(cs.call, cs.opt), keeps |-> {"name", "doc", "signature"}]>>
          /\ pc' = "invoke"
  /\ UNCHANGED cs

Invoke ==
  /\ pc = "invoke"
  /\ IF Bind(OS(cs), cs.call).ok
     THEN pc' = "start" /\ obs' = obs
     ELSE pc' = "done" /\ obs' = Append(obs, Ev("raise", "TypeError"))      \* as for the undecorated function
  /\ UNCHANGED cs

Start ==
  /\ pc = "start"
  /\ obs' = Append(obs, StartEv(cs))
  /\ pc' = "call"
  /\ UNCHANGED cs

Call ==
  /\ pc = "call"
  /\ obs' = Append(obs, [e |-> "call", b |-> Bind(OS(cs), cs.call).b])      \* the callable is called once, with the same arguments
  /\ pc' = "end"
  /\ UNCHANGED cs

End ==
  /\ pc = "end"
  /\ obs' = Append(obs, EndEv(cs))
  /\ pc' = "return"
  /\ UNCHANGED cs

Return ==
  /\ pc = "return"
  /\ obs' = Append(obs, RetEv(cs))
  /\ pc' = "done"
  /\ UNCHANGED cs

Next == Decorate \/ Invoke \/ Start \/ Call \/ End \/ Return
Spec == Init /\ [][Next]_vars

-----------------------------------------------------------------------------
(* Invariants: properties of the rules, checked over the whole domain.     *)
B == Bind(OS(cs), cs.call)
INR == Inner(cs.tk, cs.sig, cs.call)
\* the two formulations of the binding rule agree (on the callable's own signature and on the function's)
BindAgree == pc = "invoke" => /\ BindSeq(OS(cs), cs.call) = B
                              /\ B.ok => BindSeq(cs.sig, InnerCall(cs.tk, cs.sig, cs.call, B.b)) = INR
\* a binding neither loses, duplicates nor invents an argument, keeps positional order, uses defaults only where they exist
Conservation == (pc = "invoke" /\ B.ok) =>
  LET sig == OS(cs)
      c == cs.call
      b == B.b
  IN /\ DOMAIN b = DOMAIN sig
     /\ \A p \in 1..c.np : Cardinality({i \in DOMAIN b : \/ b[i].t = "pos" /\ b[i].lo = p
                                                         \/ b[i].t = "vp" /\ b[i].lo <= p /\ p <= b[i].hi}) = 1
     /\ \A x \in c.kw : Cardinality({i \in DOMAIN b : \/ b[i].t = "kw" /\ sig[i].n = x
                                                      \/ b[i].t = "vk" /\ x \in b[i].ks}) = 1
     /\ \A i \in DOMAIN b : /\ b[i].t # "unf"
                            /\ b[i].t = "pos" => (b[i].lo = i /\ i <= c.np /\ sig[i].k \in {"PO", "PK"})
                            /\ b[i].t = "kw" => (sig[i].n \in c.kw /\ sig[i].k \in {"PK", "KO"})
                            /\ b[i].t = "def" => sig[i].d
                            /\ b[i].t = "vp" <=> sig[i].k = "VP"
                            /\ b[i].t = "vk" <=> sig[i].k = "VK"
                            /\ b[i].t = "vp" => (b[i].hi < b[i].lo \/ b[i].hi <= c.np)        \* empty, or arguments that exist
                            /\ b[i].t = "vk" => b[i].ks \subseteq c.kw
\* a rejected call has a reason, an accepted one has none
Rejection == pc = "invoke" => (B.ok <=> Reasons(OS(cs), cs.call) = {})
\* making positional-only parameters nameable changes the outcome only for calls that name one (scope of F4b / F4c)
DeviationScope == (pc = "invoke" /\ ~NamesPosOnly(OS(cs), cs.call)) => Bind(NoSlash(OS(cs)), cs.call) = B
\* the target kinds: an explicit wrapper that accepts its call always reaches the function; a stacked log_call and the plain
\* function see the very binding the wrapper logs; the injected argument is the function's first positional parameter
KindsOK == (pc = "invoke" /\ B.ok) =>
             /\ cs.tk \in {"renamed", "fewer"} => INR.ok
             /\ cs.tk \in {"plain", "stacked"} => INR = Bind(cs.sig, cs.call) /\ INR = B
             /\ (cs.tk = "inject" /\ INR.ok /\ NPos(cs.sig) >= 1) => INR.b[1] = V("pos", 1, 1, {})
             /\ cs.tk # "plain" => ~cs.call.meth
\* the wrapper: what is logged
LoggedOK == pc = "start" =>
            LET L == Logged(OS(cs), cs.opt)
            IN /\ "self" \notin L
               /\ L \subseteq ParamNames(OS(cs))
               /\ cs.opt.ia.given => L = (cs.opt.ia.names \cap ParamNames(OS(cs))) \ {"self"}
               /\ ~cs.opt.ia.given => L = ParamNames(OS(cs)) \ {"self"}
\* ... and a parameter that merely looks implicit (cls, this, ...) is logged like any other
ImplicitLogged == pc = "start" => \A i \in DOMAIN OS(cs) :
                    (OS(cs)[i].n \in Implicit /\ (cs.opt.ia.given => OS(cs)[i].n \in cs.opt.ia.names)) => OS(cs)[i].n \in Logged(OS(cs), cs.opt)
\* the wrapper: shape of every finished observation
Evs(e) == {i \in DOMAIN obs : obs[i].e = e}
Shape == pc = "done" =>
  IF obs[1].e = "raise" THEN /\ Len(obs) = 1 /\ obs[1].what = "ValueError" /\ cs.opt.ia.given
                             /\ ~(cs.opt.ia.names \subseteq ParamNames(OS(cs)))       \* some name is not a parameter of the callable
  ELSE IF ~B.ok THEN Len(obs) = 2 /\ obs[2] = Ev("raise", "TypeError")
  ELSE /\ Len(obs) = 5
       /\ obs[2].e = "start" /\ obs[3].e = "call" /\ obs[4].e = "end"           \* one action around exactly one call
       /\ obs[3].b = B.b                                                          \* the function sees Python's binding
       /\ obs[2].type = obs[1].type
       /\ (obs[4].status = "succeeded") <=> (obs[5] = Ev("return", "R"))
       /\ (obs[4].status = "failed") <=> (obs[5] \in {Ev("raise", "X"), Ev("raise", "T")})
       /\ (obs[5] = Ev("raise", "T")) <=> ~INR.ok          \* (here B.ok)
       /\ obs[4].result <=> (cs.opt.ir /\ cs.opt.fx = "ret" /\ INR.ok)
\* the action is written to the default logger's destinations in every context; a new task only outside any action
PlacementOK == (pc = "done" /\ Len(obs) = 5) =>
                 /\ obs[2].to = "default" /\ obs[4].to = "default"
                 /\ obs[2].task = obs[4].task
                 /\ (obs[2].task = "new") <=> (cs.ctx = "top")
TypeOK == /\ pc \in {"decorate", "invoke", "start", "call", "end", "return", "done"}
          /\ Len(obs) <= 5

\* every finished case is printed once, on one line (ToString: no wrapping, so that workers cannot interleave a record)
Emit == pc = "done" =>
  PrintT(ToString(<<"CASE", [s \in DOMAIN cs.sig |-> <<cs.sig[s].k, cs.sig[s].d, cs.sig[s].n>>],
                    <<cs.call.np, cs.call.kw, cs.call.meth>>,
                    <<cs.opt.ia.given, cs.opt.ia.names, cs.opt.ir, cs.opt.at, cs.opt.fx, cs.opt.bare>>,
                    IF B.ok THEN <<[i \in DOMAIN B.b |-> <<B.b[i].t, B.b[i].lo, B.b[i].hi, B.b[i].ks>>]>> ELSE <<>>,
                    Reasons(OS(cs), cs.call),
                    \* the deviation model for calls in the scope of F4b / F4c
                    IF NamesPosOnly(OS(cs), cs.call)
                    THEN LET D == Bind(NoSlash(OS(cs)), cs.call)
                         IN IF D.ok THEN <<[i \in DOMAIN D.b |-> <<D.b[i].t, D.b[i].lo, D.b[i].hi, D.b[i].ks>>]>> ELSE <<"TypeError">>
                    ELSE <<"-">>,
                    [i \in DOMAIN obs |-> IF obs[i].e = "call" THEN [e |-> "call"] ELSE obs[i]],
                    \* what a binding call shows (used by the harness for the deviation model when the spec says TypeError)
                    <<StartEv(cs), EndEv(cs), RetEv(cs)>>,
                    \* target kind, the callable's own signature, the binding the function underneath sees (<<>>: TypeError / not reached)
                    cs.tk,
                    [s \in DOMAIN OS(cs) |-> <<OS(cs)[s].k, OS(cs)[s].d, OS(cs)[s].n>>],
                    IF INR.ok THEN <<[i \in DOMAIN INR.b |-> <<INR.b[i].t, INR.b[i].lo, INR.b[i].hi, INR.b[i].ks>>]>> ELSE <<>>,
                    cs.ctx>>))

\* deliberately wrong variants, which TLC must reject (vacuity guards; MC_LogCall_Broken1.cfg / MC_LogCall_Broken2.cfg)
BrokenNoDupCheck  == pc = "invoke" => BindSeqV(cs.sig, cs.call, FALSE) = B     \* a keyword may overwrite a filled slot
BrokenNoDeviation == pc = "invoke" => Bind(NoSlash(cs.sig), cs.call) = B       \* "dropping the / marker is harmless"
=============================================================================
