\* start-up buffering with failing destinations: reports during the re-delivery of the buffer (F12)
SPECIFICATION Spec
VIEW view
CONSTANTS
  NCtx = 1
  NDest = 2
  MaxActs = 1
  MaxMsgs = 3
  MaxFaults = 2
  MaxDepth = 2
  MaxBlocks = 2
  MaxIds = 2
  Cap = 3
  InitDests <- D0
  AnyOrder = FALSE
  Feat = {"dests", "dfault", "noglobals"}
INVARIANT C02_Unique
INVARIANT C02_Contiguous
INVARIANT C02_StartAtOne
INVARIANT C02_EndIsLast
INVARIANT C02_Enclosed
INVARIANT C02_EmissionOrder
INVARIANT C03_OneStartOneEnd
INVARIANT C03_StatusTruthful
INVARIANT C03_FieldPlacement
INVARIANT C04_Inside
INVARIANT C04_TasksFresh
INVARIANT C06_IdFresh
INVARIANT C07_NeverRaises
INVARIANT C08_OnceEachInOrder
INVARIANT C08_OneReportPerFailure
INVARIANT C12_BufferIsRecent
INVARIANT C13_FailedNotDelivered
INVARIANT C13_FailureReports
INVARIANT C01_RoundTrip
PROPERTY C04_Restore
PROPERTY C05_NoLeak
CHECK_DEADLOCK FALSE
