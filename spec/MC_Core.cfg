\* core: start_action/with/finish/log/start_task/Action.log, one healthy destination
SPECIFICATION Spec
VIEW view
CONSTANTS
  NCtx = 1
  NDest = 1
  MaxActs = 3
  MaxMsgs = 5
  MaxFaults = 0
  MaxDepth = 2
  MaxBlocks = 2
  MaxIds = 2
  Cap = 3
  InitDests <- D1
  AnyOrder = FALSE
  Feat = {"finish", "task", "alog", "logcall"}
INVARIANT C02_Unique
INVARIANT C02_Contiguous
INVARIANT C02_StartAtOne
INVARIANT C02_EndIsLast
INVARIANT C02_Enclosed
INVARIANT C02_EmissionOrder
INVARIANT C03_OneStartOneEnd
INVARIANT C03_StatusTruthful
INVARIANT C03_FieldPlacement
INVARIANT C04_Inside
INVARIANT C04_TasksFresh
INVARIANT C06_IdFresh
INVARIANT C07_NeverRaises
INVARIANT C08_OnceEachInOrder
INVARIANT C08_OneReportPerFailure
INVARIANT C12_BufferIsRecent
INVARIANT C13_FailedNotDelivered
INVARIANT C13_FailureReports
INVARIANT C01_RoundTrip
PROPERTY C04_Restore
PROPERTY C05_NoLeak
CHECK_DEADLOCK FALSE
