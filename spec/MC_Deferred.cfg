SPECIFICATION Spec
CONSTANTS MaxOps = 4
          MaxCbs = 3
          Guard = TRUE
INVARIANT D_AtMostOneEnd
INVARIANT D_EndIff
INVARIANT D_NoCtxAfterEnd
INVARIANT D_LevelsContiguous
PROPERTY D_Truthful
PROPERTY D_CallerUntouched
CHECK_DEADLOCK FALSE
