---- MODULE MC_Eliot ----
(* Model-checking wrapper: constant values a .cfg file cannot express. *)
EXTENDS Eliot
D0 == <<>>
D1 == <<1>>
D12 == <<1, 2>>
D123 == <<1, 2, 3>>
D1234 == <<1, 2, 3, 4>>
====
