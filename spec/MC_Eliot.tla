---- MODULE MC_Eliot ----
(* Model-checking wrapper: constant values a .cfg file cannot express. *)
EXTENDS Eliot
D0 == <<>>
D1 == <<1>>
D12 == <<1, 2>>
D123 == <<1, 2, 3>>
D1234 == <<1, 2, 3, 4>>
\* emits the call history of every behaviour that reaches the message bound (used to replay an exhaustive spanning set of
\* behaviours into the real code; always TRUE as a constraint)
EmitBeh == IF Idle /\ nmsgs >= MaxMsgs THEN PrintT(<<"BEH", hist>>) ELSE TRUE
====
