\* EXPECTED TO FAIL: finding F2, a failure report allocated in an already finished action
SPECIFICATION Spec
VIEW view
CONSTANTS
  NCtx = 1
  NDest = 2
  MaxActs = 2
  MaxMsgs = 4
  MaxFaults = 2
  MaxDepth = 2
  MaxBlocks = 2
  MaxIds = 2
  Cap = 3
  InitDests <- D12
  AnyOrder = FALSE
  Feat = {"finish", "ctx", "dfault"}
INVARIANT C02_EndIsLast_Strict
CHECK_DEADLOCK FALSE
