SPECIFICATION Spec
CONSTANTS
  N = 4
  FlushPolicy = "swallow"
  MayFail = TRUE
  MayFlushFail = TRUE
INVARIANT C11_AckedDurable
INVARIANT C11_InOrderPrefix
INVARIANT C11_AtMostOneFragment
INVARIANT C10_OneWriteThenFlush
CHECK_DEADLOCK FALSE
