SPECIFICATION Spec
VIEW view
CONSTANTS
  ND = 2
  NG = 2
  Bodies <- B1
  MaxActs = 4
  MaxOps = 6
INVARIANT C15_NoLeakIntoDrivers
INVARIANT C15_ParentInOwnContext
INVARIANT C15_FinishedOnce
PROPERTY C15_DriverUnchanged
PROPERTY C15_BodyContextOwn
CHECK_DEADLOCK FALSE
