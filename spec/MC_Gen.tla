---- MODULE MC_Gen ----
EXTENDS Gen
B1 == { <<"enter", "yield", "log", "exit">>, <<"log", "ycatch", "enter", "yield">>, <<"yield", "sub", "yield">>, <<"enter", "sub", "yield", "exit">> }
B2 == { <<"enter", "yield", "log", "exit">>, <<"yield", "sub", "log">>, <<"enter", "ycatch", "yield">>, <<"sub", "enter", "yield", "log">>, <<"log", "yield">>, <<"log">>, <<"enter", "log", "exit">> }
====
