SPECIFICATION Spec
CONSTANTS
  K = 3
  Variant = "fixed"
INVARIANT C12_NoLoss
INVARIANT C12_NoDup
INVARIANT C12_NoDeadlock
CHECK_DEADLOCK FALSE
