SPECIFICATION Spec
CONSTANTS
  K = 3
  Variant = "orig"
INVARIANT C12_NoLoss
INVARIANT C12_NoDup
CHECK_DEADLOCK FALSE
