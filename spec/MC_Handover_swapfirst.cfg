SPECIFICATION Spec
CONSTANTS
  K = 3
  Variant = "swapfirst"
INVARIANT C12_NoLoss
INVARIANT C12_NoDup
INVARIANT C12_NoDeadlock
INVARIANT C12_InOrder
CHECK_DEADLOCK FALSE
