----------------------------- MODULE MC_Helpers -----------------------------
(* The bounded universe of captured lists for Helpers.tla (C17), generated INSIDE TLA+:                              *)
(*  Mode "gen":  a small grammar of logging programs.  Any open action may start a child, log, finish (succeeded or  *)
(*               failed; with EarlyFinish even before its children), reserve a position (serialize_task_id - a gap   *)
(*               if never continued) and a reserved position may be continued (remote sub-task, possibly late);      *)
(*               new tasks and context-less messages may start at any time, so tasks interleave.  Every reachable    *)
(*               state is a captured list (a capture taken in the middle of a program is a captured list too).       *)
(*  Mode "hand": every prefix of the hand-written lists below (two-digit positions with confusable neighbours,       *)
(*               late and nested remote sub-tasks, failed actions, interleaved equal-typed tasks, depth 4).          *)
(* Every distinct list is checked against C17_All and printed with the specification's predictions (one JSON line). *)
EXTENDS Helpers, Json

CONSTANTS MaxMsgs, MaxMsgsR, MaxDepth, MaxTasks, MaxResv, ActTypes, MsgTypes, EarlyFinish, Stack, Mode, Emit, Broken
VARIABLES S, resv, nres      \* the list; reserved-and-not-yet-continued positions; how many were ever reserved
vars == <<S, resv, nres>>

Mk(u, lv, k, ty, st) == [u |-> u, lv |-> lv, k |-> k, ty |-> ty, st |-> st, f |-> [x |-> Len(S) + 1, c |-> 7, n |-> NoneV]]
NumTasks == Cardinality(Uuids(S))
Open == {a \in Started(S) : ~HasEnd(S, a)}
TypeOfAct(a) == S[CHOOSE i \in StartIdx(S, a.u, a.l) : TRUE].ty
Used(a) == {S[i].lv[Len(a.l) + 1] : i \in {j \in DOMAIN S : S[j].u = a.u /\ IsPrefix(a.l, S[j].lv) /\ Len(S[j].lv) > Len(a.l)}}
           \cup {r.lv[Len(a.l) + 1] : r \in {r \in resv : r.u = a.u /\ Front(r.lv) = a.l}}
NextPos(a) == Max(Used(a)) + 1
\* lists with a reserved position (gap / remote sub-task) may be given a smaller bound: they multiply the universe
Room == Len(S) < (IF nres > 0 THEN MaxMsgsR ELSE MaxMsgs)
\* action types are interchangeable: a type other than "A" may be used only once some action exists (first-use order)
TyOK(ty) == ty = "A" \/ \E i \in DOMAIN S : S[i].k = "start"
\* Stack = TRUE: only an innermost open action acts (the `with` discipline); FALSE: any open action (contexts, threads)
Inner(a) == \A b \in Open : (b.u = a.u /\ IsPrefix(a.l, b.l)) => b = a
May(a) == IF Stack THEN Inner(a) ELSE TRUE

NewTask(ty) == /\ Room /\ NumTasks < MaxTasks /\ TyOK(ty)
               /\ S' = Append(S, Mk(NumTasks + 1, <<1>>, "start", ty, "started")) /\ UNCHANGED <<resv, nres>>
CtxLess(ty) == /\ Room /\ NumTasks < MaxTasks
               /\ S' = Append(S, Mk(NumTasks + 1, <<1>>, "msg", ty, "")) /\ UNCHANGED <<resv, nres>>
Child(a, ty) == /\ Room /\ Len(a.l) + 2 <= MaxDepth /\ TyOK(ty) /\ May(a)
                /\ S' = Append(S, Mk(a.u, a.l \o <<NextPos(a), 1>>, "start", ty, "started")) /\ UNCHANGED <<resv, nres>>
Log(a, ty) == /\ Room /\ May(a)
              /\ S' = Append(S, Mk(a.u, Append(a.l, NextPos(a)), "msg", ty, "")) /\ UNCHANGED <<resv, nres>>
Finish(a, st) == /\ Room
                 /\ IF EarlyFinish /\ ~Stack THEN TRUE ELSE Inner(a)
                 /\ S' = Append(S, Mk(a.u, Append(a.l, NextPos(a)), "end", TypeOfAct(a), st)) /\ UNCHANGED <<resv, nres>>
Reserve(a) == /\ Len(S) < MaxMsgsR /\ nres < MaxResv /\ Len(a.l) + 2 <= MaxDepth /\ May(a)
              /\ resv' = resv \cup {[u |-> a.u, lv |-> Append(a.l, NextPos(a))]} /\ nres' = nres + 1 /\ UNCHANGED S
Continue(r, ty) == /\ Room
                   /\ S' = Append(S, Mk(r.u, Append(r.lv, 1), "start", ty, "started")) /\ resv' = resv \ {r} /\ UNCHANGED nres

GenNext == \/ \E ty \in ActTypes : NewTask(ty)
           \/ \E ty \in MsgTypes : CtxLess(ty)
           \/ \E a \in Open : \/ \E ty \in ActTypes : Child(a, ty)
                              \/ \E ty \in MsgTypes : Log(a, ty)
                              \/ \E st \in {"succeeded", "failed"} : Finish(a, st)
                              \/ Reserve(a)
           \/ \E r \in resv : \E ty \in ActTypes : Continue(r, ty)

-----------------------------------------------------------------------------
\* ---- hand-written lists: <<u, lv, k, ty>>; an end is "failed" when its type ends in "!" (stripped)
M(i, u, lv, k, ty, st) == [u |-> u, lv |-> lv, k |-> k, ty |-> ty, st |-> st, f |-> [x |-> i, c |-> 7, n |-> NoneV]]
St(i, u, lv, ty) == M(i, u, lv, "start", ty, "started")
Ok(i, u, lv, ty) == M(i, u, lv, "end", ty, "succeeded")
Ko(i, u, lv, ty) == M(i, u, lv, "end", ty, "failed")
Mg(i, u, lv, ty) == M(i, u, lv, "msg", ty, "")
Renumber(s) == [i \in DOMAIN s |-> [s[i] EXCEPT !.f = [x |-> i, c |-> 7, n |-> NoneV]]]

\* H1: two-digit positions.  Equal-typed children of the root at positions 2, 20 and 22 (prefixes [2], [20], [22]);
\* the action at [2] has a child at [2,2] ("22" when levels are glued together) and the root has direct messages
\* at 3..19 and 21.  Anything that compares levels as text, or by a non-exact prefix, mixes these up.
H1 == Renumber(
      <<St(0, 1, <<1>>, "A"), St(0, 1, <<2, 1>>, "A"), St(0, 1, <<2, 2, 1>>, "B"), Ok(0, 1, <<2, 2, 2>>, "B"), Ko(0, 1, <<2, 3>>, "A")>>
      \o [n \in 1..17 |-> Mg(0, 1, <<n + 2>>, IF n % 2 = 0 THEN "m" ELSE "A")]
      \o <<St(0, 1, <<20, 1>>, "A"), Mg(0, 1, <<20, 2>>, "m"), Ok(0, 1, <<20, 3>>, "A"), Mg(0, 1, <<21>>, "m"),
           St(0, 1, <<22, 1>>, "B"), St(0, 1, <<22, 2, 1>>, "A"), Ok(0, 1, <<22, 2, 2>>, "A"), Ok(0, 1, <<22, 3>>, "B"), Ok(0, 1, <<23>>, "A")>>)
\* H2: a child with more than ten children of its own: positions [2,1]..[2,12], child actions at [2,2] and [2,11]
H2 == Renumber(
      <<St(0, 1, <<1>>, "B"), St(0, 1, <<2, 1>>, "A"), St(0, 1, <<2, 2, 1>>, "A"), Mg(0, 1, <<2, 2, 2>>, "m"), Ok(0, 1, <<2, 2, 3>>, "A")>>
      \o [n \in 1..8 |-> Mg(0, 1, <<2, n + 2>>, "m")]
      \o <<St(0, 1, <<2, 11, 1>>, "A"), Mg(0, 1, <<2, 11, 2>>, "A"), Ko(0, 1, <<2, 11, 3>>, "A"), Ok(0, 1, <<2, 12>>, "A"),
           Mg(0, 1, <<3>>, "m"), Ko(0, 1, <<4>>, "B")>>)
\* H3: remote sub-tasks (continue_task): position 2 reserved, the parent goes on, the sub-task starts LATE (after a
\* message at 3, and another one after the parent has ended); a remote sub-task nested in a remote sub-task; a
\* reserved position never continued (a gap); a second task interleaved with the same types
H3 == Renumber(
      <<St(0, 1, <<1>>, "A"), Mg(0, 1, <<3>>, "m"), St(0, 2, <<1>>, "A"), St(0, 1, <<2, 1>>, "R"), Mg(0, 1, <<2, 2>>, "m"),
        St(0, 1, <<2, 3, 1>>, "R"), Mg(0, 2, <<2>>, "m"), Mg(0, 1, <<2, 3, 2>>, "m"), Ok(0, 1, <<2, 3, 3>>, "R"), Ko(0, 1, <<2, 4>>, "R"),
        Mg(0, 1, <<6>>, "m"), Ok(0, 1, <<7>>, "A"), St(0, 1, <<4, 1>>, "R"), Ok(0, 2, <<3>>, "A"), Ok(0, 1, <<4, 2>>, "R")>>)
\* H4: two tasks with identical shapes and types, strictly interleaved, different outcomes; then a context-less
\* message whose type is the name of an action type
H4 == Renumber(
      <<St(0, 1, <<1>>, "A"), St(0, 2, <<1>>, "A"), St(0, 1, <<2, 1>>, "A"), St(0, 2, <<2, 1>>, "A"), Mg(0, 1, <<2, 2>>, "m"),
        Ko(0, 2, <<2, 2>>, "A"), Ok(0, 1, <<2, 3>>, "A"), Mg(0, 2, <<3>>, "m"), Ko(0, 1, <<3>>, "A"), Ok(0, 2, <<4>>, "A"), Mg(0, 3, <<1>>, "A")>>)
\* H5: depth 4, one type all the way down, failures at alternating depths, parent finished BEFORE its child
H5 == Renumber(
      <<St(0, 1, <<1>>, "A"), St(0, 1, <<2, 1>>, "A"), St(0, 1, <<2, 2, 1>>, "A"), St(0, 1, <<2, 2, 2, 1>>, "A"), Mg(0, 1, <<2, 2, 2, 2>>, "m"),
        Ko(0, 1, <<2, 2, 3>>, "A"), Ok(0, 1, <<2, 2, 2, 3>>, "A"), Mg(0, 1, <<2, 3>>, "A"), Ko(0, 1, <<2, 4>>, "A"), Ok(0, 1, <<3>>, "A")>>)
\* H6: the same confusions one level down: grandchildren at [2,2] and [2,20] (and [2,2] / [22] across levels), all "A"
H6 == Renumber(
      <<St(0, 1, <<1>>, "A"), St(0, 1, <<2, 1>>, "A"), St(0, 1, <<2, 2, 1>>, "A"), Mg(0, 1, <<2, 2, 2>>, "m"), Ok(0, 1, <<2, 2, 3>>, "A")>>
      \o [n \in 1..17 |-> Mg(0, 1, <<2, n + 2>>, "m")]
      \o <<St(0, 1, <<2, 20, 1>>, "A"), Mg(0, 1, <<2, 20, 2>>, "m"), Ko(0, 1, <<2, 20, 3>>, "A"), Ok(0, 1, <<2, 21>>, "A"),
           St(0, 1, <<3, 1>>, "B"), Ok(0, 1, <<3, 2>>, "B")>>
      \o [n \in 1..18 |-> Mg(0, 1, <<n + 3>>, "m")]
      \o <<St(0, 1, <<22, 1>>, "A"), Ok(0, 1, <<22, 2>>, "A"), Ok(0, 1, <<23>>, "A")>>)
Hand == <<H1, H2, H3, H4, H5, H6>>
HandPrefixes == UNION {{SubSeq(Hand[h], 1, n) : n \in 1..Len(Hand[h])} : h \in DOMAIN Hand}

-----------------------------------------------------------------------------
Init == S = <<>> /\ resv = {} /\ nres = 0
Next == IF Mode = "gen" THEN GenNext ELSE S = <<>> /\ S' \in HandPrefixes /\ UNCHANGED <<resv, nres>>
Spec == Init /\ [][Next]_vars

AllTypes == ActTypes \cup MsgTypes \cup Types(S)
SortedTypes == LET RECURSIVE F(_)                      \* strings cannot be ordered: any fixed order will do
                   F(X) == IF X = {} THEN <<>> ELSE LET x == CHOOSE y \in X : TRUE IN <<x>> \o F(X \ {x})
               IN F(AllTypes \cup {"absent"})
\* compact, as JSON arrays: S: [u, lv, k, ty, st, x, c]; T: [ty, err, acts, ptrees ("same" when equal to acts), desc, tt, msgs];
\* aa: [ty, succ, sf, ef, out, ret]; am: [ty, exp, out, ret]
Pred == [S |-> [i \in DOMAIN S |-> <<S[i].u, S[i].lv, S[i].k, S[i].ty, S[i].st, S[i].f.x, S[i].f.c>>],
         T |-> [j \in DOMAIN SortedTypes |->
                  LET p == PredType(S, SortedTypes[j]) IN
                  <<p.ty, p.err, p.acts, IF p.ptrees = p.acts THEN <<"same">> ELSE p.ptrees, p.desc, p.tt, p.msgs>>],
         aa |-> LET qs == SetToSeq(UNION {ActionQueries(S, ty) : ty \in AllTypes \cup {"absent"}})
                IN [j \in DOMAIN qs |-> LET q == qs[j]  r == AssertHasAction(S, q.ty, q.succ, q.sf, q.ef)
                                        IN <<q.ty, q.succ, q.sf, q.ef, r.out, r.ret>>],
         am |-> LET qs == SetToSeq(UNION {MessageQueries(S, ty) : ty \in AllTypes \cup {"absent"}})
                IN [j \in DOMAIN qs |-> LET q == qs[j]  r == AssertHasMessage(S, q.ty, q.exp)
                                        IN <<q.ty, q.exp, r.out, r.ret>>]]

\* invariants (evaluated once per distinct state)
Domain == WellFormed(S)
C17 == C17_All(S)
C17_OfTypeInv == C17_OfType(S)
C17_SameAsParserInv == C17_SameAsParser(S)
C17_TreeIsParserTreeInv == C17_TreeIsParserTree(S) /\ C17_ParserIsCanon(S)
C17_ExposesInv == C17_Exposes(S)
C17_PreOrderInv == C17_PreOrder(S)
C17_MsgOfTypeInv == C17_MsgOfType(S)
C17_AssertsInv == C17_Asserts(S)
EmitPred == IF Emit /\ S # <<>> THEN PrintT(ToJson(Pred)) ELSE TRUE

\* ---- deliberately wrong claims, which TLC must refute (vacuity guards; Broken selects one)
\* 1: "the helper's tree always equals the parser's" - false: a late remote sub-task is listed after younger siblings
\* 2: "of_type never raises"                          - false: unfinished actions
\* 3: "lists never interleave two tasks / never contain equal-typed ancestor and descendant"  (coverage of the universe)
BrokenClaim ==
  CASE Broken = 1 -> \A ty \in Types(S) : LET ot == OfType(S, ty).v IN
                        \A j \in DOMAIN ot : ot[j] = Tree(S, S[ot[j].s].u, Front(S[ot[j].s].lv))
    [] Broken = 2 -> \A ty \in Types(S) : ~OfType(S, ty).err
    [] Broken = 3 -> ~ \E i, j, k \in DOMAIN S : /\ i < j /\ j < k /\ S[i].u = S[k].u /\ S[i].u # S[j].u
                                                 /\ S[i].k = "start" /\ S[k].k = "start" /\ S[i].ty = S[k].ty
                                                 /\ IsPrefix(Front(S[i].lv), Front(S[k].lv))
    \* 4: "restricting of_type to top-level actions changes nothing" (the change the test-suite of eliot does not notice)
    [] Broken = 4 -> \A ty \in Types(S) : LET ot == OfType(S, ty) IN
                        ot.err \/ ot.v = SelectSeq(ot.v, LAMBDA t : Len(S[t.s].lv) = 1)
    [] OTHER -> TRUE
=============================================================================
