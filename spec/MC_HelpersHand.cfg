\* C17, hand-written lists (every prefix)
SPECIFICATION Spec
CONSTANTS
  MaxMsgs = 5
  MaxMsgsR = 5
  MaxDepth = 3
  MaxTasks = 2
  MaxResv = 1
  ActTypes = {"A", "B"}
  MsgTypes = {"m", "A"}
  EarlyFinish = TRUE
  Stack = FALSE
  Mode = "hand"
  Emit = FALSE
  Broken = 0
INVARIANT Domain
INVARIANT C17_OfTypeInv
INVARIANT C17_SameAsParserInv
INVARIANT C17_TreeIsParserTreeInv
INVARIANT C17_ExposesInv
INVARIANT C17_PreOrderInv
INVARIANT C17_MsgOfTypeInv
INVARIANT C17_AssertsInv
INVARIANT EmitPred
INVARIANT BrokenClaim
CHECK_DEADLOCK FALSE
