SPECIFICATION Spec
CONSTANTS
  Depth = 2
  Wide = FALSE
  KnownDeviations = {"time_aware"}
  Broken = FALSE
INVARIANT C10_Total
INVARIANT C10_ModeIndependent
INVARIANT C10_Compositional
INVARIANT C10_DomainIffMustWrite
INVARIANT C10_DefaultExtends
INVARIANT C10_ImplWithinStatement
INVARIANT C10_BoundedHeight
INVARIANT EmitCase
CHECK_DEADLOCK FALSE
