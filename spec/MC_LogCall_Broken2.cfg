SPECIFICATION Spec
CONSTANTS
  MaxParams = 2
  MaxPos = 2
  MaxKw = 1
  Hazard = {"self"}
  MaxHaz = 1
  Implicit = {}
  ImplKw = 1
  HazParams = 1
  HazPos = 1
  HazKw = 1
  Extra = {"zz"}
  FullOptParams = 0
  FullOptKw = 0
  KindParams = 0
  CtxParams = 0
INVARIANT BrokenNoDeviation
CHECK_DEADLOCK FALSE
