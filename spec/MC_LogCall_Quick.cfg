SPECIFICATION Spec
CONSTANTS
  MaxParams = 3
  MaxPos = 3
  MaxKw = 2
  MaxHaz = 1
  Hazard = {"self", "logger", "action_type", "_serializers", "result", "fields", "args", "kwargs"}
  Extra = {"zz", "logger"}
  FullOptParams = 1
  FullOptKw = 1
INVARIANT TypeOK
INVARIANT BindAgree
INVARIANT Conservation
INVARIANT Rejection
INVARIANT DeviationScope
INVARIANT LoggedOK
INVARIANT Shape
INVARIANT Emit
CHECK_DEADLOCK FALSE
