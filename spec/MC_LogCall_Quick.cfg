SPECIFICATION Spec
CONSTANTS
  MaxParams = 3
  MaxPos = 3
  MaxKw = 3
  Hazard = {"self", "logger", "action_type", "_serializers", "result", "fields", "args", "kwargs", "_call"}
  MaxHaz = 1
  Implicit = {"cls", "this"}
  ImplKw = 1
  HazParams = 2
  HazPos = 2
  HazKw = 2
  Extra = {"zz", "logger"}
  FullOptParams = 1
  FullOptKw = 1
  KindParams = 2
  CtxParams = 2
INVARIANT TypeOK
INVARIANT BindAgree
INVARIANT Conservation
INVARIANT Rejection
INVARIANT DeviationScope
INVARIANT KindsOK
INVARIANT LoggedOK
INVARIANT ImplicitLogged
INVARIANT Shape
INVARIANT PlacementOK
INVARIANT Emit
CHECK_DEADLOCK FALSE
