SPECIFICATION Spec
CONSTANTS
  MaxParams = 4
  MaxPos = 4
  MaxKw = 2
  Hazard = {"self", "logger", "action_type", "_serializers", "result", "fields", "args", "kwargs", "_call", "task_level", "exception"}
  MaxHaz = 1
  Implicit = {"cls", "klass", "this", "me"}
  ImplKw = 1
  HazParams = 3
  HazPos = 3
  HazKw = 2
  Extra = {"zz", "logger", "self"}
  FullOptParams = 2
  FullOptKw = 1
  KindParams = 3
  CtxParams = 3
INVARIANT TypeOK
INVARIANT BindAgree
INVARIANT Conservation
INVARIANT Rejection
INVARIANT DeviationScope
INVARIANT KindsOK
INVARIANT LoggedOK
INVARIANT ImplicitLogged
INVARIANT Shape
INVARIANT PlacementOK
INVARIANT Emit
CHECK_DEADLOCK FALSE
