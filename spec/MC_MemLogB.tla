---- MODULE MC_MemLogB ----
EXTENDS MemLogB
P2 == {<<"write", "write">>, <<"write", "serialize">>, <<"tbwrite", "reset">>, <<"serialize", "write">>, <<"reset", "write">>}
P1 == {<<"write">>, <<"serialize">>, <<"reset">>, <<"tbwrite">>}
====
