SPECIFICATION Spec
CONSTANTS
  NT = 2
  Locked = FALSE
  Progs <- P2
INVARIANT C16_Paired
INVARIANT C16_SnapshotsPaired
INVARIANT C16_TracebacksConsistent
CHECK_DEADLOCK FALSE
