SPECIFICATION Spec
CONSTANTS
  N = 3
  Atomic = FALSE
INVARIANT C06_AtMostOnce
INVARIANT C06_OthersRefused
CHECK_DEADLOCK FALSE
