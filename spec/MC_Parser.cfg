SPECIFICATION Spec
CONSTANT WhichU = 1
INVARIANT C09_OrderIndependent
INVARIANT C09_CompleteIff
INVARIANT C09_YieldOnce
CHECK_DEADLOCK FALSE
