---- MODULE MC_Parser ----
(* Exhaustive check of Parser.tla: every subset of the messages of three tasks, fed in every order and interleaving.  *)
(* Task 1: root action with a message, a nested child action, a REMOTE sub-task (continue_task) holding a nested     *)
(* action; task 2: a context-less message; task 3: a failed action with nothing inside.                              *)
EXTENDS Parser
M(id, u, lv, k) == [id |-> id, u |-> u, lv |-> lv, k |-> k]
U0 == { M(1, 1, <<1>>, "start"), M(2, 1, <<2>>, "msg"),
        M(3, 1, <<3, 1>>, "start"), M(4, 1, <<3, 2>>, "msg"), M(5, 1, <<3, 3>>, "end"),
        M(6, 1, <<4, 1>>, "start"), M(7, 1, <<4, 2, 1>>, "start"), M(8, 1, <<4, 2, 2>>, "end"), M(9, 1, <<4, 3>>, "end"),
        M(10, 1, <<5>>, "end"),
        M(11, 2, <<1>>, "msg"),
        M(12, 3, <<1>>, "start"), M(13, 3, <<2>>, "end") }
\* a smaller universe for the quick tier: two tasks interleaved
U1 == { M(1, 1, <<1>>, "start"), M(2, 1, <<2, 1>>, "start"), M(3, 1, <<2, 2>>, "msg"), M(4, 1, <<2, 3>>, "end"),
        M(5, 1, <<3>>, "msg"), M(6, 1, <<4>>, "end"),
        M(7, 2, <<1>>, "start"), M(8, 2, <<2, 1>>, "start"), M(9, 2, <<2, 2>>, "end"), M(10, 2, <<3>>, "end"), M(11, 3, <<1>>, "msg") }
CONSTANT WhichU
Spec == PInit(IF WhichU = 0 THEN U0 ELSE U1) /\ [][PNext]_pvars
\* deliberately wrong transcriptions, which TLC must reject (vacuity guards):
BrokenComplete(T, node) == /\ node.start /\ node.endp # 0 /\ Cardinality(node.kids) = node.endp - 1
====
