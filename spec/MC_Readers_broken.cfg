SPECIFICATION BrokenSpec
CONSTANT Part = "pp"
CONSTANT NameIds = {}
CONSTANT ValueClasses = {}
CONSTANT MaxExtra = 0
CONSTANT TripleMode = "rot"
CONSTANT MaxLines = 2
INVARIANT INV_PP
CHECK_DEADLOCK FALSE
