SPECIFICATION Spec
CONSTANT Part = "filter"
CONSTANT NameIds = {}
CONSTANT ValueClasses = {}
CONSTANT MaxExtra = 0
CONSTANT TripleMode = "rot"
CONSTANT MaxLines = 3
INVARIANT INV_Filter
CHECK_DEADLOCK FALSE
