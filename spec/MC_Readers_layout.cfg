SPECIFICATION Spec
CONSTANT Part = "layout"
CONSTANT NameIds = {1, 2, 3, 4, 5, 6, 7, 8, 9, 10}
CONSTANT ValueClasses = {"short", "multiline", "tabs", "nested", "number", "bool", "null", "nonascii", "meta"}
CONSTANT MaxExtra = 3
CONSTANT TripleMode = "rot"
CONSTANT MaxLines = 0
INVARIANT INV_Layout
CHECK_DEADLOCK FALSE
