SPECIFICATION Spec
CONSTANTS MaxOps = 5
          MaxDepth = 3
          ReportToCurrent = FALSE
INVARIANT R_ReportsReachDestinations
INVARIANT R_MemoryGetsNoReports
INVARIANT R_PositionsUnique
INVARIANT R_OwnMessages
CHECK_DEADLOCK FALSE
