SPECIFICATION CaseSpec
CONSTANTS
  MaxFields = 1
  MaxDev = 1
  VaryBase = FALSE
  MaxTests = 1
  RichCapture = TRUE
  MaxSteps = 0
  LifeWrites = {}
INVARIANT Broken_EveryExtraIsDeviation
CHECK_DEADLOCK FALSE
