SPECIFICATION CapSpec
CONSTANTS
  MaxFields = 0
  MaxDev = 0
  VaryBase = FALSE
  MaxTests = 2
  RichCapture = TRUE
  MaxSteps = 0
  LifeWrites = {}
INVARIANT C14_LoggerRestored
INVARIANT C14_CapturedDuring
INVARIANT C14_TracebackFails
INVARIANT EmitCap
CHECK_DEADLOCK FALSE
