SPECIFICATION LifeSpec
CONSTANTS
  MaxFields = 0
  MaxDev = 0
  VaryBase = FALSE
  MaxTests = 1
  RichCapture = TRUE
  MaxSteps = 5
  LifeWrites = {"ok", "wrong", "nonjson", "tb"}
INVARIANT C14_LifeClause
INVARIANT C14_LifeClass
INVARIANT C14_LifeSpecified
INVARIANT EmitLife
CHECK_DEADLOCK FALSE
