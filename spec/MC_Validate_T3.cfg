SPECIFICATION CaseSpec
CONSTANTS
  MaxFields = 2
  MaxDev = 1
  VaryBase = TRUE
  MaxTests = 1
  RichCapture = TRUE
  MaxSteps = 0
  LifeWrites = {}
INVARIANT C14_AcceptIff
INVARIANT C14_OkIsExclusive
INVARIANT C14_SingleClass
INVARIANT C14_ConformingAccepted
INVARIANT C14_DeviationReported
INVARIANT C14_UntypedMinimal
INVARIANT C14_TracebacksFirst
INVARIANT EmitCase
CHECK_DEADLOCK FALSE
