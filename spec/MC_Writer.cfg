SPECIFICATION Spec
CONSTANTS
  NP = 2
  NM = 2
  Variant = "ok"
INVARIANT C19_ExactlyOnce
INVARIANT C19_AllWrittenBeforeStopCompletes
INVARIANT C19_PerProducerOrder
INVARIANT C19_StopCompletes
CHECK_DEADLOCK FALSE
