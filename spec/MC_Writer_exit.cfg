SPECIFICATION Spec
CONSTANTS
  NP = 2
  NM = 2
  Variant = "exit_on_stop"
INVARIANT C19_ExactlyOnce
INVARIANT C19_AllWrittenBeforeStopCompletes
INVARIANT C19_PerProducerOrder
INVARIANT C19_StopCompletes
CHECK_DEADLOCK FALSE
