SPECIFICATION Spec
CONSTANTS MaxKids = 2
INVARIANT W_AcceptsExactly
INVARIANT W_WellFormedAccepted
INVARIANT W_Direct
INVARIANT W_OnePerLevel
INVARIANT W_StartIsStart
INVARIANT W_EndIsEnd
CHECK_DEADLOCK FALSE
