------------------------------ MODULE MemLogA ------------------------------
(***************************************************************************)
(* Level A (observable) specification of eliot.MemoryLogger under          *)
(* concurrent use: the logger behaves as if every call took effect         *)
(* atomically at some instant between its invocation and its return        *)
(* (linearizability w.r.t. the atomic logger below).  A recorded history   *)
(* of real threads is accepted iff some choice of linearization points     *)
(* explains every returned value and the final contents.                   *)
(*                                                                         *)
(* Atomic logger: st = sequence of stored messages [id, n, tb] where n is  *)
(* how many times the message was serialized IN PLACE (validate() does     *)
(* that, documented), tb = its exception class (0 = not a traceback);      *)
(* tbs = ids in tracebackMessages.                                         *)
(***************************************************************************)
EXTENDS Naturals, Sequences, FiniteSets, TLC, Json, IOUtils, TLCExt
TraceFile == JsonDeserialize(IOEnv.TRACE_FILE)
Traces == TraceFile.traces
VARIABLES tid, l, st, tbs, pend
vars == <<tid, l, st, tbs, pend>>
Events == Traces[tid].ev
N == Len(Events)
Ev == Events[l]
Threads == {"T1", "T2", "T3"}
None == [op |-> "none"]

\* the atomic effect and result of an operation o on the logger
Effect(o) ==
  CASE o.op = "write"     -> [st |-> Append(st, [id |-> o.id, n |-> 0, tb |-> o.tb, bad |-> o.bad]),
                              tbs |-> IF o.tb # 0 THEN Append(tbs, o.id) ELSE tbs, r |-> <<>>]
    [] o.op = "validate"  -> \* stops at the first message that does not validate (raising); the earlier ones were serialized in place
                             LET firstbad == IF \E i \in DOMAIN st : st[i].bad THEN CHOOSE i \in DOMAIN st : st[i].bad /\ \A j \in 1..(i - 1) : ~st[j].bad
                                             ELSE Len(st) + 1
                             IN [st |-> [i \in DOMAIN st |-> IF i < firstbad THEN [st[i] EXCEPT !.n = @ + 1] ELSE st[i]], tbs |-> tbs,
                                 r |-> IF firstbad <= Len(st) THEN <<<<"raised", "ValidationError">>>> ELSE <<>>]
    [] o.op = "serialize" -> [st |-> st, tbs |-> tbs, r |-> [i \in DOMAIN st |-> <<st[i].id, st[i].n + 1>>]]
    [] o.op = "flush"     -> LET cls(i) == (CHOOSE j \in DOMAIN st : st[j].id = i)
                                 hit(i) == \E j \in DOMAIN st : st[j].id = i /\ st[j].tb \in o.classes
                             IN [st |-> st, tbs |-> SelectSeq(tbs, LAMBDA i : ~hit(i)), r |-> SelectSeq(tbs, hit)]
    [] o.op = "reset"     -> [st |-> <<>>, tbs |-> <<>>, r |-> <<>>]

Init == /\ tid \in DOMAIN Traces /\ l = 1 /\ st = <<>> /\ tbs = <<>> /\ pend = [t \in Threads |-> None]
Inv == /\ l <= N /\ Ev.e = "inv" /\ pend[Ev.t].op = "none"
       /\ pend' = [pend EXCEPT ![Ev.t] = [op |-> Ev.op, id |-> Ev.id, tb |-> Ev.tb, bad |-> Ev.bad, classes |-> {Ev.classes[i] : i \in DOMAIN Ev.classes},
                                         lin |-> FALSE, r |-> <<>>]]
       /\ l' = l + 1 /\ UNCHANGED <<tid, st, tbs>>
\* the silent linearization point of a pending call
Lin(t) == /\ pend[t].op # "none" /\ ~pend[t].lin
          /\ LET e == Effect(pend[t]) IN
             /\ st' = e.st /\ tbs' = e.tbs
             /\ pend' = [pend EXCEPT ![t].lin = TRUE, ![t].r = e.r]
          /\ UNCHANGED <<tid, l>>
Res == /\ l <= N /\ Ev.e = "res" /\ pend[Ev.t].op # "none" /\ pend[Ev.t].lin
       /\ Ev.r = pend[Ev.t].r
       /\ pend' = [pend EXCEPT ![Ev.t] = None]
       /\ l' = l + 1 /\ UNCHANGED <<tid, st, tbs>>
Final == /\ l = N + 1
         /\ Traces[tid].final.msgs = [i \in DOMAIN st |-> <<st[i].id, st[i].n>>]
         /\ Traces[tid].final.tbs = tbs
         /\ PrintT(<<"ACC", tid>>)
         /\ l' = N + 2 /\ UNCHANGED <<tid, st, tbs, pend>>
Next == Inv \/ Res \/ Final \/ \E t \in Threads : Lin(t)
Spec == Init /\ [][Next]_vars
=============================================================================
