------------------------------- MODULE MemLogB -------------------------------
(***************************************************************************)
(* Level B (source-line granularity) model of eliot.MemoryLogger:          *)
(*   write:     [lock] validate copy; messages.append; serializers.append; *)
(*              (traceback: tracebackMessages.append) [unlock]             *)
(*   serialize: [lock] for (m, s) in zip(messages, serializers) ... [unlock]*)
(*   reset:     [lock] messages = []; serializers = []; tracebacks = []    *)
(* Each statement is one step; @exclusively is acquire/release of the      *)
(* per-instance lock.  Locked = FALSE is the broken sibling (lock removed): *)
(* TLC must then find the two parallel lists out of step.                  *)
(***************************************************************************)
EXTENDS Naturals, Sequences, FiniteSets, TLC
CONSTANTS NT, Locked, Progs      \* Progs: the set of programs (sequences of op names) a thread may run
VARIABLES prog, ip, pc, msgs, sers, tbs, holder, snap, results
vars == <<prog, ip, pc, msgs, sers, tbs, holder, snap, results>>
T == 1..NT
Init == /\ prog \in [T -> Progs] /\ ip = [t \in T |-> 1] /\ pc = [t \in T |-> "idle"]
        /\ msgs = <<>> /\ sers = <<>> /\ tbs = <<>> /\ holder = 0 /\ snap = [t \in T |-> <<>>] /\ results = <<>>
Op(t) == prog[t][ip[t]]
Id(t) == t * 10 + ip[t]                     \* identity of the message thread t writes at this step
Begin(t) == /\ pc[t] = "idle" /\ ip[t] <= Len(prog[t])
            /\ pc' = [pc EXCEPT ![t] = "acq"] /\ UNCHANGED <<prog, ip, msgs, sers, tbs, holder, snap, results>>
Acquire(t) == /\ pc[t] = "acq" /\ (Locked => holder = 0)
              /\ holder' = IF Locked THEN t ELSE holder
              /\ pc' = [pc EXCEPT ![t] = Op(t) \o "1"] /\ UNCHANGED <<prog, ip, msgs, sers, tbs, snap, results>>
\* write
W1(t) == pc[t] = "write1" /\ msgs' = Append(msgs, Id(t)) /\ pc' = [pc EXCEPT ![t] = "write2"]
         /\ UNCHANGED <<prog, ip, sers, tbs, holder, snap, results>>
W2(t) == pc[t] = "write2" /\ sers' = Append(sers, Id(t)) /\ pc' = [pc EXCEPT ![t] = "rel"]
         /\ UNCHANGED <<prog, ip, msgs, tbs, holder, snap, results>>
\* traceback write: a third list
B1(t) == pc[t] = "tbwrite1" /\ msgs' = Append(msgs, Id(t)) /\ pc' = [pc EXCEPT ![t] = "tbwrite2"]
         /\ UNCHANGED <<prog, ip, sers, tbs, holder, snap, results>>
B2(t) == pc[t] = "tbwrite2" /\ sers' = Append(sers, Id(t)) /\ pc' = [pc EXCEPT ![t] = "tbwrite3"]
         /\ UNCHANGED <<prog, ip, msgs, tbs, holder, snap, results>>
B3(t) == pc[t] = "tbwrite3" /\ tbs' = Append(tbs, Id(t)) /\ pc' = [pc EXCEPT ![t] = "rel"]
         /\ UNCHANGED <<prog, ip, msgs, sers, holder, snap, results>>
\* serialize: zip() takes the two list objects, iteration pairs element i of each as they are then
S1(t) == pc[t] = "serialize1" /\ snap' = [snap EXCEPT ![t] = [i \in 1..(IF Len(msgs) < Len(sers) THEN Len(msgs) ELSE Len(sers)) |-> <<msgs[i], sers[i]>>]]
         /\ pc' = [pc EXCEPT ![t] = "serialize2"] /\ UNCHANGED <<prog, ip, msgs, sers, tbs, holder, results>>
S2(t) == pc[t] = "serialize2" /\ results' = Append(results, snap[t]) /\ pc' = [pc EXCEPT ![t] = "rel"]
         /\ UNCHANGED <<prog, ip, msgs, sers, tbs, holder, snap>>
\* reset: three assignments
R1(t) == pc[t] = "reset1" /\ msgs' = <<>> /\ pc' = [pc EXCEPT ![t] = "reset2"] /\ UNCHANGED <<prog, ip, sers, tbs, holder, snap, results>>
R2(t) == pc[t] = "reset2" /\ sers' = <<>> /\ pc' = [pc EXCEPT ![t] = "reset3"] /\ UNCHANGED <<prog, ip, msgs, tbs, holder, snap, results>>
R3(t) == pc[t] = "reset3" /\ tbs' = <<>> /\ pc' = [pc EXCEPT ![t] = "rel"] /\ UNCHANGED <<prog, ip, msgs, sers, holder, snap, results>>
Release(t) == /\ pc[t] = "rel" /\ holder' = IF Locked THEN 0 ELSE holder
              /\ pc' = [pc EXCEPT ![t] = "idle"] /\ ip' = [ip EXCEPT ![t] = @ + 1]
              /\ UNCHANGED <<prog, msgs, sers, tbs, snap, results>>
Next == \E t \in T : Begin(t) \/ Acquire(t) \/ W1(t) \/ W2(t) \/ B1(t) \/ B2(t) \/ B3(t) \/ S1(t) \/ S2(t) \/ R1(t) \/ R2(t) \/ R3(t) \/ Release(t)
Spec == Init /\ [][Next]_vars
Quiet == \A t \in T : pc[t] = "idle"
Range(s) == {s[i] : i \in DOMAIN s}
\* level A, as invariants of level B
C16_Paired == Quiet => msgs = sers                                   \* messages[i] belongs with serializers[i]
C16_SnapshotsPaired == \A k \in DOMAIN results : \A i \in DOMAIN results[k] : results[k][i][1] = results[k][i][2]
C16_TracebacksConsistent == Quiet => Range(tbs) \subseteq Range(msgs)
=============================================================================
