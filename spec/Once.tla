-------------------------------- MODULE Once --------------------------------
(***************************************************************************)
(* Level B model of the callable returned by preserve_context:             *)
(*     if not called.acquire(False): raise TooManyCalls                    *)
(*     with Action.continue_task(task_id=task_id): return f(...)           *)
(* `called.acquire(False)` is an atomic test-and-set (Atomic = TRUE).      *)
(* Atomic = FALSE is the broken sibling (a plain flag: test, then set, two *)
(* steps) which TLC must reject.                                           *)
(***************************************************************************)
EXTENDS Naturals, FiniteSets, TLC
CONSTANTS N, Atomic
VARIABLES pc, called, ran, res
vars == <<pc, called, ran, res>>
T == 1..N
Init == pc = [t \in T |-> "start"] /\ called = FALSE /\ ran = 0 /\ res = [t \in T |-> "none"]
TestAndSet(t) == /\ Atomic /\ pc[t] = "start"
                 /\ IF called THEN pc' = [pc EXCEPT ![t] = "done"] /\ res' = [res EXCEPT ![t] = "too_many"] /\ UNCHANGED called
                    ELSE called' = TRUE /\ pc' = [pc EXCEPT ![t] = "run"] /\ UNCHANGED res
                 /\ UNCHANGED ran
Test(t) == /\ ~Atomic /\ pc[t] = "start"
           /\ IF called THEN pc' = [pc EXCEPT ![t] = "done"] /\ res' = [res EXCEPT ![t] = "too_many"]
              ELSE pc' = [pc EXCEPT ![t] = "set"] /\ UNCHANGED res
           /\ UNCHANGED <<called, ran>>
Set(t) == pc[t] = "set" /\ called' = TRUE /\ pc' = [pc EXCEPT ![t] = "run"] /\ UNCHANGED <<ran, res>>
Run(t) == pc[t] = "run" /\ ran' = ran + 1 /\ pc' = [pc EXCEPT ![t] = "done"] /\ res' = [res EXCEPT ![t] = "ran"] /\ UNCHANGED called
Next == \E t \in T : TestAndSet(t) \/ Test(t) \/ Set(t) \/ Run(t)
Spec == Init /\ [][Next]_vars
C06_AtMostOnce == ran <= 1
C06_OthersRefused == (\A t \in T : pc[t] = "done") => /\ Cardinality({t \in T : res[t] = "ran"}) = 1
                                                       /\ \A t \in T : res[t] \in {"ran", "too_many"}
=============================================================================
