-------------------------------- MODULE OnceA --------------------------------
(* Level A for the callable returned by preserve_context, on a recorded history of real threads invoking it:        *)
(* the function ran at most once; every other invocation raised TooManyCalls; the result / exception of the single  *)
(* run was passed through; exactly one remote action was logged and no (task_uuid, task_level) was used twice.      *)
EXTENDS Naturals, Sequences, FiniteSets, TLC, Json, IOUtils, TLCExt
TraceFile == JsonDeserialize(IOEnv.TRACE_FILE)
Traces == TraceFile.traces
VARIABLES tid, done
H == Traces[tid]
Res == {i \in DOMAIN H.ev : H.ev[i].e = "res"}
Clause == IF H.f_calls > 1 THEN "function_ran_more_than_once"
          ELSE IF Cardinality({i \in Res : H.ev[i].r = "ran"}) # 1 THEN "not_exactly_one_successful_invocation"
          ELSE IF \E i \in Res : H.ev[i].r \notin {"ran", "too_many"} THEN "result_or_exception_not_passed_through"
          ELSE IF H.remote_starts # 1 THEN "remote_action_not_logged_exactly_once"
          ELSE IF H.dup_levels # 0 THEN "duplicate_task_level"
          ELSE ""
Init == tid \in DOMAIN Traces /\ done = FALSE
Next == ~done /\ PrintT(<<"ACC", tid, Clause>>) /\ done' = TRUE /\ UNCHANGED tid
Spec == Init /\ [][Next]_<<tid, done>>
=============================================================================
