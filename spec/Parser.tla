------------------------------- MODULE Parser -------------------------------
(***************************************************************************)
(* eliot.parse: transcription of Task.add, Task._insert_action,            *)
(* Task._ensure_node_parents and Parser.add, together with a DECLARATIVE   *)
(* reference (Canon) that defines the parser's state as a function of the  *)
(* SET of messages received so far.  C09 = "the transcription always       *)
(* equals the reference" (hence order independence), plus exact            *)
(* completeness and yield-once.                                            *)
(*                                                                         *)
(* A message is [id, u, lv, k]: identity, task (uuid) number, task_level,  *)
(* k \in {"start","end","msg"}.                                            *)
(***************************************************************************)
EXTENDS Naturals, Sequences, FiniteSets, TLC

VARIABLES univ,       \* the set of messages of the well-formed tasks under consideration (never changes)
          received,   \* set of message ids already fed to the parser
          tasks,      \* [uuid -> [nodes: [level -> Node], completed: SUBSET level]]     (Parser._tasks)
          yielded     \* sequence of uuids returned as complete by Parser.add
pvars == <<univ, received, tasks, yielded>>

Front(s) == SubSeq(s, 1, Len(s) - 1)
Last(s)  == s[Len(s)]
Range(s) == {s[i] : i \in DOMAIN s}
Ext(f, k, v) == [x \in DOMAIN f \cup {k} |-> IF x = k THEN v ELSE f[x]]
NewAction == [start |-> FALSE, endp |-> 0, kids |-> {}, ismsg |-> FALSE]       \* WrittenAction(task_level=..)
MsgRoot   == [start |-> FALSE, endp |-> 0, kids |-> {}, ismsg |-> TRUE]        \* a context-less message as root
EmptyTask == [nodes |-> <<>>, completed |-> {}]

\* ---- Task._insert_action / Task._ensure_node_parents
\* complete: start and end present, child count = end position - 2, every child ACTION already complete
IsComplete(T, node) == /\ node.start /\ node.endp # 0
                       /\ Cardinality(node.kids) = node.endp - 2
                       /\ \A k \in node.kids : (k \in DOMAIN T.nodes) => k \in T.completed
RECURSIVE InsertAction(_, _, _)
InsertAction(T, lv, node) ==
  LET T1 == [nodes |-> Ext(T.nodes, lv, node),
             completed |-> IF IsComplete(T, node) THEN T.completed \cup {lv} ELSE T.completed]
  IN IF lv = <<>> THEN T1
     ELSE LET pl == Front(lv)
              parent == IF pl \in DOMAIN T1.nodes THEN T1.nodes[pl] ELSE NewAction
          IN InsertAction(T1, pl, [parent EXCEPT !.kids = @ \cup {lv}])

\* ---- Task.add
TaskAdd(T, m) ==
  IF m.k \in {"start", "end"}
  THEN LET al == Front(m.lv)
           a0 == IF al \in DOMAIN T.nodes THEN T.nodes[al] ELSE NewAction
           a1 == IF m.k = "start" THEN [a0 EXCEPT !.start = TRUE] ELSE [a0 EXCEPT !.endp = Last(m.lv)]
       IN InsertAction(T, al, a1)
  ELSE IF m.lv = <<1>>
       THEN [nodes |-> Ext(T.nodes, <<>>, MsgRoot), completed |-> T.completed \cup {<<>>}]
       ELSE LET pl == Front(m.lv)
                parent == IF pl \in DOMAIN T.nodes THEN T.nodes[pl] ELSE NewAction
            IN InsertAction(T, pl, [parent EXCEPT !.kids = @ \cup {m.lv}])

\* ---- Parser.add: a task is returned (and forgotten) as soon as its root is complete
Add(m) ==
  /\ m \in univ /\ m.id \notin received
  /\ received' = received \cup {m.id}
  /\ LET t0 == IF m.u \in DOMAIN tasks THEN tasks[m.u] ELSE EmptyTask
         t1 == TaskAdd(t0, m)
     IN IF <<>> \in t1.completed
        THEN /\ tasks' = [u \in DOMAIN tasks \ {m.u} |-> tasks[u]]
             /\ yielded' = Append(yielded, m.u)
        ELSE /\ tasks' = Ext(tasks, m.u, t1)
             /\ UNCHANGED yielded
  /\ UNCHANGED univ

PInit(U) == univ = U /\ received = {} /\ tasks = <<>> /\ yielded = <<>>
PNext == \E m \in univ : Add(m)

-----------------------------------------------------------------------------
\* ---- declarative reference: the parser state as a function of the received SET
MsgsOf(u, R) == {m \in univ : m.u = u /\ m.id \in R}
IsPrefix(p, s) == Len(p) <= Len(s) /\ SubSeq(s, 1, Len(p)) = p
Prefixes(s) == {SubSeq(s, 1, n) : n \in 0..Len(s)}
IsCtxLess(m) == m.k = "msg" /\ m.lv = <<1>>
ActLevels(S) == UNION {Prefixes(Front(m.lv)) : m \in {m \in S : ~IsCtxLess(m)}}
KidsOf(S, l) == {SubSeq(m.lv, 1, Len(l) + 1) : m \in {m \in S : IsPrefix(l, m.lv) /\ Len(m.lv) > Len(l) + 1}}
                \cup {m.lv : m \in {m \in S : m.k = "msg" /\ ~IsCtxLess(m) /\ Front(m.lv) = l}}
CanonNode(S, l) == [start |-> \E m \in S : m.k = "start" /\ Front(m.lv) = l,
                    endp  |-> IF \E m \in S : m.k = "end" /\ Front(m.lv) = l
                              THEN Last((CHOOSE m \in S : m.k = "end" /\ Front(m.lv) = l).lv) ELSE 0,
                    kids  |-> KidsOf(S, l), ismsg |-> FALSE]
RECURSIVE CanonComplete(_, _)
CanonComplete(S, l) == LET n == CanonNode(S, l) IN
                         /\ n.start /\ n.endp # 0 /\ Cardinality(n.kids) = n.endp - 2
                         /\ \A k \in n.kids : (k \in ActLevels(S)) => CanonComplete(S, k)
CanonTask(S) == IF \E m \in S : IsCtxLess(m)
                THEN [nodes |-> [l \in {<<>>} |-> MsgRoot], completed |-> {<<>>}]
                ELSE [nodes |-> [l \in ActLevels(S) |-> CanonNode(S, l)],
                      completed |-> {l \in ActLevels(S) : CanonComplete(S, l)}]
Uuids == {m.u : m \in univ}
AllIn(u) == \A m \in univ : m.u = u => m.id \in received

RootComplete(S) == \/ \E m \in S : IsCtxLess(m)
                   \/ (S # {} /\ CanonComplete(S, <<>>))
\* a task all of whose messages are in the universe and which is finished (no unfinished action, no task id that was
\* serialized but never continued): only such a task can ever be complete
Finishable(u) == RootComplete({m \in univ : m.u = u})

\* the parser's state depends only on WHICH messages have arrived (not on their order or interleaving), and is the
\* partial tree of exactly those messages
C09_OrderIndependent ==
  /\ DOMAIN tasks = {u \in Uuids : MsgsOf(u, received) # {} /\ ~RootComplete(MsgsOf(u, received))}
  /\ \A u \in DOMAIN tasks : tasks[u] = CanonTask(MsgsOf(u, received))
\* a task is reported complete exactly when the last of its messages has arrived (never earlier, never for a task that
\* still misses messages)
C09_CompleteIff == /\ \A u \in Uuids : (u \in Range(yielded)) <=> RootComplete(MsgsOf(u, received))
                   /\ \A u \in Uuids : Finishable(u) => (RootComplete(MsgsOf(u, received)) <=> AllIn(u))
                   /\ \A u \in Uuids : ~Finishable(u) => u \notin Range(yielded)
C09_YieldOnce   == \A i, j \in DOMAIN yielded : i # j => yielded[i] # yielded[j]

-----------------------------------------------------------------------------
\* ---- the public surface of a Task (what Task.root() shows), used to compare with the real parser
RECURSIVE ActTree(_, _)
\* children in the order of their last index (closed form: TLC re-evaluates LET definitions inside recursive operators)
SortByLast(S) == [i \in 1..Cardinality(S) |-> CHOOSE y \in S : Cardinality({z \in S : Last(z) < Last(y)}) = i - 1]
KidTree(T, k) == IF k \in DOMAIN T.nodes THEN ActTree(T, k) ELSE <<"msg", Last(k)>>
ActTree(T, l) == <<"act", T.nodes[l].start, T.nodes[l].endp,
                   [i \in 1..Cardinality(T.nodes[l].kids) |-> KidTree(T, SortByLast(T.nodes[l].kids)[i])]>>
TreeOf(T) == IF T.nodes[<<>>].ismsg THEN <<"msgroot">> ELSE ActTree(T, <<>>)
=============================================================================
