------------------------------ MODULE Readers ------------------------------
(* C20 -- the bundled readers of Eliot: eliot.prettyprint (pretty_format, compact_format, the eliot-prettyprint     *)
(* command) and eliot.filter.  Three decision procedures, selected by the constant Part:                            *)
(*                                                                                                                  *)
(*  "layout"  the layout rules of pretty_format / compact_format as a decision table over abstract messages          *)
(*            (which of action_type / message_type / action_status are present, 0..MaxExtra further fields, each     *)
(*            with a field-NAME class and a VALUE class).  One TLC state per message; the expected layout is         *)
(*            computed by the operators below and printed as a <<"LAY", ...>> record.                                *)
(*  "pp"      the per-line state machine of the eliot-prettyprint command over streams of input-line classes.        *)
(*  "filter"  the per-line state machine of eliot.filter over streams of JSON lines and expression classes.          *)
(*                                                                                                                  *)
(* TLC enumerates every case, checks the invariants (properties of the rules themselves) and prints                  *)
(* (case, expected outcome) records (through ToString, so that each record is one output line); harness/checks_c20.py instantiates every record with concrete witnesses, runs   *)
(* the real functions / command-line entry points and compares what they did with the record.                        *)
EXTENDS Naturals, Sequences, FiniteSets, TLC

CONSTANTS Part,          \* "layout" | "pp" | "filter"
          NameIds,       \* layout: subset of 1..10, the field-name slots in use (see NameClass)
          ValueClasses,  \* layout: subset of AllValueClasses
          MaxExtra,      \* layout: at most this many fields besides the six reserved ones (0..3)
          TripleMode,    \* layout: how many value assignments for three extra fields: "full" | "pair" | "rot"
          MaxLines       \* pp / filter: streams of 1..MaxLines lines

VARIABLES case, pos, out, done
vars == <<case, pos, out, done>>

Range(s) == {s[i] : i \in DOMAIN s}
RECURSIVE AscSeq(_)
AscSeq(S) == IF S = {} THEN <<>>
              ELSE LET m == CHOOSE x \in S : \A y \in S : x <= y IN <<m>> \o AscSeq(S \ {m})
SeqsUpTo(S, n) == UNION {[1..k -> S] : k \in 1..n}

(* ================================================================================================================ *)
(* (a) LAYOUT                                                                                                       *)
(* ================================================================================================================ *)
HeaderOrder == <<"task_uuid", "task_level", "timestamp">>        \* rendered first, in this order
FirstOrder  == <<"action_type", "message_type", "action_status">> \* then these, those that are present
Reserved    == Range(HeaderOrder) \cup Range(FirstOrder)

(* Field-name slots.  The NAME ORDER is the numeric order of the slot: the harness draws, for slot n, a witness name  *)
(* of class NameClass[n] such that every witness of slot n sorts (Python str order) before every witness of n+1.     *)
NameClass == << "blank",      \*  1  "", " ", " lead", "%", "%s"  (empty / leading blank / leading per-cent sign)
                "digit",      \*  2  "0day", "42", "100%"
                "upper",      \*  3  "Zeta", "KEY"
                "under",      \*  4  "_private", "__x"
                "plainA",     \*  5  "alpha", "count", "a % b"   (ordinary identifiers a..m)
                "plainB",     \*  6  "name", "path", "result"     (ordinary identifiers n..r)
                "lookalike",  \*  7  "task_uuid2", "timestamps"   (extends a reserved name, must NOT be treated as one)
                "punct",      \*  8  "x=y", "w: z", "y y", "{}"   (characters the layouts / formatting themselves use)
                "linebreak",  \*  9  "~a\nb", "~a\rb"             (a line-break character inside the NAME)
                "nonascii" >> \* 10  non-ASCII names
(* "meta" = text made of the meta-characters of Python's own formatting machinery (per-cent directives, str.format     *)
(* braces, backslashes): "%", "%%", "%s", "%d items", "50%% off", "100%", "%(x)s", "a % b", "{}", "{0}", "C:\dir".  A  *)
(* rendered field must come out as data whatever it contains; the same characters occur in field NAMES (witnesses of  *)
(* slots 1, 2, 5 and 8) and inside nested values.                                                                      *)
AllValueClasses == {"short", "multiline", "tabs", "nested", "number", "bool", "null", "nonascii", "meta"}
ValueSeq == <<"short", "multiline", "tabs", "nested", "number", "bool", "null", "nonascii", "meta">>
NV == Len(ValueSeq)

(* An abstract message: which "first" fields it has, and a function  name slot -> value class  for the others.      *)
NameSets == {S \in SUBSET NameIds : Cardinality(S) <= MaxExtra}
VIdx(v) == CHOOSE i \in DOMAIN ValueSeq : ValueSeq[i] = v
Rot(S, k) == LET s == AscSeq(S) IN [n \in S |-> ValueSeq[((k + (CHOOSE i \in DOMAIN s : s[i] = n)) % NV) + 1]]
(* three extra fields: "full" = all NV^3 value assignments; "pair" = all NV^2 assignments of the first two names, the      *)
(* third determined by them (every pair of classes meets on adjacent fields); "rot" = the NV rotations of ValueSeq        *)
ExtrasOver(S) == IF Cardinality(S) = 3 /\ TripleMode = "rot"
                 THEN {f \in {Rot(S, k) : k \in 0..(NV - 1)} : \A n \in S : f[n] \in ValueClasses}
                 ELSE IF Cardinality(S) = 3 /\ TripleMode = "pair"
                 THEN LET s == AscSeq(S) IN {f \in [S -> ValueClasses] : f[s[3]] = ValueSeq[((VIdx(f[s[1]]) + VIdx(f[s[2]])) % NV) + 1]}
                 ELSE [S -> ValueClasses]
Messages == {[first |-> F, extras |-> E] : F \in SUBSET Range(FirstOrder), E \in UNION {ExtrasOver(S) : S \in NameSets}}

(* The layout rule, common to both formats:  header ; first fields present ; every remaining field, sorted by name.  *)
FirstOf(m) == SelectSeq(FirstOrder, LAMBDA f : f \in m.first)
RestOf(m)  == AscSeq(DOMAIN m.extras)
Layout(m)  == [header |-> HeaderOrder, first |-> FirstOf(m), rest |-> RestOf(m)]

(* How a value is shown.  compact: always the JSON encoding (json.loads gives the value back).  pretty: pprint, with *)
(* \n and \t of strings shown raw -- so a multi-line string is shown line by line, continuation lines re-indented.  *)
CompactRule(v) == "json"
PrettyRule(v) == CASE v = "multiline" -> "lines"      \* every line of the text verbatim, in order
                   [] v = "tabs"      -> "words"      \* the tab-separated pieces, in order
                   [] v = "nested"    -> "leaves"     \* every scalar leaf in its repr form
                   [] OTHER           -> "repr"       \* the repr form of the scalar

(* The compact form is ONE line, whatever the message (requirement).  Known deviation F6 of the implementation:     *)
(* names are written raw, so a name of class "linebreak" breaks the line; the record carries that flag so that the  *)
(* harness can match exactly this mechanism and nothing else.                                                        *)
CompactLinesRequired(m) == 1
DevF6(m) == \E n \in DOMAIN m.extras : NameClass[n] = "linebreak"

LayoutRecord(m) == <<"LAY", FirstOf(m), [i \in 1..Len(RestOf(m)) |-> <<RestOf(m)[i], m.extras[RestOf(m)[i]]>>], DevF6(m)>>

(* Properties of the rule, checked by TLC on every message of the domain *)
INV_LayoutExactlyOnce(m) ==
    LET l == Layout(m) IN
    /\ Range(l.header) = Range(HeaderOrder) /\ Len(l.header) = 3
    /\ Range(l.first) = m.first /\ Len(l.first) = Cardinality(m.first)              \* each present first field once
    /\ Range(l.rest) = DOMAIN m.extras /\ Len(l.rest) = Cardinality(DOMAIN m.extras) \* each remaining field once
INV_LayoutOrder(m) ==
    LET l == Layout(m) IN
    /\ l.header = HeaderOrder
    /\ \A i, j \in DOMAIN l.first : i < j =>
          (CHOOSE a \in DOMAIN FirstOrder : FirstOrder[a] = l.first[i]) < (CHOOSE b \in DOMAIN FirstOrder : FirstOrder[b] = l.first[j])
    /\ \A i, j \in DOMAIN l.rest : i < j => l.rest[i] < l.rest[j]
INV_EveryValueHasARule(m) ==
    \A n \in DOMAIN m.extras : /\ CompactRule(m.extras[n]) = "json"
                               /\ PrettyRule(m.extras[n]) \in {"lines", "words", "leaves", "repr"}

(* ================================================================================================================ *)
(* (b) eliot-prettyprint: one output block per input line, never stops                                               *)
(* ================================================================================================================ *)
LineClasses == {"eliot",     \* a JSON object with task_uuid, task_level, timestamp
                "missing",   \* a JSON object lacking at least one of them
                "mistyped",  \* a JSON object that has all three, but not with the types Eliot writes (task_level 5 / [] /
                             \* ["a"], timestamp "x" / null / 1e20 / NaN, task_uuid not a string, ...)
                "scalar",    \* a JSON number / string / boolean
                "array",     \* a JSON array
                "null",      \* JSON null
                "text",      \* text that is not JSON
                "badutf8",   \* bytes that are not UTF-8
                "empty"}     \* an empty (or blank) line
IsJson(c)   == c \in {"eliot", "missing", "mistyped", "scalar", "array", "null"}
(* A mistyped object is EITHER rendered (if the formatter can make sense of it) OR reported as not an Eliot message: the *)
(* statement does not say which, so the block kind is the disjunction; what it excludes is "no block" and "stop".       *)
BlockFor(c) == IF ~IsJson(c) THEN "NotJSON"
               ELSE IF c = "mistyped" THEN "RenderOrNotEliot"
               ELSE IF c # "eliot" THEN "NotEliot" ELSE "Render"
Formats     == {"pretty", "compact"}
PPCases     == {[fmt |-> f, stream |-> s] : f \in Formats, s \in SeqsUpTo(LineClasses, MaxLines)}

PPStep == /\ Part = "pp" /\ ~done /\ pos < Len(case.stream)
          /\ out' = Append(out, BlockFor(case.stream[pos + 1]))      \* whatever the line was, one block ...
          /\ pos' = pos + 1 /\ UNCHANGED <<case, done>>              \* ... and on to the next line
PPEnd  == /\ Part = "pp" /\ ~done /\ pos = Len(case.stream)
          /\ PrintT(ToString(<<"PP", case.fmt, case.stream, out>>))
          /\ done' = TRUE /\ UNCHANGED <<case, pos, out>>            \* end of input: exit status 0

INV_PP == Part = "pp" =>
    /\ Len(out) = pos                                                   \* exactly one block per line consumed
    /\ \A i \in 1..pos : (out[i] = "Render") <=> (case.stream[i] = "eliot")
    /\ \A i \in 1..pos : (out[i] = "NotJSON") <=> ~IsJson(case.stream[i])
    /\ \A i \in 1..pos : (out[i] = "RenderOrNotEliot") <=> (case.stream[i] = "mistyped")
    /\ done => pos = Len(case.stream)                                   \* it only ends at the end of the input

(* ================================================================================================================ *)
(* (c) eliot.filter: for every JSON line, the JSON encoding of the expression's value; SKIP writes nothing           *)
(* ================================================================================================================ *)
(* A line is an Eliot message that is / is not "selected" by the condition used in the conditional expressions, and *)
(* whose field `field` is present with a truthy value, present with a falsy value (0, "", [], {}, false, null), or  *)
(* absent.                                                                                                           *)
FLineClasses == {[sel |-> s, fld |-> f] : s \in BOOLEAN, f \in {"truthy", "falsy", "absent"}}
Exprs == {"J",              \* identity
          "get",            \* J.get('field')
          "uuid",           \* J['task_uuid']
          "J_if_sel",       \* J if <selected> else SKIP
          "skip_if_sel",    \* SKIP if <selected> else J
          "fld_if_has",     \* J['field'] if 'field' in J else SKIP
          "get_if_sel",     \* J.get('field') if <selected> else SKIP      (the example of the usage text)
          \* expressions that EDIT the decoded message in place and then yield that same object:
          "upd",            \* J.update(host='x') or J
          "pop",            \* [J.pop('field', None), J][1]
          "setdef",         \* [J.setdefault('field', 'dflt'), J][1]
          "setitem",        \* J.__setitem__('field', 'new') or J
          "copy"}           \* dict(J): a NEW object equal to the message
EditExprs == {"upd", "pop", "setdef", "setitem"}
(* does the expression change the message on that line? *)
Edits(e, l) == CASE e = "upd"     -> TRUE
                 [] e = "pop"     -> l.fld # "absent"
                 [] e = "setdef"  -> l.fld = "absent"
                 [] e = "setitem" -> TRUE
                 [] OTHER         -> FALSE
(* value of the expression on a line, AS IT IS WHEN THE EXPRESSION RETURNS: "whole" the message as it was read,        *)
(* "whole_upd" / "whole_pop" / "whole_setdef" / "whole_setitem" the message after that edit, "field" the value of its  *)
(* field, "null", "uuid", or "SKIP"                                                                                    *)
Eval(e, l) == CASE e = "J"           -> "whole"
                [] e = "get"         -> IF l.fld = "absent" THEN "null" ELSE "field"
                [] e = "uuid"        -> "uuid"
                [] e = "J_if_sel"    -> IF l.sel THEN "whole" ELSE "SKIP"
                [] e = "skip_if_sel" -> IF l.sel THEN "SKIP" ELSE "whole"
                [] e = "fld_if_has"  -> IF l.fld = "absent" THEN "SKIP" ELSE "field"
                [] e = "get_if_sel"  -> IF ~l.sel THEN "SKIP" ELSE IF l.fld = "absent" THEN "null" ELSE "field"
                [] e = "copy"        -> "whole"
                [] e \in EditExprs   -> IF Edits(e, l) THEN "whole_" \o e ELSE "whole"
FCases == {[expr |-> e, stream |-> s] : e \in Exprs, s \in SeqsUpTo(FLineClasses, MaxLines)}

FStep == /\ Part = "filter" /\ ~done /\ pos < Len(case.stream)
         /\ LET v == Eval(case.expr, case.stream[pos + 1]) IN
            out' = IF v = "SKIP" THEN out ELSE Append(out, <<pos + 1, v>>)   \* written: (which line, which value)
         /\ pos' = pos + 1 /\ UNCHANGED <<case, done>>
FEnd  == /\ Part = "filter" /\ ~done /\ pos = Len(case.stream)
         /\ PrintT(ToString(<<"FILT", case.expr, [i \in DOMAIN case.stream |-> <<case.stream[i].sel, case.stream[i].fld>>], out>>))
         /\ done' = TRUE /\ UNCHANGED <<case, pos, out>>

Skipped(e, s, n) == {i \in 1..n : Eval(e, s[i]) = "SKIP"}
INV_Filter == Part = "filter" =>
    /\ Len(out) = pos - Cardinality(Skipped(case.expr, case.stream, pos))      \* SKIP drops exactly the selected ones
    /\ \A i \in DOMAIN out : out[i][1] \notin Skipped(case.expr, case.stream, pos)
    /\ \A i, j \in DOMAIN out : i < j => out[i][1] < out[j][1]                  \* in input order, each once
    /\ case.expr \in {"J", "copy"} => out = [i \in 1..pos |-> <<i, "whole">>]    \* identity reproduces every message
    /\ case.expr \in EditExprs =>                                               \* what is written is the value as edited
          /\ Len(out) = pos
          /\ \A i \in 1..pos : (out[i][2] = "whole") <=> ~Edits(case.expr, case.stream[i])
    /\ case.expr = "J_if_sel" => \A i \in 1..pos : (\E k \in DOMAIN out : out[k][1] = i) <=> case.stream[i].sel
    /\ case.expr = "skip_if_sel" => \A i \in 1..pos : (\E k \in DOMAIN out : out[k][1] = i) <=> ~case.stream[i].sel
    /\ done => pos = Len(case.stream)

(* ================================================================================================================ *)
LayoutStep == /\ Part = "layout" /\ ~done
              /\ PrintT(ToString(LayoutRecord(case)))
              /\ out' = Layout(case) /\ done' = TRUE /\ UNCHANGED <<case, pos>>

INV_Layout == Part = "layout" =>
    /\ INV_LayoutExactlyOnce(case) /\ INV_LayoutOrder(case) /\ INV_EveryValueHasARule(case)
    /\ done => out = Layout(case)
    /\ CompactLinesRequired(case) = 1

Init == /\ case \in (CASE Part = "layout" -> Messages [] Part = "pp" -> PPCases [] Part = "filter" -> FCases)
        /\ pos = 0 /\ out = <<>> /\ done = FALSE
Next == LayoutStep \/ PPStep \/ PPEnd \/ FStep \/ FEnd
Spec == Init /\ [][Next]_vars

(* Deliberately wrong rules (vacuity guards; the harness self-test expects TLC / the comparison to reject them):     *)
(* a pretty-printer that stops at the first line that is not JSON *)
PPStepStops == /\ Part = "pp" /\ ~done /\ pos < Len(case.stream)
               /\ IF IsJson(case.stream[pos + 1])
                  THEN out' = Append(out, BlockFor(case.stream[pos + 1])) /\ pos' = pos + 1 /\ UNCHANGED <<case, done>>
                  ELSE done' = TRUE /\ UNCHANGED <<case, pos, out>>
BrokenSpec == Init /\ [][LayoutStep \/ PPStepStops \/ PPEnd \/ FStep \/ FEnd]_vars
=============================================================================
