----------------------------- MODULE ReentrantA -----------------------------
(* Level A for destinations that call back into the library while they are being called (C08 "offered exactly once to every *)
(* currently registered destination", C12 "buffered messages ... exactly once, in order and ahead of later messages ... a  *)
(* removed destination receives nothing further"): a destination logs a message of its own, registers another destination *)
(* or removes a LATER destination, during the hand-over of the start-up buffer or during ordinary delivery.               *)
(* Input per history (harness/reentrant_exec.py): n_pre buffered ids pre_lo.., n_post later ids 1.., nested ids >= 10000,  *)
(* logged = <<seq invoked, seq returned, id>>, dests = <<name, registered at, removed at or 0, <<seq, id>>...>>.           *)
(* Clauses (all linear in the history):                                                                                    *)
(*   call_raised        a logging / registration call raised                                                               *)
(*   duplicate          an id offered twice to one destination                                                             *)
(*   not_offered        a destination of the first call, never removed, misses a message (buffered-and-recent, nested or   *)
(*                      later); a destination registered from inside a call misses a message logged after its registration *)
(*   offered_unknown    an id nobody logged, or a buffered message older than the most recent 1000                         *)
(*   buffered_order     the buffered messages are not offered in order, or a later message comes before one of them        *)
(*   after_removal      a destination is called after remove_destination() for it has returned                             *)
(*   returned_before_offered  after the hand-over, a logging call returned before a registered destination was offered it  *)
EXTENDS Naturals, Sequences, FiniteSets, TLC, Json, IOUtils, TLCExt
Cap == 1000
TraceFile == JsonDeserialize(IOEnv.TRACE_FILE)
Traces == TraceFile.traces
VARIABLES tid, done
T == Traces[tid]
ToSet(s) == {s[i] : i \in DOMAIN s}
Dropped == IF T.n_pre > Cap THEN T.n_pre - Cap ELSE 0
IsPre(x) == x >= T.pre_lo /\ x < T.pre_lo + T.n_pre
IsPost(x) == x >= 1 /\ x <= T.n_post
LoggedIds == {T.logged[i][3] : i \in DOMAIN T.logged}
Due == {x \in LoggedIds : ~(IsPre(x) /\ x < T.pre_lo + Dropped)}
LoggedAfter(s) == {T.logged[i][3] : i \in {j \in DOMAIN T.logged : T.logged[j][1] > s}}
ClauseOf(d) ==
  LET del == d[4]
      ids == [i \in DOMAIN del |-> del[i][2]]
      idset == ToSet(ids)
      pre == SelectSeq(ids, IsPre)
      plain == SelectSeq(ids, LAMBDA x : IsPre(x) \/ IsPost(x))
      first == d[2] = T.add_res
  IN IF Cardinality(idset) # Len(ids) THEN "duplicate"
     ELSE IF d[3] > 0 /\ \E i \in DOMAIN del : del[i][1] > d[3] THEN "after_removal"
     ELSE IF ~(idset \subseteq Due) THEN "offered_unknown"
     ELSE IF first /\ d[3] = 0 /\ ~(Due \subseteq idset) THEN "not_offered"
     ELSE IF ~first /\ d[3] = 0 /\ ~(LoggedAfter(d[2]) \subseteq idset) THEN "not_offered"
     ELSE IF first /\ d[3] = 0 /\ \E i \in DOMAIN pre : pre[i] # T.pre_lo + Dropped + i - 1 THEN "buffered_order"
     ELSE IF \E i \in DOMAIN plain : i < Len(plain) /\ IsPost(plain[i]) /\ IsPre(plain[i + 1]) THEN "buffered_order"
     \* delivery is synchronous once the hand-over is over: a logging call (a destination's own included) returns only after every
     \* registered destination has been offered the message (C11 builds on it: acknowledged = written and flushed)
     ELSE IF first /\ d[3] = 0 /\ \E i \in DOMAIN T.logged : T.logged[i][1] > T.add_res /\
                  ~\E k \in DOMAIN del : del[k][2] = T.logged[i][3] /\ del[k][1] < T.logged[i][2] THEN "returned_before_offered"
     ELSE ""
Clause == IF Len(T.errors) > 0 THEN "call_raised"
          ELSE LET cs == [i \in DOMAIN T.dests |-> ClauseOf(T.dests[i])]
                   bad == {i \in DOMAIN cs : cs[i] # ""}
               IN IF bad = {} THEN "" ELSE cs[CHOOSE i \in bad : \A j \in bad : i <= j]
Init == tid \in DOMAIN Traces /\ done = FALSE
Next == ~done /\ PrintT(<<"ACC", tid, Clause>>) /\ done' = TRUE /\ UNCHANGED tid
Spec == Init /\ [][Next]_<<tid, done>>
=============================================================================
