-------------------------------- MODULE RegA --------------------------------
(* Level A for concurrent registration changes (add_destinations in one thread, remove_destination in another), evaluated  *)
(* on what the destinations received AFTERWARDS: every destination whose registration completed and that was not removed   *)
(* is offered every later message exactly once, in order; a removed (or never added) destination is offered nothing.       *)
EXTENDS Naturals, Sequences, FiniteSets, TLC, Json, IOUtils, TLCExt
TraceFile == JsonDeserialize(IOEnv.TRACE_FILE)
Traces == TraceFile.traces
VARIABLES tid, done
H == Traces[tid]
Expect == {H.expect[i] : i \in DOMAIN H.expect}
Clause == IF \E i \in DOMAIN H.ev : H.ev[i].d \in Expect /\ H.ev[i].ids # H.post THEN "registered_destination_missed_messages"
          ELSE IF \E i \in DOMAIN H.ev : H.ev[i].d \notin Expect /\ H.ev[i].ids # <<>> THEN "removed_destination_still_receives"
          ELSE ""
Init == tid \in DOMAIN Traces /\ done = FALSE
Next == ~done /\ PrintT(<<"ACC", tid, Clause>>) /\ done' = TRUE /\ UNCHANGED tid
Spec == Init /\ [][Next]_<<tid, done>>
=============================================================================
