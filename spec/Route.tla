-------------------------------- MODULE Route --------------------------------
(***************************************************************************)
(* WHICH LOGGER receives a message -- the routing rule of eliot's output   *)
(* layer when a program mixes loggers: actions started with an explicit    *)
(* logger (a MemoryLogger of a component under test, or another Logger()   *)
(* instance, which shares the process-wide destinations), messages written *)
(* to an explicit logger, raw Logger.write, and the messages the library   *)
(* writes itself: eliot:destination_failure reports, eliot:traceback and   *)
(* eliot:serialization_failure.  Every message takes its POSITION          *)
(* (task_uuid, task_level) from the current action whatever logger it goes *)
(* to; its SINK is decided per message:                                    *)
(*   start / end message          -> the action's own logger               *)
(*   log_message / Message.log    -> the current action's logger, else the *)
(*                                   default logger                         *)
(*   Message.write(logger=X)      -> X                                      *)
(*   X.write(dict)                -> X (no position at all)                 *)
(*   a.log / Message.write(action=a) -> a's own logger, a's position (a need *)
(*                                   not be the current action)             *)
(*   write_traceback(logger=X)    -> X, or like a plain message without X  *)
(*   report of a failed delivery  -> the Logger whose delivery failed, i.e. *)
(*                                   the destinations -- NEVER the current  *)
(*                                   action's logger (C08: faults reported)*)
(*   traceback + serialization_failure of a typed message written through  *)
(*   Logger W                     -> W                                      *)
(* Sinks: "D" = what a healthy destination receives (loggers "def" and     *)
(* "L"), "M1", "M2" = the message lists of two MemoryLoggers.  A second,   *)
(* flaky destination registered BEFORE the healthy one raises at its next  *)
(* call after SetFail.                                                     *)
(***************************************************************************)
EXTENDS Naturals, Sequences, FiniteSets, TLC

CONSTANTS MaxOps, MaxDepth, ReportToCurrent     \* ReportToCurrent = TRUE: the broken sibling (reports follow the current action's logger)

Loggers == {"def", "L", "M1", "M2"}
Sinks == {"D", "M1", "M2"}
SinkOf(lg) == IF lg \in {"def", "L"} THEN "D" ELSE lg
Last(s) == s[Len(s)]
Front(s) == SubSeq(s, 1, Len(s) - 1)

VARIABLES stack,     \* the current actions of the (single) context, innermost last: [lg, u, pre, next]
          sinks,     \* [Sinks -> Seq([k, u, lv])]
          failnext,  \* the flaky destination raises at its next call
          nu,        \* task uuids handed out
          nfail,     \* deliveries that failed so far
          hist       \* the calls made
vars == <<stack, sinks, failnext, nu, nfail, hist>>

Init == stack = <<>> /\ sinks = [s \in Sinks |-> <<>>] /\ failnext = FALSE /\ nu = 0 /\ nfail = 0 /\ hist = <<>>

\* ---- one message: position from the current action (St), sink given; a failed delivery is reported right after it
\* A "world" W = [st, sk, fn, nu, nf] threaded through the steps of one call
World == [st |-> stack, sk |-> sinks, fn |-> failnext, nu |-> nu, nf |-> nfail]
Pos(W) == IF W.st = <<>> THEN [u |-> W.nu + 1, lv |-> <<1>>] ELSE [u |-> Last(W.st).u, lv |-> Append(Last(W.st).pre, Last(W.st).next)]
Consume(W) == IF W.st = <<>> THEN [W EXCEPT !.nu = @ + 1] ELSE [W EXCEPT !.st[Len(W.st)].next = @ + 1]
Put(W, sink, m) == [W EXCEPT !.sk[sink] = Append(@, m)]
ReportSink(W) == IF ReportToCurrent /\ W.st # <<>> THEN SinkOf(Last(W.st).lg) ELSE "D"
\* deliver message m (already positioned) to `sink`; if it goes to the destinations and the flaky one raises, a report follows
Deliver(W, sink, m) ==
  LET W1 == Put(W, sink, m)
  IN IF sink = "D" /\ W.fn
     THEN LET p == Pos(W1)
              W2 == Consume([W1 EXCEPT !.fn = FALSE, !.nf = @ + 1])
          IN Put(W2, ReportSink(W1), [k |-> "rep", u |-> p.u, lv |-> p.lv])      \* (the report's own delivery does not fail: fn is off)
     ELSE W1
Emit(W, sink, kind) == LET p == Pos(W) IN Deliver(Consume(W), sink, [k |-> kind, u |-> p.u, lv |-> p.lv])

\* the same, with the position taken from the action at depth i of the stack (Action.log / Message.write(action=) on an action
\* that need not be the current one); a report still lands in the CURRENT action
PosAt(W, i) == [u |-> W.st[i].u, lv |-> Append(W.st[i].pre, W.st[i].next)]
EmitAt(W, i, sink, kind) == LET p == PosAt(W, i) IN Deliver([W EXCEPT !.st[i].next = @ + 1], sink, [k |-> kind, u |-> p.u, lv |-> p.lv])

Commit(W, h) == /\ stack' = W.st /\ sinks' = W.sk /\ failnext' = W.fn /\ nu' = W.nu /\ nfail' = W.nf /\ hist' = Append(hist, h)
Room == Len(hist) < MaxOps

\* start_action(logger=lg) / start_task when nothing is current, then `with` entered
Start(lg) ==
  /\ Room /\ Len(stack) < MaxDepth
  /\ LET W == World
         p == Pos(W)
         W1 == Consume(W)
         new == [lg |-> lg, u |-> p.u, pre |-> IF W.st = <<>> THEN <<>> ELSE p.lv, next |-> 2]
         startmsg == [k |-> "start", u |-> p.u, lv |-> Append(new.pre, 1)]
         W2 == Deliver(W1, SinkOf(lg), startmsg)          \* written before the action becomes current: a report lands in the parent
     IN Commit([W2 EXCEPT !.st = Append(@, new)], <<"Start", lg>>)

\* leaving the with block: the context is reset first, then the end message is written to the action's own logger
Exit ==
  /\ Room /\ stack # <<>>
  /\ LET a == Last(stack)
         W == [World EXCEPT !.st = Front(stack)]
     IN Commit(Deliver(W, SinkOf(a.lg), [k |-> "end", u |-> a.u, lv |-> Append(a.pre, a.next)]), <<"Exit">>)

Log == Room /\ LET W == World IN Commit(Emit(W, IF stack = <<>> THEN "D" ELSE SinkOf(Last(stack).lg), "msg"), <<"Log">>)
WriteTo(x) == Room /\ Commit(Emit(World, SinkOf(x), "to"), <<"WriteTo", x>>)
RawWrite(x) == Room /\ Commit(Deliver(World, SinkOf(x), [k |-> "raw", u |-> 0, lv |-> <<>>]), <<"RawWrite", x>>)
\* a typed message whose serializer fails, written to Logger w: its position is spent, a traceback and a serialization_failure go to w
SerFail(w) ==
  /\ Room
  /\ LET W1 == Consume(World)
         W2 == Emit(W1, SinkOf(w), "tb")
     IN Commit(Emit(W2, SinkOf(w), "sf"), <<"SerFail", w>>)
\* a.log(...) / Message.write(action=a) for an action a of the stack: a's position, a's own logger
ActLog(i) == Room /\ i \in DOMAIN stack /\ Commit(EmitAt(World, i, SinkOf(stack[i].lg), "alog"), <<"ActLog", i>>)
\* write_traceback(logger=x) while an exception is handled: like a plain message when no logger is given, else to x
TbTo(x) == Room /\ Commit(Emit(World, IF x = "def" THEN (IF stack = <<>> THEN "D" ELSE SinkOf(Last(stack).lg)) ELSE SinkOf(x), "tb"), <<"TbTo", x>>)
SetFail == Room /\ ~failnext /\ Commit([World EXCEPT !.fn = TRUE], <<"SetFail">>)

Next == \/ \E lg \in Loggers : Start(lg)
        \/ Exit \/ Log \/ SetFail
        \/ \E x \in Loggers \ {"def"} : WriteTo(x) \/ RawWrite(x)
        \/ \E w \in {"def", "L"} : SerFail(w)
        \/ \E i \in 1..MaxDepth : ActLog(i)
        \/ \E x \in Loggers : TbTo(x)
Spec == Init /\ [][Next]_vars

\* ---- properties
All == sinks["D"] \o sinks["M1"] \o sinks["M2"]
Count(s, k) == Cardinality({i \in DOMAIN s : s[i].k = k})
R_ReportsReachDestinations == Count(sinks["D"], "rep") = nfail
R_MemoryGetsNoReports == Count(sinks["M1"], "rep") = 0 /\ Count(sinks["M2"], "rep") = 0
R_PositionsUnique == \A i, j \in DOMAIN All : (All[i].k # "raw" /\ All[i].u = All[j].u /\ All[i].lv = All[j].lv) => i = j
R_OwnMessages == \A i \in DOMAIN stack : \E j \in DOMAIN sinks[SinkOf(stack[i].lg)] :
                     LET m == sinks[SinkOf(stack[i].lg)][j] IN m.k = "start" /\ m.u = stack[i].u /\ m.lv = Append(stack[i].pre, 1)

Emit_ == (Len(hist) = MaxOps) => PrintT(<<"RT", hist, sinks["D"], sinks["M1"], sinks["M2"]>>)
View == <<stack, sinks, failnext, nu, nfail, hist>>
=============================================================================
