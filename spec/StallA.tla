------------------------------- MODULE StallA -------------------------------
(* Level A for "logging does not block on slow output" (C19): a free-running execution in which the wrapped destination   *)
(* stalls on its first message while a producer offers n more; the producer must finish while the destination is still    *)
(* stalled; afterwards everything is written exactly once, in order, on one thread, and stopService completes.            *)
EXTENDS Naturals, Sequences, TLC, Json, IOUtils, TLCExt
TraceFile == JsonDeserialize(IOEnv.TRACE_FILE)
Traces == TraceFile.traces
VARIABLES tid, done
H == Traces[tid]
Clause == IF ~H.producer_finished_while_stalled THEN "logging_blocked_by_slow_destination"
          ELSE IF H.written # H.n \/ ~H.written_in_order THEN "messages_lost_or_reordered"
          ELSE IF H.writer_threads # 1 THEN "several_writer_threads"
          ELSE IF ~H.stop_completed THEN "stop_never_completed"
          ELSE ""
Init == tid \in DOMAIN Traces /\ done = FALSE
Next == ~done /\ PrintT(<<"ACC", tid, Clause>>) /\ done' = TRUE /\ UNCHANGED tid
Spec == Init /\ [][Next]_<<tid, done>>
=============================================================================
