SPECIFICATION TraceSpec
CONSTANTS
  NCtx = 4
  NDest = 4
  MaxActs = 100000
  MaxMsgs = 100000
  MaxFaults = 100000
  MaxDepth = 100000
  MaxBlocks = 100000
  MaxIds = 100000
  Cap = 1000
  InitDests <- TD0
  AnyOrder = TRUE
  Feat = {}
CHECK_DEADLOCK FALSE
