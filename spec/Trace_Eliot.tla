---------------------------- MODULE Trace_Eliot ----------------------------
(***************************************************************************)
(* Validation of executions recorded from the real library against         *)
(* Eliot.tla.  A batch of traces is read from the JSON file named by the   *)
(* environment variable TRACE_FILE; each trace is one initial state (tid). *)
(* Every trace action is the specification's own action, driven by the     *)
(* logged arguments; the logged observations (message offered to a         *)
(* destination, value of current_action() before and after a call, what    *)
(* the call returned or raised) are compared with what the specification   *)
(* predicts.  The verdict is TOTAL: the first clause that fails is stored  *)
(* in `bad` (with the event index) and printed once per trace as           *)
(*    <<"ACC", tid, bad, badl, dev>>                                        *)
(* so a rejected trace always names the clause, the event and the named    *)
(* deviations (known findings) the execution went through.                 *)
(***************************************************************************)
EXTENDS Eliot, Json, IOUtils, TLCExt

TraceFile == JsonDeserialize(IOEnv.TRACE_FILE)
Traces == TraceFile.traces
TD0 == <<>>

VARIABLES tid,   \* which trace
          l,     \* next event
          bad,   \* "" or the first failing clause
          badl,  \* event index of the failure
          umap,  \* [spec uuid number -> uuid token seen in the execution]  (injective renaming)
          lastop \* name of the public call in progress / last finished

tvars == <<tid, l, bad, badl, umap, lastop>>
Events == Traces[tid].ev
N      == Len(Events)
Ev     == Events[l]
ToSet(s) == {s[i] : i \in DOMAIN s}

TraceInit ==
  /\ tid \in DOMAIN Traces
  /\ l = 1 /\ bad = "" /\ badl = 0 /\ umap = <<>> /\ lastop = ""
  /\ acts = <<>> /\ cur = [c \in Ctx |-> 0] /\ blocks = [c \in Ctx |-> <<>>]
  /\ born = [c \in Ctx |-> c = 1] /\ base = [c \in Ctx |-> 0] /\ nuuid = 0 /\ ids = <<>>
  /\ dests = Traces[tid].init /\ anyAdded = (Traces[tid].init # <<>>) /\ buffer = <<>> /\ gf = {} /\ reg = {}
  /\ offered = [d \in Dest |-> <<>>] /\ work = <<>> /\ call = NoCall /\ ret = NoCall
  /\ nfaults = 0 /\ nmsgs = 0 /\ nodes = <<>> /\ dev = {} /\ hist = <<>>
  /\ gh = [expect |-> [d \in Dest |-> <<>>], pre |-> <<>>, nser |-> 0, ntb |-> 0, fail |-> {},
           init |-> ToSet(Traces[tid].init), gone |-> {}]

\* record the first failing clause and stop comparing
Flag(clause) == /\ bad' = clause /\ badl' = l /\ l' = N + 1
                /\ UNCHANGED <<tid, umap, lastop>> /\ UNCHANGED vars
Step == /\ l' = l + 1 /\ UNCHANGED <<tid, bad, badl>>
Live == l <= N /\ bad = ""

\* what kind of message is it (used to name the clause when one is missing or unexpected)
KindOf(m) == IF m.rep = "dest" THEN "report" ELSE IF m.rep \in {"tb", "sf"} THEN m.rep ELSE m.k

-----------------------------------------------------------------------------
\* silent internal steps run to completion between events
TSilent == /\ Live /\ SilentEnabled /\ Silent /\ UNCHANGED tvars

\* a public call begins
DoCall(c) ==
  LET op == Ev.op IN
  CASE op = "StartAction"  -> IF CanStartAction(c) THEN StartAction(c, Ev.ty) ELSE FALSE
    [] op = "StartTask"    -> StartTask(c, Ev.ty)
    [] op = "Enter"        -> IF CanEnter(c, Ev.kind, Ev.a) THEN Enter(c, Ev.kind, Ev.a) ELSE FALSE
    [] op = "Exit"         -> IF CanExit(c) THEN Exit(c, Ev.o) ELSE FALSE
    [] op = "Finish"       -> IF CanFinish(c, Ev.a) THEN Finish(c, Ev.a, Ev.o) ELSE FALSE
    [] op = "Log"          -> IF CanLog(c) THEN Log(c, Ev.ty) ELSE FALSE
    [] op = "ActionLog"    -> IF CanActionLog(c, Ev.a) THEN ActionLog(c, Ev.a, Ev.ty) ELSE FALSE
    [] op = "AddSuccess"   -> AddSuccess(c, Ev.a, Ev.f)
    [] op = "RawWrite"     -> RawWrite(c)
    [] op = "StdlibLog"    -> IF CanLog(c) THEN StdlibLog(c, Ev.withexc) ELSE FALSE
    [] op = "LogCall"      -> IF CanLogCall(c) THEN LogCall(c, Ev.o) ELSE FALSE
    [] op = "WriteTraceback" -> IF CanLog(c) THEN WriteTraceback(c, Ev.o) ELSE FALSE
    [] op = "Register"     -> Register(c, Ev.k)
    [] op = "SerializeId"  -> IF CanSerializeId(c) THEN SerializeId(c) ELSE FALSE
    [] op = "ContinueTask" -> IF CanContinue(c, Ev.i) THEN ContinueTask(c, Ev.i) ELSE FALSE
    [] op = "Preserve"     -> IF CanPreserve(c) THEN Preserve(c) ELSE FALSE
    [] op = "CallPreserved" -> IF CanCallPreserved(c, Ev.i) THEN CallPreserved(c, Ev.i) ELSE FALSE
    [] op = "Spawn"        -> Spawn(c, Ev.c2, Ev.kind)
    [] op = "LeaveElsewhere" -> IF CanLeaveElsewhere(c, Ev.a) THEN LeaveElsewhere(c, Ev.a, Ev.kind) ELSE FALSE
    [] op = "AddDests"     -> AddDests(c, ToSet(Ev.S))
    [] op = "RemoveDest"   -> RemoveDest(c, Ev.d)
    [] op = "AddGlobal"    -> AddGlobal(c, Ev.f, Ev.v)
    [] OTHER -> FALSE
WellFormedCall(c) ==
  LET op == Ev.op IN
  /\ Idle /\ c \in Ctx /\ born[c]
  /\ CASE op = "StartAction" -> CanStartAction(c)
       [] op = "Enter" -> CanEnter(c, Ev.kind, Ev.a)
       [] op = "Exit" -> CanExit(c) /\ Last(blocks[c]).kind = Ev.kind
       [] op = "Finish" -> CanFinish(c, Ev.a)
       [] op \in {"Log", "WriteTraceback", "LogCall", "StdlibLog"} -> CanLog(c)
       [] op = "ActionLog" -> CanActionLog(c, Ev.a)
       [] op = "SerializeId" -> CanSerializeId(c)
       [] op = "ContinueTask" -> CanContinue(c, Ev.i)
       [] op = "Preserve" -> CanPreserve(c)
       [] op = "CallPreserved" -> CanCallPreserved(c, Ev.i)
       [] op = "AddSuccess" -> Ev.a \in DOMAIN acts /\ ~acts[Ev.a].fin /\ Ev.f \notin acts[Ev.a].succ
       [] op = "Spawn" -> ~born[Ev.c2]
       [] op = "LeaveElsewhere" -> CanLeaveElsewhere(c, Ev.a)
       [] op = "AddDests" -> ToSet(Ev.S) \cap Range(dests) = {}
       [] op = "RemoveDest" -> Ev.d \in Range(dests)
       [] op = "AddGlobal" -> <<Ev.f, Ev.v>> \notin gf
       [] op = "Register" -> Ev.k \notin reg
       [] OTHER -> TRUE
TCall ==
  /\ Live /\ ~SilentEnabled /\ Ev.e = "call"
  /\ IF call.c # 0 \/ work # <<>>
     THEN \* the previous call has not returned in the specification: it still expects something
          IF work # <<>> /\ Top.t = "send" THEN Flag("missing_delivery:" \o KindOf(Top.m) \o (IF Top.done = {} THEN ":none" ELSE ":some"))
          ELSE IF work # <<>> /\ Top.t = "write" THEN Flag("serializer_not_called")
          ELSE Flag("HARNESS.call_before_return")
     ELSE IF ~WellFormedCall(Ev.c) THEN Flag("HARNESS.ill_formed_program")
     ELSE IF Ev.pre # cur[Ev.c] THEN Flag("current_action_changed_by_another_context")
     ELSE /\ DoCall(Ev.c) /\ Step /\ lastop' = Ev.op /\ UNCHANGED umap

\* a harness field serializer ran
TSer ==
  /\ Live /\ ~SilentEnabled /\ Ev.e = "ser"
  /\ IF Busy /\ Top.t = "write" /\ NeedsSer(Top.m)
     THEN Serialize(Ev.fail) /\ Step /\ UNCHANGED <<umap, lastop>>
     ELSE Flag("unexpected_serializer_call")

\* a destination was called
UuidOK(m) == IF m.u \in DOMAIN umap THEN umap[m.u] = Ev.m.u ELSE Ev.m.u \notin ToSet(umap)
MsgClause(m) ==          \* "" when the offered message is the predicted one
  IF ~UuidOK(m) THEN "task_uuid"
  ELSE IF m.lv # Ev.m.lv THEN "task_level"
  ELSE IF m.k # Ev.m.k \/ m.st # Ev.m.st THEN "status"
  ELSE IF m.ty # Ev.m.ty THEN "type"
  ELSE IF m.rep # Ev.m.rep THEN "type"
  ELSE IF m.f # ToSet(Ev.m.f) THEN "fields"
  ELSE IF m.g # ToSet(Ev.m.g) THEN "global_fields"
  ELSE IF Ev.m.why # "" THEN "py:" \o Ev.m.why
  ELSE ""
TDeliver ==
  /\ Live /\ ~SilentEnabled /\ Ev.e = "deliver"
  /\ IF ~CanDeliver THEN Flag("unexpected_delivery:" \o Ev.m.kind \o ":" \o lastop)
     ELSE IF Ev.d \notin Range(Pending(Top)) THEN Flag("duplicate_delivery:" \o KindOf(Top.m))
     ELSE IF MsgClause(Top.m) # "" THEN Flag(MsgClause(Top.m) \o ":" \o KindOf(Top.m) \o ":" \o lastop)
     ELSE /\ (IF Ev.abort THEN DeliverAbort(Ev.d) ELSE Deliver(Ev.d, Ev.raised)) /\ Step /\ UNCHANGED lastop
          /\ umap' = IF Top.m.u \in DOMAIN umap THEN umap ELSE (Top.m.u :> Ev.m.u) @@ umap

\* the public call returned (or raised) to the application
TRet ==
  /\ Live /\ ~SilentEnabled /\ Ev.e = "ret"
  /\ IF call.c = 0 THEN Flag("HARNESS.return_without_call")
     ELSE IF Ev.v = "raised" /\ call.v = "ok" THEN Flag("call_raised:" \o (IF work # <<>> THEN "pending" ELSE "clean") \o ":" \o lastop)
     ELSE IF work # <<>> THEN (IF Top.t = "send" THEN Flag("missing_delivery:" \o KindOf(Top.m) \o (IF Top.done = {} THEN ":none" ELSE ":some"))
                               ELSE Flag("serializer_not_called"))
     ELSE IF Ev.v # call.v /\ lastop # "LeaveElsewhere"      \* refusing or completing a foreign leave: either way c's context must stand
          THEN (IF call.v = "ok" THEN Flag("call_raised:" \o Ev.v \o ":" \o lastop) ELSE Flag("exception_not_propagated:" \o Ev.v \o ":" \o lastop))
     ELSE IF Ev.cur # cur[call.c] THEN Flag("current_action_after:" \o lastop)
     ELSE Return /\ Step /\ UNCHANGED <<umap, lastop>>

\* end of the trace: every state property of Eliot.tla is evaluated on the final state, the parsed log is compared
\* with the performed forest, and the verdict is printed
FinalClause ==
  IF bad # "" THEN bad
  ELSE IF call.c # 0 \/ work # <<>> THEN "HARNESS.trace_ends_inside_call"
  ELSE IF ~C02_Unique THEN "INV.C02_Unique"
  ELSE IF ~C02_Contiguous THEN "INV.C02_Contiguous"
  ELSE IF ~C02_StartAtOne THEN "INV.C02_StartAtOne"
  ELSE IF ~C02_EndIsLast_Strict THEN "INV.C02_EndIsLast"
  ELSE IF ~C02_Enclosed THEN "INV.C02_Enclosed"
  ELSE IF ~C02_EmissionOrder THEN "INV.C02_EmissionOrder"
  ELSE IF ~C03_OneStartOneEnd THEN "INV.C03_OneStartOneEnd"
  ELSE IF ~C03_StatusTruthful THEN "INV.C03_StatusTruthful"
  ELSE IF ~C03_FieldPlacement THEN "INV.C03_FieldPlacement"
  ELSE IF ~C04_Inside THEN "INV.C04_Inside"
  ELSE IF ~C04_TasksFresh THEN "INV.C04_TasksFresh"
  ELSE IF ~C06_IdFresh THEN "INV.C06_IdFresh"
  ELSE IF ~C08_OnceEachInOrder THEN "INV.C08_OnceEachInOrder"
  ELSE IF ~C08_OneReportPerFailure THEN "INV.C08_OneReportPerFailure"
  ELSE IF ~C12_BufferIsRecent THEN "INV.C12_BufferIsRecent"
  ELSE IF ~C13_FailedNotDelivered THEN "INV.C13_FailedNotDelivered"
  ELSE IF ~C13_FailureReports THEN "INV.C13_FailureReports"
  ELSE IF ~C01_RoundTrip THEN "INV.C01_RoundTrip"
  ELSE IF Traces[tid].file # "" THEN "file:" \o Traces[tid].file
  ELSE IF ~(Traces[tid].has_parsed /\ NoSerFail /\ NoDeviation) THEN ""     \* the tree is not comparable
  ELSE IF Traces[tid].parse_error # "" THEN "parse_error:" \o Traces[tid].parse_error
  ELSE IF Traces[tid].parsed # Performed THEN "parsed_forest"
  ELSE ""
TDone ==
  /\ l = N + 1
  /\ PrintT(<<"ACC", tid, FinalClause, IF bad # "" THEN badl ELSE N + 1, dev>>)
  /\ l' = N + 2 /\ UNCHANGED <<tid, bad, badl, umap, lastop>> /\ UNCHANGED vars

TraceNext == TSilent \/ TCall \/ TSer \/ TDeliver \/ TRet \/ TDone
TraceSpec == TraceInit /\ [][TraceNext]_<<vars, tvars>>
=============================================================================
