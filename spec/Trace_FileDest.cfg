SPECIFICATION TraceSpec
CONSTANTS
  N = 100000
  FlushPolicy = "always"
  MayFail = FALSE
  MayFlushFail = TRUE
CHECK_DEADLOCK FALSE
