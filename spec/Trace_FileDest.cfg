SPECIFICATION TraceSpec
CONSTANTS
  N = 100000
  FlushPolicy = "always"
  MayFail = FALSE
CHECK_DEADLOCK FALSE
