--------------------------- MODULE Trace_FileDest ---------------------------
(* Validation of what a REAL process left behind when it was killed, against FileDest.tla.  The child reports over a  *)
(* pipe (unbuffered, survives the kill) every write()/flush() its file object received and every logging call that   *)
(* returned; the parent adds what it found in the file afterwards: the number of complete lines and whether an        *)
(* incomplete fragment follows.  The trace is accepted iff the events are a behaviour of FileDest.tla ending in Crash *)
(* (TLC chooses whether a write spilled) whose kernel file equals the observed one, with every invariant holding.     *)
EXTENDS FileDest, Json, IOUtils, TLCExt
TraceFile == JsonDeserialize(IOEnv.TRACE_FILE)
Traces == TraceFile.traces
VARIABLES tid, l, bad,
          inflush     \* the child reported that a flush began ("F") and not yet that it returned ("f")
Ev == Traces[tid].ev[l]
NE == Len(Traces[tid].ev)
TInit == tid \in DOMAIN Traces /\ l = 1 /\ bad = "" /\ inflush = FALSE /\ Init
Inv == C11_AckedDurable /\ C11_InOrderPrefix /\ C11_AtMostOneFragment /\ C10_OneWriteThenFlush
TEv == /\ l <= NE /\ bad = "" /\ ~crashed
       /\ inflush' = (IF Ev = "F" THEN TRUE ELSE IF Ev = "f" THEN FALSE ELSE inflush)
       /\ CASE Ev = "F" -> l' = l + 1 /\ UNCHANGED <<tid, bad>> /\ UNCHANGED vars
            [] Ev = "w" /\ pc = "flushed" -> Return /\ UNCHANGED <<tid, l, bad>>       \* one logging call may emit several messages
            [] Ev = "w" /\ pc = "flushfailed" -> WriteReport /\ l' = l + 1 /\ UNCHANGED <<tid, bad>>
            [] Ev = "x" -> (IF pc = "written" /\ ~ffail /\ k < N THEN FlushFail /\ l' = l + 1 /\ UNCHANGED <<tid, bad>>
                            ELSE bad' = "HARNESS.flush_fault_out_of_place" /\ UNCHANGED <<tid, l>> /\ UNCHANGED vars)
            [] Ev = "w" /\ pc \notin {"flushed", "flushfailed"} -> (IF pc = "idle" /\ Alive THEN (\E b \in BOOLEAN : Write(b)) /\ l' = l + 1 /\ UNCHANGED <<tid, bad>>
                            ELSE bad' = "second_write_for_one_message" /\ UNCHANGED <<tid, l>> /\ UNCHANGED vars)
            [] Ev = "f" -> (IF pc = "written" THEN Flush /\ l' = l + 1 /\ UNCHANGED <<tid, bad>>
                            ELSE IF pc = "flushed" THEN l' = l + 1 /\ UNCHANGED <<tid, bad>> /\ UNCHANGED vars      \* a second flush is harmless
                            ELSE bad' = "flush_without_write" /\ UNCHANGED <<tid, l>> /\ UNCHANGED vars)
            [] Ev = "a" -> (IF pc = "flushed" THEN Return /\ l' = l + 1 /\ UNCHANGED <<tid, bad>>
                            ELSE IF pc = "idle" THEN l' = l + 1 /\ UNCHANGED <<tid, bad>> /\ UNCHANGED vars          \* a call that wrote nothing (e.g. add_success_fields)
                            ELSE bad' = "call_returned_before_flush" /\ UNCHANGED <<tid, l>> /\ UNCHANGED vars)
TCrash == /\ l = NE + 1 /\ bad = "" /\ ~crashed /\ Crash /\ UNCHANGED <<tid, l, bad, inflush>>
\* the process died inside flush(): the flush may have completed in the kernel although its return was never reported
TLateFlush == /\ l = NE + 1 /\ bad = "" /\ ~crashed /\ inflush /\ pc = "written" /\ Flush /\ inflush' = FALSE /\ UNCHANGED <<tid, l, bad>>
Observed == /\ Len(Complete) = Traces[tid].complete
            /\ (\E i \in DOMAIN kfile : kfile[i].part = "head") = Traces[tid].fragment
FinalClause == IF bad # "" THEN bad
               ELSE IF ~C11_AckedDurable THEN "acknowledged_message_not_in_file"
               ELSE IF ~Inv THEN "invariant"
               ELSE IF Traces[tid].why # "" THEN "py:" \o Traces[tid].why
               ELSE ""
TDone == /\ l <= NE + 1 /\ (bad # "" \/ (crashed /\ Observed))
         /\ PrintT(<<"ACC", tid, FinalClause>>)
         /\ l' = NE + 2 /\ UNCHANGED <<tid, bad, inflush>> /\ UNCHANGED vars
\* what the file really holds may also exceed nothing the model allows: report it by name
TMismatch == /\ l = NE + 1 /\ bad = "" /\ crashed /\ ~Observed
             /\ Traces[tid].complete < Cardinality(acked \ failed)
             /\ bad' = "acknowledged_message_not_in_file" /\ UNCHANGED <<tid, l, inflush>> /\ UNCHANGED vars
TNext == TEv \/ TCrash \/ TLateFlush \/ TDone \/ TMismatch
TraceSpec == TInit /\ [][TNext]_<<vars, tid, l, bad, inflush>>
=============================================================================
