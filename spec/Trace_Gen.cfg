SPECIFICATION TraceSpec
CONSTANTS
  ND = 3
  NG = 3
  Bodies = {}
  MaxActs = 100000
  MaxOps = 100000
CHECK_DEADLOCK FALSE
