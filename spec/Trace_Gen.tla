------------------------------ MODULE Trace_Gen ------------------------------
(* Validation of real decorated generators against Gen.tla.  A trace = the body programs, then events:               *)
(*   call(d, op, g, how, pre)   a driver operation starts; pre = index of current_action() in the driver             *)
(*   body(g, step, cur)         a body step is about to run; cur = index of current_action() seen INSIDE the body     *)
(*   ret(d, out, post, why)     the driver operation is over: outcome, current_action() in the driver, and the        *)
(*                              Python identity checks on values crossing the wrapper (why = "" or what failed)      *)
(* Action indices number the real Action objects in creation order, as the specification numbers `acts`.            *)
(* Verdict <<"ACC", tid, clause, at>>.                                                                              *)
EXTENDS Gen, Json, IOUtils, TLCExt
TraceFile == JsonDeserialize(IOEnv.TRACE_FILE)
Traces == TraceFile.traces
VARIABLES tid, l, bad
tvars == <<tid, l, bad>>
Ev == Traces[tid].ev[l]
N == Len(Traces[tid].ev)
TInit == /\ tid \in DOMAIN Traces /\ l = 1 /\ bad = ""
         /\ dstack = [d \in D |-> <<>>] /\ body = [g \in G |-> Traces[tid].bodies[g]] /\ gst = [g \in G |-> "none"]
         /\ gctx = [g \in G |-> <<>>] /\ gbase = [g \in G |-> 0] /\ gpc = [g \in G |-> 1] /\ gin = [g \in G |-> "none"]
         /\ acts = <<>> /\ logs = <<>> /\ finished = <<>> /\ run = [d \in D |-> <<>>] /\ out = [d \in D |-> "ok"] /\ nops = 0 /\ hist = <<>>
Flag(c) == bad' = c /\ UNCHANGED <<tid, l>> /\ UNCHANGED vars
Step1 == l' = l + 1 /\ UNCHANGED <<tid, bad>>
Live == l <= N /\ bad = ""
Busy(d) == run[d] # <<>>
TCall == /\ Live /\ Ev.e = "call" /\ \A d \in D : ~Busy(d)
         /\ LET d == Ev.d IN
            IF Ev.pre # TopOr0(dstack[d]) THEN Flag("driver_context_before_call")
            ELSE /\ Step1
                 /\ CASE Ev.op = "DEnter" -> DEnter(d)
                      [] Ev.op = "DExit" -> DExit(d)
                      [] Ev.op = "Create" -> Create(d, Ev.g)
                      [] Ev.op = "Resume" -> Resume(d, Ev.g, Ev.how)
\* a thrown exception / close() is delivered silently (the body sees it at its yield, or never runs)
TDeliver == /\ Live /\ \E d \in D : Busy(d) /\ gin[Cur(d)] \in {"throw", "close"} /\ Deliver(d)
            /\ UNCHANGED tvars
TheBusy == CHOOSE d \in D : Busy(d)
TBody == /\ Live /\ Ev.e = "body"
         /\ IF ~(\E d \in D : Busy(d)) THEN Flag("body_ran_outside_a_resumption")
            ELSE LET d == TheBusy  g == Cur(d) IN
                 IF gin[g] \in {"throw", "close"} THEN FALSE            \* deliver first
                 ELSE IF Ev.g # g \/ Ev.step # Step(g) THEN Flag("body_step_order")
                 ELSE IF Ev.cur # TopOr0(gctx[g]) THEN Flag("body_context:" \o Ev.step)
                 ELSE BodyStep(d) /\ Step1
TRet == /\ Live /\ Ev.e = "ret"
        /\ LET d == Ev.d IN
           IF Busy(d) /\ gin[Cur(d)] \in {"throw", "close"} THEN FALSE          \* deliver first
           ELSE IF Busy(d) THEN Flag("resumption_ended_early:" \o Step(Cur(d)))
           ELSE IF Ev.out # out[d] THEN Flag("outcome:" \o Ev.out)
           ELSE IF Ev.post # TopOr0(dstack[d]) THEN Flag("driver_context_after:" \o Ev.op)
           ELSE IF Ev.why # "" THEN Flag("py:" \o Ev.why)
           ELSE Step1 /\ UNCHANGED vars
FinalClause == IF bad # "" THEN bad
               ELSE IF ~C15_NoLeakIntoDrivers THEN "INV.C15_NoLeakIntoDrivers"
               ELSE IF ~C15_FinishedOnce THEN "INV.C15_FinishedOnce"
               ELSE IF Traces[tid].final # "" THEN "py:" \o Traces[tid].final
               ELSE IF {<<Traces[tid].ended[i][1], Traces[tid].ended[i][2]>> : i \in DOMAIN Traces[tid].ended}
                       # {<<finished[i].a, finished[i].st>> : i \in DOMAIN finished} THEN "end_messages_of_actions"
               ELSE IF Len(Traces[tid].ended) # Len(finished) THEN "action_finished_twice"
               ELSE ""
TDone == /\ (l = N + 1 \/ bad # "") /\ l <= N + 1
         /\ PrintT(<<"ACC", tid, FinalClause, l>>)
         /\ l' = N + 2 /\ UNCHANGED <<tid, bad>> /\ UNCHANGED vars
TNext == TCall \/ TDeliver \/ TBody \/ TRet \/ TDone
TraceSpec == TInit /\ [][TNext]_<<vars, tvars>>
=============================================================================
