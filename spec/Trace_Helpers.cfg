SPECIFICATION TraceSpec
INVARIANT Verdict
CHECK_DEADLOCK FALSE
