---------------------------- MODULE Trace_Helpers ----------------------------
(* Validation of the REAL eliot.testing helpers (and of the real parser's tree for the same actions) against         *)
(* Helpers.tla.  A trace = one captured list S (taken from a MemoryLogger after a program ran on the real library,   *)
(* or a list enumerated by MC_Helpers) together with what the real code answered: per type the result of             *)
(* LoggedAction.of_type (trees), descendants, type_tree, LoggedMessage.of_type, the real parser's subtree of each     *)
(* returned action, and the outcome of assertHasAction / assertHasMessage calls.  Verdict per trace:                  *)
(* <<"ACC", tid, clause>> with clause = "" or the first failing clause.                                               *)
EXTENDS Helpers, Json, IOUtils
TraceFile == JsonDeserialize(IOEnv.TRACE_FILE)
Traces == TraceFile.traces
VARIABLES tid, done

FirstBad(cs) == LET bad == {j \in DOMAIN cs : cs[j] # ""} IN IF bad = {} THEN "" ELSE cs[Min(bad)]

TypeClause(S, o) ==
  LET p == PredType(S, o.ty) IN
  IF o.notes # <<>> THEN "py:" \o o.notes[1]
  ELSE IF o.msgs # p.msgs THEN "message_of_type"
  ELSE IF p.err THEN ""                                    \* documented ValueError: nothing more is required
  ELSE IF o.err THEN "of_type:raised_for_finished_actions"
  ELSE IF Len(o.acts) # Len(p.acts) THEN "of_type:number_of_entries"
  ELSE IF [j \in DOMAIN o.acts |-> o.acts[j].s] # [j \in DOMAIN p.acts |-> p.acts[j].s] THEN "of_type:order_or_start_message"
  ELSE IF [j \in DOMAIN o.acts |-> o.acts[j].e] # [j \in DOMAIN p.acts |-> p.acts[j].e] THEN "of_type:end_message"
  ELSE IF [j \in DOMAIN o.acts |-> o.acts[j].ok] # [j \in DOMAIN p.acts |-> p.acts[j].ok] THEN "succeeded"
  ELSE IF o.acts # p.acts THEN "of_type:children"
  ELSE IF o.ptrees # p.ptrees THEN "parser_tree"
  ELSE IF o.desc # p.desc THEN "descendants"
  ELSE IF o.tt # p.tt THEN "type_tree"
  ELSE ""
ActionAssertClause(S, o) ==
  LET r == AssertHasAction(S, o.q[1], o.q[2], o.q[3], o.q[4]) IN
  IF r.out = "err" THEN ""
  ELSE IF o.r.out # r.out THEN "assertHasAction:" \o r.out \o "_expected"
  ELSE IF o.r.ret # r.ret THEN "assertHasAction:returned_entry" ELSE ""
MessageAssertClause(S, o) ==
  LET r == AssertHasMessage(S, o.q[1], o.q[2]) IN
  IF o.r.out # r.out THEN "assertHasMessage:" \o r.out \o "_expected"
  ELSE IF o.r.ret # r.ret THEN "assertHasMessage:returned_entry" ELSE ""

Clause(t) ==
  LET S == t.S IN
  IF ~WellFormed(S) THEN "DOMAIN:list_not_well_formed"
  ELSE FirstBad([j \in DOMAIN t.types |-> TypeClause(S, t.types[j])]
                \o [j \in DOMAIN t.aa |-> ActionAssertClause(S, t.aa[j])]
                \o [j \in DOMAIN t.am |-> MessageAssertClause(S, t.am[j])]
                \o << IF C17_OfType(S) THEN "" ELSE "INV.C17_OfType",
                      IF C17_SameAsParser(S) THEN "" ELSE "INV.C17_SameAsParser",
                      IF C17_TreeIsParserTree(S) THEN "" ELSE "INV.C17_TreeIsParserTree",
                      IF C17_Exposes(S) THEN "" ELSE "INV.C17_Exposes",
                      IF C17_PreOrder(S) THEN "" ELSE "INV.C17_PreOrder",
                      IF C17_MsgOfType(S) THEN "" ELSE "INV.C17_MsgOfType" >>)

\* the verdict is computed on the successor state, i.e. by a TLC worker thread (whose Java stack size the harness sets:
\* the transcriptions are recursive scans and the lists taken from programs are long)
TInit == tid \in DOMAIN Traces /\ done = FALSE
TNext == ~done /\ done' = TRUE /\ UNCHANGED tid
TraceSpec == TInit /\ [][TNext]_<<tid, done>>
Verdict == done => PrintT(<<"ACC", tid, Clause(Traces[tid])>>)
=============================================================================
