---------------------------- MODULE Trace_Parser ----------------------------
(* Validation of the REAL eliot.parse.Parser against Parser.tla: each trace is a well-formed universe of messages    *)
(* (taken from an execution of the real library), a subset of it fed in some order, and after every add the public  *)
(* surface of the real parser: the tasks it returned as complete and the partial tree of every retained task.       *)
(* Verdict per trace: <<"ACC", tid, bad, l>> with bad = "" or the first failing clause.                             *)
EXTENDS Parser, Json, IOUtils, TLCExt
TraceFile == JsonDeserialize(IOEnv.TRACE_FILE)
Traces == TraceFile.traces
VARIABLES tid, l, bad
ToSet(s) == {s[i] : i \in DOMAIN s}
Adds == Traces[tid].adds
N == Len(Adds)
NU == Traces[tid].nu
MsgById(i) == CHOOSE m \in univ : m.id = i
Obs == [u \in 1..NU |-> IF u \in DOMAIN tasks THEN TreeOf(tasks[u]) ELSE <<"none">>]
TInit == /\ tid \in DOMAIN Traces /\ l = 1 /\ bad = "" /\ PInit(ToSet(Traces[tid].universe))
TAdd == /\ l <= N /\ bad = ""
        /\ LET e == Adds[l] IN
           IF e.err # "" THEN /\ bad' = "parser_raised:" \o e.err /\ UNCHANGED <<pvars, tid, l>>
           ELSE /\ Add(MsgById(e.id))
                /\ l' = l + 1 /\ UNCHANGED tid
                /\ bad' = IF ToSet(e.done) # (Range(yielded') \ Range(yielded)) THEN "completed_tasks"
                          ELSE IF Traces[tid].light THEN ""        \* scale runs: only what is returned is compared
                          ELSE IF Obs' # e.obs THEN "partial_tree"
                          ELSE IF ~C09_OrderIndependent' THEN "INV.C09_OrderIndependent"
                          ELSE IF ~C09_CompleteIff' THEN "INV.C09_CompleteIff"
                          ELSE IF ~C09_YieldOnce' THEN "INV.C09_YieldOnce"
                          ELSE ""
FinalClause == IF bad # "" THEN bad
               ELSE IF ToSet(Traces[tid].incomplete) # DOMAIN tasks THEN "incomplete_at_end"
               ELSE IF Traces[tid].why # "" THEN "py:" \o Traces[tid].why
               ELSE ""
TDone == /\ (l = N + 1 \/ bad # "") /\ l <= N + 1
         /\ PrintT(<<"ACC", tid, FinalClause, l>>)
         /\ l' = N + 2 /\ UNCHANGED <<pvars, tid, bad>>
TNext == TAdd \/ TDone
TraceSpec == TInit /\ [][TNext]_<<pvars, tid, l, bad>>
=============================================================================
