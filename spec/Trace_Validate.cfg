SPECIFICATION TraceSpec
CONSTANTS
  MaxFields = 0
  MaxDev = 0
  VaryBase = FALSE
  MaxTests = 1
  RichCapture = TRUE
  MaxSteps = 0
  LifeWrites = {}
INVARIANT EmitVerdict
CHECK_DEADLOCK FALSE
