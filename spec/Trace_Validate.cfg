SPECIFICATION TraceSpec
CONSTANTS
  MaxFields = 0
  MaxDev = 0
  VaryBase = FALSE
  MaxTests = 1
  RichCapture = TRUE
INVARIANT EmitVerdict
CHECK_DEADLOCK FALSE
