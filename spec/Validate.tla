------------------------------ MODULE Validate ------------------------------
(* C14. Test-time validation of captured logs: eliot._validation (_MessageSerializer.validate/serialize, Field,     *)
(* forTypes, forValue), eliot._output.MemoryLogger (write / _validate_message / validate), eliot.testing            *)
(* (check_for_errors, validate_logging, capture_logging), eliot._traceback.TRACEBACK_MESSAGE.                       *)
(*                                                                                                                  *)
(* Part 1 is a case analysis (DESIGN 3.6). A case is (message kind, user-declared fields of the type, a message).   *)
(* The STATEMENT of the property is written declaratively (the set Viol of violated rules, a message is accepted    *)
(* iff that set is empty), the PROCEDURE of the library is transcribed step by step (Outcomes), and TLC checks over *)
(* the whole domain that the two agree and that the domain really is "conforming base + deviations". Every point of *)
(* the domain is printed as a <<"CASE", ...>> record; the harness instantiates each record with concrete witnesses  *)
(* and runs it through the real MemoryLogger.write / validate / check_for_errors.                                   *)
(*                                                                                                                  *)
(* Part 2 is a small state machine for validate_logging / capture_logging applied to unittest test methods: the     *)
(* default-logger variable, the cleanup stack, the body's outcome in {pass, fail, error, skip} and what the body    *)
(* logged. TLC checks that the default logger is restored whatever the outcome and that unflushed tracebacks always *)
(* fail the test, and prints one <<"CAP", ...>> record per run (a sequence of tests), which the harness executes    *)
(* with unittest's own runner on real decorated TestCase methods.                                                   *)
(*                                                                                                                  *)
(* Part 3 (TraceSpec) validates recorded executions of the real code (random messages abstracted into the case      *)
(* vocabulary, with the observed outcome) against the same operators: code -> spec direction.                       *)
EXTENDS Naturals, Sequences, FiniteSets, TLC, Json, IOUtils

CONSTANTS MaxFields,    \* user-declared fields per type: 0..MaxFields
          MaxDev,       \* deviations applied to a conforming base message: 0..MaxDev
          VaryBase,     \* TRUE: deviating cases start from every conforming base; FALSE: from the canonical base
          MaxTests,     \* Part 2: number of test methods per run: 1..MaxTests
          RichCapture,  \* Part 2: TRUE = all six log contents per test; FALSE = a reduced set
          MaxSteps,     \* Part 4: operations per lifecycle of one MemoryLogger
          LifeWrites    \* Part 4: kinds of message written: subset of {"ok","missing","extra","wrong","xv","nonjson","tb"}

-----------------------------------------------------------------------------
(* Vocabulary                                                                                                       *)

Kinds == {"message", "start", "success", "failure", "traceback", "untyped"}
Typed(k)  == k # "untyped"
Strict(k) == k \in {"message", "start", "success"}   \* _MessageSerializer(allow_additional_fields = False)

(* Field kinds. User-declarable:                                                                                    *)
(*   any      Field(key, lambda v: v)                  accepts every value                                          *)
(*   int      Field.forTypes(key, [int])               isinstance semantics: bool is accepted                       *)
(*   str      Field.forTypes(key, [str]) / fields(key=str)                                                          *)
(*   intnone  Field.forTypes(key, [int, None])                                                                      *)
(*   value    Field.forValue(key, V)                   accepts only values equal to V; serializes to V              *)
(*   xv       Field.forTypes(key, [int], extraValidator) the extra validator rejects the class "xvbad"              *)
(*   ser      Field(key, serializer) whose serializer turns a rich (not JSON-encodable) object into text and raises *)
(*            ValidationError for anything else                                                                     *)
(* Implicit (added by MessageType / ActionType / TRACEBACK_MESSAGE):                                                *)
(*   value    message_type / action_type / action_status                                                            *)
(*   str      reason, exception of a failed action                                                                  *)
(*   anyser   reason, traceback of eliot:traceback (safeunicode: accepts everything, yields text)                   *)
(*   clsser   exception of eliot:traceback (needs __module__ and __name__; anything else raises AttributeError)     *)
UserKinds == {"any", "int", "str", "intnone", "value", "xv", "ser"}
FieldKinds == UserKinds \cup {"anyser", "clsser"}

(* Value classes. "theval" is the value a forValue field demands (a text), "xvbad" an int the extra validator       *)
(* rejects, "rich" the object the "ser" serializer understands, "nonjson" any other not JSON-encodable object,      *)
(* "cls" a class object (not JSON-encodable either). "list" stands for JSON containers.                             *)
VC == {"int", "bool", "str", "none", "float", "list", "theval", "xvbad", "rich", "nonjson", "cls"}
Absent == "absent"

JsonRaw(v) == v \notin {"rich", "nonjson", "cls"}

Accepts(fk, v) ==
  CASE fk = "any"     -> TRUE
    [] fk = "int"     -> v \in {"int", "bool", "xvbad"}
    [] fk = "str"     -> v \in {"str", "theval"}
    [] fk = "intnone" -> v \in {"int", "bool", "xvbad", "none"}
    [] fk = "value"   -> v = "theval"
    [] fk = "xv"      -> v \in {"int", "bool"}
    [] fk = "ser"     -> v = "rich"
    [] fk = "anyser"  -> TRUE
    [] fk = "clsser"  -> v = "cls"

(* class of the exception with which Field.validate rejects a value *)
RejectClass(fk) == IF fk = "clsser" THEN "Other" ELSE "ValidationError"

(* is the SERIALIZED value JSON-encodable (the JSON check runs after serializer.serialize) *)
JsonAfter(fk, v) == IF fk \in {"value", "ser", "anyser", "clsser"} THEN TRUE ELSE JsonRaw(v)

Conform(fk, v) == Accepts(fk, v) /\ JsonAfter(fk, v)

Implicit(k) ==
  CASE k = "message"   -> <<"value">>                               \* message_type
    [] k = "start"     -> <<"value", "value">>                      \* action_type, action_status
    [] k = "success"   -> <<"value", "value">>
    [] k = "failure"   -> <<"value", "value", "str", "str">>        \* action_type, action_status, reason, exception
    [] k = "traceback" -> <<"anyser", "anyser", "clsser", "value">> \* reason, traceback, exception, message_type
    [] k = "untyped"   -> <<>>

HasUserFields(k) == k \in {"message", "start", "success"}
Fields(k, flds) == flds \o Implicit(k)

(* Keys of fields that are not declared. "wellknown" = a name Eliot uses elsewhere (message_type, action_type,      *)
(* action_status, reason, exception, traceback, ...) that this type does not declare; "reserved" = task_uuid,       *)
(* task_level or timestamp; "nontext" = a key that is neither text nor bytes; bytes keys: UTF-8 or not.             *)
KeyClasses == {"plain", "wellknown", "reserved", "nontext", "bytes_utf8", "bytes_bad"}
TextKey(kc) == kc \in {"plain", "wellknown", "reserved"}
Extras == [key : KeyClasses, val : {"json", "nonjson"}]

(* A message: vals aligned with Fields(k, flds) (a value class or Absent), extras = the undeclared entries. *)

-----------------------------------------------------------------------------
(* The statement: which rules does a message violate?                                                               *)

Idx(vals) == DOMAIN vals

NoE == [key |-> "-", val |-> "-"]
(* a violation is <<rule, index of the declared field or 0, undeclared entry or NoE>> *)
Viol(k, F, vals, extras) ==
     {<<"missing", i, NoE>> : i \in {j \in Idx(vals) : Typed(k) /\ vals[j] = Absent}}
  \cup {<<"value", i, NoE>> : i \in {j \in Idx(vals) : vals[j] # Absent /\ ~Accepts(F[j], vals[j])}}
  \cup {<<"json", i, NoE>> : i \in {j \in Idx(vals) : /\ vals[j] # Absent
                                                      /\ IF Accepts(F[j], vals[j]) THEN ~JsonAfter(F[j], vals[j])
                                                                                   ELSE ~JsonRaw(vals[j])}}
  \cup {<<"extra", 0, e>> : e \in {x \in extras : Strict(k) /\ x.key # "reserved"}}
  \cup {<<"key", 0, e>> : e \in {x \in extras : ~TextKey(x.key)}}
  \cup {<<"json", 0, e>> : e \in {x \in extras : x.val = "nonjson"}}

StatementAccepts(k, F, vals, extras) == Viol(k, F, vals, extras) = {}

(* the documented error class of a single violated rule *)
ClassOf(k, F, viol) ==
  CASE viol[1] = "missing" -> "ValidationError"
    [] viol[1] = "value"   -> RejectClass(F[viol[2]])
    [] viol[1] = "extra"   -> "ValidationError"
    [] viol[1] = "key"     -> IF viol[3].key = "bytes_bad" THEN "Other" ELSE "TypeError"
    [] viol[1] = "json"    -> "TypeError"

-----------------------------------------------------------------------------
(* The procedure, transcribed: MemoryLogger._validate_message                                                       *)
(*   1. serializer.validate(dictionary): fields in declaration order: missing -> ValidationError, then              *)
(*      field.validate(value); then, unless allow_additional_fields, any key outside declared + RESERVED_FIELDS     *)
(*      -> ValidationError                                                                                          *)
(*   2. every key must be text; bytes keys are decoded as UTF-8 (UnicodeDecodeError = "Other"), anything else       *)
(*      -> TypeError                                                                                                *)
(*   3. serializer.serialize(dictionary)                                                                            *)
(*   4. JSON-encode with the logger's json_default; any failure -> TypeError (bytes keys fail here at the latest)   *)
(* The result is a SET of possible classes only because the iteration order over two different bad keys is the      *)
(* dictionary's order, which the case vocabulary does not fix.                                                      *)

BadField(F, vals, i) == vals[i] = Absent \/ ~Accepts(F[i], vals[i])

SerializerValidate(k, F, vals, extras) ==
  IF \E i \in Idx(vals) : BadField(F, vals, i)
  THEN LET i == CHOOSE j \in Idx(vals) : BadField(F, vals, j) /\ \A h \in Idx(vals) : h < j => ~BadField(F, vals, h)
       IN IF vals[i] = Absent THEN "ValidationError" ELSE RejectClass(F[i])
  ELSE IF ~Strict(k) THEN "OK"
  ELSE IF \E e \in extras : e.key # "reserved" THEN "ValidationError"
  ELSE "OK"

KeyOutcomes(extras) == {"TypeError" : e \in {x \in extras : x.key = "nontext"}}
                  \cup {"Other" : e \in {x \in extras : x.key = "bytes_bad"}}

JsonFails(F, vals, extras) ==
  \/ \E i \in Idx(vals) : vals[i] # Absent /\ ~JsonAfter(F[i], vals[i])
  \/ \E e \in extras : e.val = "nonjson" \/ e.key = "bytes_utf8"

Outcomes(k, F, vals, extras) ==
  LET sv == IF Typed(k) THEN SerializerValidate(k, F, vals, extras) ELSE "OK" IN
  IF sv # "OK" THEN {sv}
  ELSE IF KeyOutcomes(extras) # {} THEN KeyOutcomes(extras)
  ELSE IF JsonFails(F, vals, extras) THEN {"TypeError"}
  ELSE {"OK"}

(* What the harness demands of MemoryLogger.validate(): "OK", a definite class when exactly one rule is violated and *)
(* its class is documented, otherwise "REJ" = some exception.                                                       *)
Expected(k, F, vals, extras) ==
  LET V == Viol(k, F, vals, extras) IN
  IF V = {} THEN "OK"
  ELSE IF Cardinality(V) = 1 /\ ClassOf(k, F, CHOOSE v \in V : TRUE) # "Other"
       THEN ClassOf(k, F, CHOOSE v \in V : TRUE)
  ELSE "REJ"

(* check_for_errors: unflushed tracebacks first, then validation.  tb = companion traceback in the same logger.     *)
(* A message written with the traceback type is itself an unflushed traceback unless it was flushed.                *)
Unflushed(k, tb) == tb = "unflushed" \/ (k = "traceback" /\ tb # "selfflushed")
ExpectedCheck(k, F, vals, extras, tb) ==
  IF Unflushed(k, tb) THEN "UnflushedTracebacks" ELSE Expected(k, F, vals, extras)

-----------------------------------------------------------------------------
(* The domain: conforming base messages and deviations from them                                                    *)

SeqsUpTo(S, n) == UNION {[1..m -> S] : m \in 0..n}
UserFieldSeqs(k) == IF HasUserFields(k) THEN SeqsUpTo(UserKinds, MaxFields) ELSE {<<>>}

(* conforming value classes of a field kind; the canonical one is used when VaryBase is FALSE *)
BaseVals(fk) ==
  CASE fk = "any"     -> {"int", "bool", "str", "none", "float", "list"}
    [] fk = "int"     -> {"int", "bool"}
    [] fk = "str"     -> {"str"}
    [] fk = "intnone" -> {"int", "none"}
    [] fk = "value"   -> {"theval"}
    [] fk = "xv"      -> {"int"}
    [] fk = "ser"     -> {"rich"}
    [] fk = "anyser"  -> {"str", "nonjson"}
    [] fk = "clsser"  -> {"cls"}
Canon(fk) ==
  CASE fk \in {"any", "int", "intnone", "xv"} -> "int"
    [] fk \in {"str", "anyser"} -> "str"
    [] fk = "value" -> "theval"
    [] fk = "ser" -> "rich"
    [] fk = "clsser" -> "cls"

RECURSIVE AllBases(_)
AllBases(F)  == IF F = <<>> THEN {<<>>}
                ELSE {Append(b, v) : b \in AllBases(SubSeq(F, 1, Len(F) - 1)), v \in BaseVals(F[Len(F)])}
CanonBase(F) == [i \in DOMAIN F |-> Canon(F[i])]

(* undeclared entries a conforming message may carry: reserved fields always; anything textual and JSON-encodable   *)
(* in failed-action and traceback messages (extractor fields) and in untyped messages                               *)
BaseExtras(k) ==
  IF Strict(k) THEN {{}, {[key |-> "reserved", val |-> "json"]}}
  ELSE {{}, {[key |-> "reserved", val |-> "json"]}, {[key |-> "plain", val |-> "json"]},
        {[key |-> "wellknown", val |-> "json"], [key |-> "reserved", val |-> "json"]}}

(* deviations: a declared field missing, a declared field with a non-conforming value, one more undeclared entry *)
Dev(t, i, v, e) == [t |-> t, i |-> i, v |-> v, e |-> e]
Devs(F) ==
       {Dev("missing", i, "-", NoE) : i \in DOMAIN F}
  \cup {Dev("wrong", p[1], p[2], NoE) : p \in {q \in (DOMAIN F) \X VC : ~Conform(F[q[1]], q[2])}}
  \cup {Dev("entry", 0, "-", e) : e \in Extras}

Compatible(d1, d2) == d1 # d2 /\ (d1.i = 0 \/ d1.i # d2.i)
DevSets(F) == {{}}
         \cup (IF MaxDev >= 1 THEN {{d} : d \in Devs(F)} ELSE {})
         \cup (IF MaxDev >= 2 THEN {{p[1], p[2]} : p \in {q \in Devs(F) \X Devs(F) : Compatible(q[1], q[2])}} ELSE {})

ApplyVals(b, D) == [i \in DOMAIN b |->
                      IF \E d \in D : d.t = "missing" /\ d.i = i THEN Absent
                      ELSE IF \E d \in D : d.t = "wrong" /\ d.i = i THEN (CHOOSE d \in D : d.t = "wrong" /\ d.i = i).v
                      ELSE b[i]]
ApplyExtras(x, D) == x \cup {d.e : d \in {dd \in D : dd.t = "entry"}}

(* is a deviation a REAL one for kind k, according to the statement of the property?                                *)
(*   - an entry named task_uuid / task_level / timestamp with a JSON value is never a deviation                     *)
(*   - failed-action, traceback and untyped messages may carry any textual, JSON-encodable extra entry              *)
(*   - an untyped message declares nothing: only keys and JSON-encodability matter                                  *)
RealDev(k, d) ==
  IF d.t # "entry" THEN Typed(k)
  ELSE IF ~TextKey(d.e.key) \/ d.e.val = "nonjson" THEN TRUE
  ELSE IF d.e.key = "reserved" THEN FALSE
  ELSE Strict(k)

TbChoices(k, flds) == IF k = "traceback" THEN {"none", "selfflushed"}
                      ELSE IF Len(flds) <= 1 THEN {"none", "unflushed", "flushed"} ELSE {"none"}

CasesOf(k, flds) ==
  UNION { UNION { UNION {
    { [k |-> k, flds |-> flds, vals |-> ApplyVals(b, D), extras |-> ApplyExtras(x, D), devs |-> D, tb |-> tb]
      : tb \in TbChoices(k, flds) }
    : D \in IF (b = CanonBase(Fields(k, flds)) \/ VaryBase) THEN DevSets(Fields(k, flds)) ELSE {{}} }
    : x \in BaseExtras(k) }
    : b \in AllBases(Fields(k, flds)) }

TypeNodes == UNION {{[k |-> k, flds |-> flds] : flds \in UserFieldSeqs(k)} : k \in Kinds}

-----------------------------------------------------------------------------
(* Part 1 as a TLC model: one initial state per case                                                                *)

VARIABLES case,      \* Part 1: the case under analysis (or "-" in the other parts)
          cap,       \* Part 2: state of the capture machine (or "-")
          tr,        \* Part 3: index of the recorded execution under validation (or 0)
          life       \* Part 4: one MemoryLogger through its lifecycle (or "-")

CF  == Fields(case.k, case.flds)
CExpected == Expected(case.k, CF, case.vals, case.extras)
COutcomes == Outcomes(case.k, CF, case.vals, case.extras)
CCheck    == ExpectedCheck(case.k, CF, case.vals, case.extras, case.tb)

(* two levels only so that TLC's workers share the enumeration: a (kind, type) node, then its cases *)
IsCase == "vals" \in DOMAIN case
CaseInit == case \in TypeNodes /\ cap = "-" /\ tr = 0 /\ life = "-"
CaseNext == ~IsCase /\ case' \in CasesOf(case.k, case.flds) /\ UNCHANGED <<cap, tr, life>>
CaseSpec == CaseInit /\ [][CaseNext]_<<case, cap, tr, life>>

(* The procedure accepts exactly what the statement accepts. *)
C14_AcceptIff == IsCase => ((COutcomes = {"OK"}) <=> StatementAccepts(case.k, CF, case.vals, case.extras))
C14_OkIsExclusive == IsCase => (("OK" \in COutcomes) => (COutcomes = {"OK"}))
(* A single violated rule is reported with its documented class. *)
C14_SingleClass == IsCase =>
  LET V == Viol(case.k, CF, case.vals, case.extras) IN
  (Cardinality(V) = 1 => COutcomes = {ClassOf(case.k, CF, CHOOSE v \in V : TRUE)})
(* Conforming messages validate; every real single deviation is reported; harmless ones are not. *)
C14_ConformingAccepted == IsCase => ((\A d \in case.devs : ~RealDev(case.k, d)) => CExpected = "OK")
C14_DeviationReported == IsCase => ((\E d \in case.devs : RealDev(case.k, d)) => "OK" \notin COutcomes)
(* Untyped messages only need text keys and JSON-encodability. *)
C14_UntypedMinimal == IsCase =>
  (case.k = "untyped" => (CExpected = "OK" <=> \A e \in case.extras : TextKey(e.key) /\ e.val = "json"))
(* Unflushed tracebacks win over validation errors; without them check_for_errors is validate(). *)
C14_TracebacksFirst == IsCase =>
   (/\ Unflushed(case.k, case.tb) => CCheck = "UnflushedTracebacks"
    /\ ~Unflushed(case.k, case.tb) => CCheck = CExpected)

(* deliberately wrong reading of the statement ("every undeclared entry is a deviation"), which TLC must refute:   *)
(* a permanent guard against vacuous invariants (MC_Validate_Broken.cfg)                                           *)
Broken_EveryExtraIsDeviation == IsCase => (case.extras # {} => CExpected # "OK")

(* How a typed message reaches the logger is NOT a parameter of Expected: the clause is the same for every style.      *)
(* StylesOf tells the harness which public ways of writing it must execute for a case (all of them, same expectation): *)
(*   log = MessageType.log(fields); write = MSG(fields).write() (default logger); write_logger = MSG(fields).write(logger);     *)
(*   write_action = MSG(fields).write(action=a), a an action of the same logger; bind_write_action = MSG(some fields).bind(the others) *)
(*   .write(action=a).  Other kinds have one way each (typed actions, write_traceback, log_message).                   *)
WriteStyles == {"log", "write", "write_logger", "write_action", "bind_write_action"}
StylesOf(k) == IF k = "message" THEN WriteStyles ELSE {"api"}

(* one line per case for the harness (JSON inside a TLA+ string) *)
EmitCase == IsCase => PrintT("CASEJ" \o ToJson([k |-> case.k, flds |-> case.flds, F |-> CF, vals |-> case.vals,
                                                extras |-> case.extras, tb |-> case.tb, exp |-> CExpected,
                                                chk |-> CCheck, ndev |-> Cardinality(case.devs),
                                                styles |-> StylesOf(case.k)]))

-----------------------------------------------------------------------------
(* Part 2: validate_logging / capture_logging around a unittest test method                                         *)
(*                                                                                                                  *)
(* Loggers are identities: 0 = the default logger before the run, n > 0 = the MemoryLogger made for test n.         *)
(* wrapper of validate_logging: logger := MemoryLogger(); addCleanup(check_for_errors); addCleanup(assertion)       *)
(* wrapper of capture_logging (inside): previous := swap_logger(logger); addCleanup(swap back)                      *)
(* unittest: body; then cleanups LIFO, each one run whatever the others and the body did.                           *)

Outcome == {"pass", "fail", "error", "skip"}
Logs == IF RichCapture THEN {"none", "valid", "invalid", "tb", "tb_flushed", "tb_invalid"}
                       ELSE {"valid", "invalid", "tb", "tb_invalid"}
Decorators == {"capture", "validate"}
(* swap = the test body itself calls swap_logger(a foreign logger) after logging; it swaps back only if it passes, so a   *)
(* failing / erroring / skipped body leaves the foreign logger installed when the cleanups start. Only under             *)
(* capture_logging (validate_logging promises nothing about the default logger).                                        *)
SwapLogs == IF RichCapture THEN {"valid", "tb_invalid"} ELSE {"valid"}
TestDesc == {t \in [dec : Decorators, out : Outcome, logs : Logs, swap : BOOLEAN] :
               t.swap => (t.dec = "capture" /\ t.logs \in SwapLogs)}
Foreign(n) == 100 + n      \* identity of the logger a body swaps in
Runs == UNION {[1..n -> TestDesc] : n \in 1..MaxTests}

HasUnflushedTb(l) == l \in {"tb", "tb_invalid"}
HasInvalid(l) == l \in {"invalid", "tb_invalid"}
CheckForErrors(l) == IF HasUnflushedTb(l) THEN "UnflushedTracebacks"
                     ELSE IF HasInvalid(l) THEN "ValidationError" ELSE "OK"

CapInit == /\ case = "-" /\ tr = 0 /\ life = "-"
           /\ \E r \in Runs : cap = [run |-> r, n |-> 1, pc |-> "idle", dl |-> 0, saved |-> 0, stack |-> <<>>,
                                     events |-> {}, during |-> 0, res |-> <<>>]

T == cap.run[cap.n]

CapEnter ==   \* the decorated method is called: wrappers run up to the body
  /\ cap.pc = "idle" /\ cap.n <= Len(cap.run)
  /\ cap' = [cap EXCEPT !.pc = "body",
                        !.stack = IF T.dec = "capture" THEN <<"check", "assert", "restore">> ELSE <<"check", "assert">>,
                        !.saved = cap.dl,
                        !.dl = IF T.dec = "capture" THEN cap.n ELSE cap.dl,
                        !.events = {}]

CapBody ==    \* the body logs (to the default logger under capture_logging) and ends
  /\ cap.pc = "body"
  /\ cap' = [cap EXCEPT !.pc = "cleanup", !.during = cap.dl,
                        !.dl = IF T.swap /\ T.out # "pass" THEN Foreign(cap.n) ELSE cap.dl,
                        !.events = CASE T.out = "pass" -> {}
                                     [] T.out = "fail" -> {"failure"}
                                     [] T.out = "error" -> {"error:body"}
                                     [] T.out = "skip" -> {"skip"}]

CapCleanup == \* unittest pops one cleanup
  /\ cap.pc = "cleanup" /\ cap.stack # <<>>
  /\ LET top == cap.stack[Len(cap.stack)]
         rest == SubSeq(cap.stack, 1, Len(cap.stack) - 1) IN
     cap' = [cap EXCEPT !.stack = rest,
                        !.dl = IF top = "restore" THEN cap.saved ELSE cap.dl,
                        !.events = IF top = "check" /\ CheckForErrors(T.logs) # "OK"
                                   THEN cap.events \cup {"error:" \o CheckForErrors(T.logs)} ELSE cap.events]

CapFinish ==  \* unittest reports the test and goes to the next one
  /\ cap.pc = "cleanup" /\ cap.stack = <<>>
  /\ cap' = [cap EXCEPT !.pc = "idle", !.n = cap.n + 1,
                        !.res = Append(cap.res, [during |-> cap.during, after |-> cap.dl,
                                                 events |-> IF cap.events = {} THEN {"success"} ELSE cap.events])]

CapDone == cap.pc = "idle" /\ cap.n > Len(cap.run) /\ UNCHANGED cap
CapNext == (CapEnter \/ CapBody \/ CapCleanup \/ CapFinish \/ CapDone) /\ UNCHANGED <<case, tr, life>>
CapSpec == CapInit /\ [][CapNext]_<<case, cap, tr, life>>

(* whatever the outcome, between tests the default logger is the one from before the run *)
C14_LoggerRestored == cap.pc = "idle" => cap.dl = 0
(* under capture_logging the body's default logger is the test's own MemoryLogger; under validate_logging untouched *)
C14_CapturedDuring == \A i \in DOMAIN cap.res :
                         cap.res[i].during = (IF cap.run[i].dec = "capture" THEN i ELSE 0) /\ cap.res[i].after = 0
(* unflushed tracebacks always fail the test; validation errors do when there is no unflushed traceback *)
C14_TracebackFails == \A i \in DOMAIN cap.res :
   /\ HasUnflushedTb(cap.run[i].logs) => "error:UnflushedTracebacks" \in cap.res[i].events
   /\ (HasInvalid(cap.run[i].logs) /\ ~HasUnflushedTb(cap.run[i].logs)) => "error:ValidationError" \in cap.res[i].events
   /\ (cap.run[i].out = "pass" /\ CheckForErrors(cap.run[i].logs) = "OK") <=> cap.res[i].events = {"success"}

EmitCap == (cap.pc = "idle" /\ cap.n > Len(cap.run)) => PrintT("CAPJ" \o ToJson([run |-> cap.run, res |-> cap.res]))

-----------------------------------------------------------------------------
(* Part 3: recorded executions of the real code, validated against the same operators                               *)
(* TRACE_FILE: {"recs": [{"k", "F": [field kinds incl. implicit], "vals": [...], "extras": [{"key","val"}],          *)
(*                        "tb", "validate": observed class or "OK", "check": observed class or "OK"}]}              *)

TraceFile == IF "TRACE_FILE" \in DOMAIN IOEnv THEN JsonDeserialize(IOEnv.TRACE_FILE) ELSE [recs |-> <<>>]
Recs == TraceFile.recs
ToSet(s) == {s[i] : i \in DOMAIN s}

Matches(exp, obs) == IF exp = "REJ" THEN obs # "OK" ELSE obs = exp

RecVerdict(r) ==
  LET X == {[key |-> e.key, val |-> e.val] : e \in ToSet(r.extras)}
      expv == Expected(r.k, r.F, r.vals, X)
      expc == ExpectedCheck(r.k, r.F, r.vals, X, r.tb) IN
  IF ~Matches(expv, r.validate) THEN <<"validate", expv>>
  ELSE IF ~Matches(expc, r.check) THEN <<"check_for_errors", expc>>
  ELSE <<"", "">>

TraceInit == case = "-" /\ cap = "-" /\ tr \in DOMAIN Recs /\ life = "-"
TraceNext == UNCHANGED <<case, cap, tr, life>>
TraceSpec == TraceInit /\ [][TraceNext]_<<case, cap, tr, life>>
EmitVerdict == PrintT(<<"ACC", tr, RecVerdict(Recs[tr])[1], RecVerdict(Recs[tr])[2]>>)
-----------------------------------------------------------------------------
(* Part 4: the lifecycle of ONE MemoryLogger                                                                        *)
(*                                                                                                                  *)
(* Operations: W_<kind> (a message is written: conforming "ok", or deviating in one way, or a traceback logged by    *)
(* write_traceback), V (validate()), C (check_for_errors()), R (reset()), F (flushTracebacks(type of the logged      *)
(* exception)).  The clause: validate() / check_for_errors() report iff the messages written SINCE THE LAST reset()  *)
(* contain a deviation (check_for_errors: or a traceback neither flushed nor reset away, reported first) - whatever  *)
(* was validated, reported, flushed or reset before.                                                                *)
(*                                                                                                                  *)
(* The logger is transcribed (messages with a "serialized in place" flag, positions of unflushed tracebacks) and,    *)
(* independently, the clause is stated on the HISTORY of operations; TLC checks that they agree on every behaviour. *)
(* What the library does not promise is "ANY": validate() replaces stored messages by their serialized contents      *)
(* (documented side effect), so validating an eliot:traceback message a second time, or flushing tracebacks after    *)
(* they were validated, has no specified result; from then on, until reset(), nothing is demanded.  Conforming       *)
(* messages of the lifecycle use fields whose serialization is idempotent.                                          *)

Deviating == {"missing", "extra", "wrong", "xv", "nonjson"}
DevClass(c) == IF c = "nonjson" THEN "TypeError" ELSE "ValidationError"
LifeOps == {"W_" \o w : w \in LifeWrites} \cup {"V", "C", "R", "F"}
KindOfWrite(op) == CHOOSE w \in LifeWrites : op = "W_" \o w
IsWrite(op) == \E w \in LifeWrites : op = "W_" \o w

LifeInit == /\ case = "-" /\ cap = "-" /\ tr = 0
            /\ life = [msgs |-> <<>>, unfl |-> {}, unspec |-> FALSE, hist |-> <<>>]

(* validate(): messages in order; the first deviating one decides; an already serialized traceback is unspecified *)
Stops(m) == m.c \in Deviating \/ (m.c = "tb" /\ m.ser)
FirstStop(msgs) == IF \E i \in DOMAIN msgs : Stops(msgs[i])
                   THEN CHOOSE i \in DOMAIN msgs : Stops(msgs[i]) /\ \A j \in DOMAIN msgs : j < i => ~Stops(msgs[j])
                   ELSE 0
DevClassesOf(msgs) == {DevClass(msgs[i].c) : i \in {j \in DOMAIN msgs : msgs[j].c \in Deviating}}
ValidateResult(msgs) ==
  LET i == FirstStop(msgs) IN
  IF i = 0 THEN "OK"
  ELSE IF msgs[i].c = "tb" THEN "ANY"
  ELSE IF Cardinality(DevClassesOf(msgs)) = 1 THEN DevClass(msgs[i].c) ELSE "REJ"
AfterValidate(msgs) ==
  LET i == FirstStop(msgs) IN
  [j \in DOMAIN msgs |-> IF i = 0 \/ j < i THEN [msgs[j] EXCEPT !.ser = TRUE] ELSE msgs[j]]

LifeStep(op) ==
  LET L == life
      done(res, msgs, unfl, unspec) ==
         life' = [msgs |-> msgs, unfl |-> unfl, unspec |-> unspec, hist |-> Append(L.hist, [op |-> op, res |-> res])]
      validated == done(ValidateResult(L.msgs), AfterValidate(L.msgs), L.unfl, ValidateResult(L.msgs) = "ANY")
  IN
  IF IsWrite(op) THEN
       LET w == KindOfWrite(op) IN
       done("-", Append(L.msgs, [c |-> w, ser |-> FALSE]),
            IF w = "tb" THEN L.unfl \cup {Len(L.msgs) + 1} ELSE L.unfl, L.unspec)
  ELSE IF op = "R" THEN done("-", <<>>, {}, FALSE)
  ELSE IF L.unspec THEN done("ANY", L.msgs, L.unfl, TRUE)
  ELSE IF op = "V" THEN validated
  ELSE IF op = "C" THEN (IF L.unfl # {} THEN done("UnflushedTracebacks", L.msgs, L.unfl, FALSE) ELSE validated)
  ELSE \* "F"
       IF \E i \in L.unfl : L.msgs[i].ser THEN done("ANY", L.msgs, L.unfl, TRUE)
       ELSE done("flushed" \o ToString(Cardinality(L.unfl)), L.msgs, {}, FALSE)

LifeNext == /\ Len(life.hist) < MaxSteps
            /\ \E op \in LifeOps : LifeStep(op)
            /\ UNCHANGED <<case, cap, tr>>
LifeSpec == LifeInit /\ [][LifeNext]_<<case, cap, tr, life>>

(* the clause, on the history alone *)
H == life.hist
LastIdx(ops) == IF \E i \in DOMAIN H : H[i].op \in ops
                THEN CHOOSE i \in DOMAIN H : H[i].op \in ops /\ \A j \in DOMAIN H : j > i => H[j].op \notin ops
                ELSE 0
SinceReset == {i \in DOMAIN H : i > LastIdx({"R"}) /\ i < Len(H)}       \* operations since the last reset, before this one
DevSince == {i \in SinceReset : IsWrite(H[i].op) /\ KindOfWrite(H[i].op) \in Deviating}
FlushedBefore(i) == \E j \in SinceReset : j > i /\ H[j].op = "F"
TbPending == {i \in SinceReset : H[i].op = "W_tb" /\ ~FlushedBefore(i)}

C14_LifeClause ==
  (H # <<>>) =>
    LET e == H[Len(H)] IN
    (e.res # "ANY") =>
       CASE e.op = "V" -> (e.res = "OK" <=> DevSince = {})
         [] e.op = "C" -> /\ (e.res = "UnflushedTracebacks" <=> TbPending # {})
                          /\ (e.res = "OK" <=> (TbPending = {} /\ DevSince = {}))
         [] e.op = "F" -> e.res = "flushed" \o ToString(Cardinality(TbPending))
         [] OTHER -> TRUE
(* a report carries the documented class when all deviations since the reset share it *)
C14_LifeClass ==
  (H # <<>>) =>
    LET e == H[Len(H)] IN
    (e.op = "V" /\ e.res \in {"ValidationError", "TypeError"}) =>
        \A i \in DevSince : DevClass(KindOfWrite(H[i].op)) = e.res
(* nothing is left unspecified unless a traceback is involved *)
C14_LifeSpecified ==
  (H # <<>>) => (H[Len(H)].res = "ANY" => \E i \in DOMAIN H : H[i].op = "W_tb")

EmitLife == (Len(life.hist) = MaxSteps /\ life.hist[MaxSteps].op \in {"V", "C"})
               => PrintT("LIFEJ" \o ToJson(life.hist))
=============================================================================
