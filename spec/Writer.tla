------------------------------- MODULE Writer -------------------------------
(***************************************************************************)
(* Level B model of eliot.logwriter.ThreadedWriter for one start/stop      *)
(* cycle: producers put messages on an unbounded FIFO queue; the reader    *)
(* thread loops { msg = get(); if msg is STOP: return; try destination(msg)*)
(* except: pass }; stopService marks the service stopped, unregisters the  *)
(* writer, enqueues the STOP sentinel and joins the reader.                *)
(* Variant "ok" = the code; "exit_on_stop" = broken sibling whose reader   *)
(* loop also ends when the service is marked stopped (drops the tail);     *)
(* "sentinel_first" = sentinel enqueued before unregistering.              *)
(***************************************************************************)
EXTENDS Naturals, Sequences, FiniteSets, TLC
CONSTANTS NP, NM, Variant       \* producers, messages per producer
VARIABLES queue, running, registered, ppc, pn, rpc, rmsg, written, spc, offered, failmask
vars == <<queue, running, registered, ppc, pn, rpc, rmsg, written, spc, offered, failmask>>
P == 1..NP
STOP == 0
Init == /\ queue = <<>> /\ running = TRUE /\ registered = TRUE
        /\ ppc = [p \in P |-> "idle"] /\ pn = [p \in P |-> 1]
        /\ rpc = "get" /\ rmsg = STOP /\ written = <<>> /\ spc = "s0" /\ offered = {}
        /\ failmask \in SUBSET {p * 10 + n : p \in P, n \in 1..NM}       \* messages on which the wrapped destination raises
Msg(p) == p * 10 + pn[p]
\* a producer offers its next message while the writer is (still) registered as a destination
Offer(p) == /\ ppc[p] = "idle" /\ pn[p] <= NM /\ registered
            /\ ppc' = [ppc EXCEPT ![p] = "put"] /\ UNCHANGED offered
            /\ UNCHANGED <<queue, running, registered, pn, rpc, rmsg, written, spc, failmask>>
Put(p) == /\ ppc[p] = "put" /\ queue' = Append(queue, Msg(p))
          /\ ppc' = [ppc EXCEPT ![p] = "idle"] /\ pn' = [pn EXCEPT ![p] = @ + 1]
          /\ offered' = IF spc = "s0" THEN offered \cup {Msg(p)} ELSE offered      \* offered before stopService was called
          /\ UNCHANGED <<running, registered, rpc, rmsg, written, spc, failmask>>
\* reader thread
RGet == /\ rpc = "get" /\ queue # <<>> /\ (Variant = "exit_on_stop" => running)
        /\ rmsg' = Head(queue) /\ queue' = Tail(queue) /\ rpc' = "test"
        /\ UNCHANGED <<running, registered, ppc, pn, written, spc, offered, failmask>>
RExitEarly == /\ Variant = "exit_on_stop" /\ rpc = "get" /\ ~running /\ rpc' = "exited"
              /\ UNCHANGED <<queue, running, registered, ppc, pn, rmsg, written, spc, offered, failmask>>
RTest == /\ rpc = "test" /\ rpc' = (IF rmsg = STOP THEN "exited" ELSE "call")
         /\ UNCHANGED <<queue, running, registered, ppc, pn, rmsg, written, spc, offered, failmask>>
RCall == /\ rpc = "call" /\ written' = Append(written, rmsg) /\ rpc' = "get"      \* raising or not, the destination was called
         /\ UNCHANGED <<queue, running, registered, ppc, pn, rmsg, spc, offered, failmask>>
\* stopService
S0 == /\ spc = "s0" /\ running' = FALSE /\ spc' = (IF Variant = "sentinel_first" THEN "s2" ELSE "s1")
      /\ UNCHANGED <<queue, registered, ppc, pn, rpc, rmsg, written, offered, failmask>>
S1 == /\ spc = "s1" /\ registered' = FALSE /\ spc' = (IF Variant = "sentinel_first" THEN "s3" ELSE "s2")
      /\ UNCHANGED <<queue, running, ppc, pn, rpc, rmsg, written, offered, failmask>>
S2 == /\ spc = "s2" /\ queue' = Append(queue, STOP) /\ spc' = (IF Variant = "sentinel_first" THEN "s1" ELSE "s3")
      /\ UNCHANGED <<running, registered, ppc, pn, rpc, rmsg, written, offered, failmask>>
S3 == /\ spc = "s3" /\ rpc = "exited" /\ spc' = "joined"
      /\ UNCHANGED <<queue, running, registered, ppc, pn, rpc, rmsg, written, offered, failmask>>
Next == S0 \/ S1 \/ S2 \/ S3 \/ RGet \/ RExitEarly \/ RTest \/ RCall \/ \E p \in P : Offer(p) \/ Put(p)
Spec == Init /\ [][Next]_vars
Range(s) == {s[i] : i \in DOMAIN s}
Quiet == \A p \in P : ppc[p] = "idle"
\* level A as invariants of level B
C19_ExactlyOnce == \A i, j \in DOMAIN written : i # j => written[i] # written[j]
C19_AllWrittenBeforeStopCompletes == spc = "joined" => offered \subseteq Range(written)
C19_PerProducerOrder == \A i, j \in DOMAIN written : (i < j /\ written[i] \div 10 = written[j] \div 10) => written[i] < written[j]
C19_StopCompletes == (spc = "s3" /\ Quiet) => ENABLED Next
=============================================================================
