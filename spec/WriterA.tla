------------------------------ MODULE WriterA ------------------------------
(* Level A for eliot.logwriter.ThreadedWriter, evaluated on a recorded history of real threads (producers offering    *)
(* messages, a thread starting and stopping the service, the writer thread calling the wrapped destination):          *)
(*   exactly_once : no message is passed to the wrapped destination twice                                           *)
(*   nothing_lost : every message whose offer returned after startService returned and before stopService was       *)
(*                  invoked (same cycle) is passed to the destination -- also when the destination raised on others  *)
(*   before_stop  : ... and that happens before stopService's result completes                                      *)
(*   order        : offers ordered by happens-before (a returned before b was invoked) are written in that order     *)
(*   off_thread   : within a cycle all writes happen on one thread, which is none of the callers                      *)
(* Verdict <<"ACC", tid, clause>>.                                                                                  *)
EXTENDS Naturals, Sequences, FiniteSets, TLC, Json, IOUtils, TLCExt
TraceFile == JsonDeserialize(IOEnv.TRACE_FILE)
Traces == TraceFile.traces
VARIABLES tid, done
E == Traces[tid].ev
I(e, op, id) == CHOOSE i \in DOMAIN E : E[i].e = e /\ E[i].op = op /\ E[i].id = id
Has(e, op, id) == \E i \in DOMAIN E : E[i].e = e /\ E[i].op = op /\ E[i].id = id
Offers == {E[i].id : i \in {i \in DOMAIN E : E[i].e = "inv" /\ E[i].op = "offer"}}
Writes == SelectSeq([i \in DOMAIN E |-> i], LAMBDA i : E[i].e = "write")
WId(k) == E[Writes[k]].id
Cycles == {E[i].id : i \in {i \in DOMAIN E : E[i].e = "inv" /\ E[i].op = "start"}}
\* message m was offered entirely inside cycle c (after start returned, before stop was invoked)
Inside(m, c) == /\ Has("res", "start", c) /\ I("res", "start", c) < I("inv", "offer", m)
                /\ Has("res", "offer", m)
                /\ (Has("inv", "stop", c) => I("res", "offer", m) < I("inv", "stop", c))
WrittenAt(m) == CHOOSE k \in DOMAIN Writes : WId(k) = m
IsWritten(m) == \E k \in DOMAIN Writes : WId(k) = m
Callers == {E[i].t : i \in {i \in DOMAIN E : E[i].e = "inv"}}
Clause ==
  IF \E a, b \in DOMAIN Writes : a # b /\ WId(a) = WId(b) THEN "written_twice"
  ELSE IF \E c \in Cycles : \E m \in Offers : Inside(m, c) /\ Has("done", "stop", c) /\ ~IsWritten(m) THEN "message_lost"
  ELSE IF \E c \in Cycles : \E m \in Offers : Inside(m, c) /\ Has("done", "stop", c) /\ Writes[WrittenAt(m)] > I("done", "stop", c)
       THEN "written_after_stop_completed"
  ELSE IF \E a, b \in Offers : /\ Has("res", "offer", a) /\ I("res", "offer", a) < I("inv", "offer", b)
                               /\ IsWritten(a) /\ IsWritten(b) /\ WrittenAt(a) > WrittenAt(b) THEN "order"
  ELSE IF \E k \in DOMAIN Writes : E[Writes[k]].t \in Callers THEN "written_on_a_callers_thread"
  ELSE IF \E a, b \in DOMAIN Writes : E[Writes[a]].cycle = E[Writes[b]].cycle /\ E[Writes[a]].t # E[Writes[b]].t THEN "several_writer_threads"
  ELSE IF \E c \in Cycles : Has("inv", "stop", c) /\ ~Has("done", "stop", c) THEN "stop_never_completed"
  ELSE ""
Init == tid \in DOMAIN Traces /\ done = FALSE
Next == ~done /\ PrintT(<<"ACC", tid, Clause>>) /\ done' = TRUE /\ UNCHANGED tid
Spec == Init /\ [][Next]_<<tid, done>>
=============================================================================
