------------------------------- MODULE Written -------------------------------
(***************************************************************************)
(* eliot._action.WrittenAction.from_messages(start, children, end) and the *)
(* steps it is made of (_start, _add_child / _validate_message, _end) --   *)
(* the constructor of the parser's tree nodes, used by eliot.parse.Task.add *)
(* for every action message.  One specification action per step of the     *)
(* implementation, in the implementation's order, so that WHICH exception  *)
(* an ill-formed triple raises is part of the specification.               *)
(*                                                                         *)
(* Items (Pool) are messages and already-built sub-actions; every message  *)
(* may be passed in every role, so the pool contains the well-formed roles *)
(* and one witness per way of being wrong (other task, not a direct child, *)
(* wrong / missing status, wrong / missing action type, level not ending   *)
(* in 1, two different children at one level, a child at the level of the  *)
(* end message).                                                           *)
(*                                                                         *)
(* Checked by TLC: the stepwise machine accepts exactly the triples of the *)
(* declarative predicate Accepts (W_AcceptsExactly); an accepted action    *)
(* only holds direct children of its own task, a start that is a start and *)
(* an end that is an end of the same type (W_Direct, W_StartIsStart,       *)
(* W_EndIsEnd); every triple that is WELL-FORMED in the sense of the log   *)
(* format is accepted (W_WellFormedAccepted).  What the implementation     *)
(* accepts although the log format forbids it is named (Tolerated).        *)
(* Bound to the code by replaying every behaviour TLC emits.               *)
(***************************************************************************)
EXTENDS Naturals, Sequences, FiniteSets, TLC

CONSTANTS MaxKids

Front(s) == SubSeq(s, 1, Len(s) - 1)
Last(s)  == s[Len(s)]
Range(s) == {s[i] : i \in DOMAIN s}

M(u, lv, at, st, v) == [kind |-> "msg", u |-> u, lv |-> lv, at |-> at, st |-> st, v |-> v]
A(u, lv, v)         == [kind |-> "act", u |-> u, lv |-> lv, at |-> "none", st |-> "none", v |-> v]

\* the timestamp of item i is i; v distinguishes contents; a failed end carries exception/reason
Pool == <<
  M(1, <<2, 1>>, "A", "started", 1),       \*  1 the start of action [2] of task 1
  M(1, <<2, 1>>, "none", "started", 1),    \*  2 a start without action type
  M(1, <<2, 2>>, "A", "started", 1),       \*  3 "start" whose level does not end in 1
  M(1, <<2, 1>>, "A", "succeeded", 1),     \*  4 status of an end at the level of a start
  M(1, <<2, 3>>, "A", "succeeded", 1),     \*  5 the end
  M(1, <<2, 3>>, "A", "failed", 2),        \*  6 the end, failed (exception + reason)
  M(1, <<2, 3>>, "B", "succeeded", 1),     \*  7 end of another type
  M(2, <<2, 3>>, "A", "succeeded", 1),     \*  8 end of another task
  M(1, <<3, 3>>, "A", "succeeded", 1),     \*  9 end of another action
  M(1, <<2, 3>>, "A", "odd", 1),           \* 10 end with a status that is none of the three
  M(1, <<2, 3>>, "A", "none", 1),          \* 11 action message without status
  M(1, <<2, 3>>, "none", "succeeded", 1),  \* 12 end without action type
  M(1, <<2, 2>>, "none", "none", 1),       \* 13 a plain message, direct child
  M(1, <<2, 2>>, "none", "none", 2),       \* 14 another message claiming the same level
  M(2, <<2, 2>>, "none", "none", 1),       \* 15 the same position in another task
  M(1, <<2, 2, 1>>, "none", "none", 1),    \* 16 a grandchild
  M(1, <<2, 3>>, "none", "none", 1),       \* 17 a plain message at the level of the end
  M(1, <<2, 4>>, "none", "none", 1),       \* 18 a plain message after the end
  A(1, <<2, 2>>, 1),                       \* 19 a sub-action at [2,2]
  A(1, <<3, 2>>, 1)                        \* 20 a sub-action of another action
>>
N == Len(Pool)
Msgs == {i \in 1..N : Pool[i].kind = "msg"}
RECURSIVE SeqsUpTo(_, _)
SeqsUpTo(S, n) == IF n = 0 THEN {<<>>} ELSE SeqsUpTo(S, n - 1) \cup {Append(q, x) : q \in {q \in SeqsUpTo(S, n - 1) : Len(q) = n - 1}, x \in S}

VARIABLES s, e, kids,   \* the arguments: item numbers, 0 = None
          pc, k,        \* control: "construct", "start", "kids", "end", "done"; k = children added so far
          act,          \* the WrittenAction under construction
          out           \* "" while running, "ok", or the name of the exception raised
vars == <<s, e, kids, pc, k, act, out>>

NoAct == [tl |-> <<>>, u |-> 0, start |-> 0, end |-> 0, ch |-> <<>>]     \* ch: sequence of <<level, item>> in insertion order

Init == /\ s \in Msgs \cup {0} /\ e \in Msgs \cup {0} /\ kids \in SeqsUpTo(1..N, MaxKids)
        /\ pc = "construct" /\ k = 0 /\ act = NoAct /\ out = ""

Raise(x) == /\ out' = x /\ pc' = "done" /\ UNCHANGED <<s, e, kids, k, act>>
Goto(p)  == /\ pc' = p /\ UNCHANGED <<s, e, kids, k, out>>

\* actual_message = [m for m in [start, end] + children if m][0]
Construct ==
  /\ pc = "construct"
  /\ LET present == SelectSeq(<<s, e>> \o kids, LAMBDA i : i # 0)
     IN IF present = <<>> THEN Raise("IndexError")
        ELSE /\ act' = [NoAct EXCEPT !.tl = Front(Pool[present[1]].lv), !.u = Pool[present[1]].u]
             /\ pc' = "start" /\ UNCHANGED <<s, e, kids, k, out>>

\* WrittenAction._start: neither the task nor the position of the start message is compared with the action's
Start ==
  /\ pc = "start"
  /\ IF s = 0 THEN Goto("kids") /\ UNCHANGED act
     ELSE IF Pool[s].st # "started" THEN Raise("InvalidStartMessage")
     ELSE IF Last(Pool[s].lv) # 1 THEN Raise("InvalidStartMessage")
     ELSE act' = [act EXCEPT !.start = s] /\ Goto("kids")

ChildAt(a, lv) == LET hits == SelectSeq(a.ch, LAMBDA p : p[1] = lv) IN IF hits = <<>> THEN 0 ELSE hits[1][2]
SameItem(i, j) == Pool[i] = Pool[j]
Validate(a, i) == IF Pool[i].u # a.u THEN "WrongTask" ELSE IF Front(Pool[i].lv) # a.tl THEN "WrongTaskLevel" ELSE "ok"

\* for child in children: DuplicateChild unless the level is free or holds an EQUAL child; then _add_child (validate, store)
AddChild ==
  /\ pc = "kids"
  /\ IF k = Len(kids) THEN Goto("end") /\ UNCHANGED act
     ELSE LET c == kids[k + 1]
              old == ChildAt(act, Pool[c].lv)
          IN IF old # 0 /\ ~SameItem(old, c) THEN Raise("DuplicateChild")
             ELSE IF Validate(act, c) # "ok" THEN Raise(Validate(act, c))
             ELSE /\ act' = [act EXCEPT !.ch = IF old # 0 THEN @ ELSE Append(@, <<Pool[c].lv, c>>)]
                  /\ k' = k + 1 /\ UNCHANGED <<s, e, kids, pc, out>>

\* the action_type property: start_message.contents[ACTION_TYPE_FIELD] -- a start WITHOUT the key raises KeyError (deviation KeyErrorNoType)
TypeOf(a) == IF a.start # 0 THEN (IF Pool[a.start].at = "none" THEN "KeyError" ELSE Pool[a.start].at)
             ELSE IF a.end # 0 THEN (IF Pool[a.end].at = "none" THEN "KeyError" ELSE Pool[a.end].at)
             ELSE "None"

\* WrittenAction._end: type first, then task / position, then status
End ==
  /\ pc = "end"
  /\ IF e = 0 THEN /\ out' = "ok" /\ pc' = "done" /\ UNCHANGED <<s, e, kids, k, act>>
     ELSE IF TypeOf(act) = "KeyError" THEN Raise("KeyError")
     ELSE IF TypeOf(act) # "None" /\ TypeOf(act) # Pool[e].at THEN Raise("WrongActionType")
     ELSE IF Validate(act, e) # "ok" THEN Raise(Validate(act, e))
     ELSE IF Pool[e].st \notin {"succeeded", "failed"} THEN Raise("InvalidStatus")
     ELSE /\ act' = [act EXCEPT !.end = e] /\ out' = "ok" /\ pc' = "done" /\ UNCHANGED <<s, e, kids, k>>

Next == Construct \/ Start \/ AddChild \/ End
Spec == Init /\ [][Next]_vars

\* ------------------------------------------------------------------ what the finished object shows (public properties)
Done == pc = "done"
RECURSIVE SortCh(_)
SortCh(S) == IF S = {} THEN <<>> ELSE LET m == CHOOSE p \in S : \A q \in S : Last(p[1]) <= Last(q[1]) IN <<m[2]>> \o SortCh(S \ {m})
StatusOf(a) == IF a.end # 0 THEN Pool[a.end].st ELSE IF a.start # 0 THEN Pool[a.start].st ELSE "None"
View == IF out # "ok" THEN <<>>
        ELSE <<act.tl, act.u, TypeOf(act), StatusOf(act), SortCh(Range(act.ch)), act.start, act.end,
               IF act.end # 0 /\ Pool[act.end].st = "failed" THEN "exc" ELSE "None">>

\* ------------------------------------------------------------------ declarative reference and invariants
Base == LET present == SelectSeq(<<s, e>> \o kids, LAMBDA i : i # 0) IN present[1]
Direct(i) == Pool[i].u = Pool[Base].u /\ Front(Pool[i].lv) = Front(Pool[Base].lv)
Accepts ==
  /\ s # 0 \/ e # 0 \/ kids # <<>>
  /\ s # 0 => Pool[s].st = "started" /\ Last(Pool[s].lv) = 1
  /\ \A i \in DOMAIN kids : Direct(kids[i]) /\ \A j \in 1..(i - 1) : Pool[kids[j]].lv = Pool[kids[i]].lv => SameItem(kids[j], kids[i])
  /\ e # 0 => /\ Direct(e) /\ Pool[e].st \in {"succeeded", "failed"}
              /\ s # 0 => Pool[s].at # "none" /\ Pool[s].at = Pool[e].at
W_AcceptsExactly == Done => ((out = "ok") <=> Accepts)

\* the log format's own notion: a started start with a type, children that are direct, at distinct levels strictly between
\* the start's and the end's, an end of the same type with a final status
WellFormed ==
  /\ s # 0 /\ Pool[s].st = "started" /\ Last(Pool[s].lv) = 1 /\ Pool[s].at # "none"
  /\ \A i \in DOMAIN kids : /\ Pool[kids[i]].u = Pool[s].u /\ Front(Pool[kids[i]].lv) = Front(Pool[s].lv)
                            /\ Last(Pool[kids[i]].lv) > 1
                            /\ \A j \in DOMAIN kids : j # i => Pool[kids[j]].lv # Pool[kids[i]].lv
                            /\ e # 0 => Last(Pool[kids[i]].lv) < Last(Pool[e].lv)
  /\ e # 0 => /\ Pool[e].kind = "msg" /\ Pool[e].u = Pool[s].u /\ Front(Pool[e].lv) = Front(Pool[s].lv)
              /\ Pool[e].at = Pool[s].at /\ Pool[e].st \in {"succeeded", "failed"} /\ Last(Pool[e].lv) > 1
W_WellFormedAccepted == (Done /\ WellFormed) => out = "ok"
\* accepted although not well-formed (named deviations of the implementation from the log format; information, not a property)
Tolerated == Done /\ out = "ok" /\ ~WellFormed

W_Direct == \A i \in DOMAIN act.ch : Pool[act.ch[i][2]].u = act.u /\ Front(act.ch[i][1]) = act.tl /\ Pool[act.ch[i][2]].lv = act.ch[i][1]
W_OnePerLevel == \A i, j \in DOMAIN act.ch : act.ch[i][1] = act.ch[j][1] => i = j
W_StartIsStart == act.start # 0 => Pool[act.start].st = "started" /\ Last(Pool[act.start].lv) = 1 /\ Front(Pool[act.start].lv) = act.tl /\ Pool[act.start].u = act.u
W_EndIsEnd == act.end # 0 => /\ Pool[act.end].st \in {"succeeded", "failed"} /\ Pool[act.end].u = act.u /\ Front(Pool[act.end].lv) = act.tl
                             /\ act.start # 0 => Pool[act.start].at = Pool[act.end].at

\* behaviours for the replay (CONSTRAINT Emit): arguments, outcome, what the object shows, and whether the triple is well-formed
Emit == Done => PrintT(<<"WR", s, e, kids, out, View, WellFormed>>)
ASSUME PrintT(<<"POOL", Pool>>)
=============================================================================
